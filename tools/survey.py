#!/venv/bin/python
"""Developer tool: run N seeds of a check and print every distinct violation class/signature with a count."""
import os, sys, json, collections, warnings
warnings.filterwarnings('ignore')
sys.path.insert(0, os.path.dirname(os.path.dirname(os.path.abspath(__file__))))
import concurrent.futures as cf, multiprocessing, time
from sim import runner
mod = 'checks.' + sys.argv[1].lower()
n = int(sys.argv[2]); tier = sys.argv[3] if len(sys.argv) > 3 else 'quick'
base = int(os.environ.get('VERIF_SEED', '1')) * 1_000_003
seeds = [base + i for i in range(n)]
chunks = [seeds[i:i+8] for i in range(0, n, 8)]
ctx = multiprocessing.get_context('fork')
res = []
with cf.ProcessPoolExecutor(16, mp_context=ctx) as ex:
    for r in ex.map(runner._worker_chunk, [mod]*len(chunks), [tier]*len(chunks), chunks, [time.time()+3600]*len(chunks)):
        res.extend(r)
c = collections.Counter(); ex1 = {}
findings = runner.load_findings()
for r in res:
    if r.get('harness_error'):
        c[('HARNESS', r['harness_error'][:200])] += 1; ex1.setdefault(('HARNESS', r['harness_error'][:200]), (r['seed'], r.get('traceback','')[-1500:]))
    for v in r['violations']:
        k = (v['property'], v['class'], json.dumps(v.get('signature', {}), sort_keys=True), 'KNOWN' if runner.match_finding(v, findings) else 'FRESH')
        c[k] += 1; ex1.setdefault(k, (r['seed'], v['detail']))
for k, n_ in c.most_common():
    print(n_, k, '\n     seed', ex1[k][0], str(ex1[k][1])[:700])
print('runs', len(res))
