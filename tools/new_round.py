#!/venv/bin/python
"""tools/new_round.py <suffix> [Cxx ...] : prepare a round of seeded-defect work for independent sub-agents.
For each property: a scratch git worktree of /repo at /tmp/mut/<Cxx>-<suffix>, the property text alone in /tmp/mut/<Cxx>.prop.txt and the
prompt in /tmp/mut/<Cxx>-<suffix>.prompt.txt (the agents get nothing from /verif; the list of what earlier seeded changes needed comes
from /verif/seeded/*/meta.json and only says which triggers are taken)."""
import json, os, subprocess, sys
suffix = sys.argv[1]
props = {}
for l in open('/verif/properties.jsonl'):
    p = json.loads(l)
    props[p['id']] = p
ids = [a for a in sys.argv[2:]] or [i for i in sorted(props) if i != 'C19']
os.makedirs('/tmp/mut', exist_ok=True)
template = open('/verif/tools/mutant_prompt.txt').read()
for pid in ids:
    mid = f'{pid}-{suffix}'
    wt = f'/tmp/mut/{mid}'
    if not os.path.exists(wt):
        subprocess.run(['git', '-C', '/repo', 'worktree', 'add', '--detach', wt, 'HEAD'], check=True, capture_output=True)
    p = props[pid]
    with open(f'/tmp/mut/{pid}.prop.txt', 'w') as f:
        f.write(f"{pid}: {p.get('title', '')}\n\n{p.get('statement', '')}\n\nAnchored in: {json.dumps(p.get('anchors', p.get('anchor', '')))}\n")
    earlier = []
    for d in sorted(os.listdir('/verif/seeded')):
        try:
            m = json.load(open(f'/verif/seeded/{d}/meta.json'))
        except Exception:
            continue
        if m.get('breaks_property') == pid:
            earlier.append('- ' + m.get('needs_to_manifest', '').strip())
    open(f'/tmp/mut/{mid}.prompt.txt', 'w').write(template.replace('@WT@', wt).replace('@PROP@', pid).replace('@EARLIER@', '\n'.join(earlier)))
    print(mid, len(earlier), 'earlier')
