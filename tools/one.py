#!/venv/bin/python
"""Developer tool: run one seed of a check verbosely (logs, deaths, violations)."""
import os, sys, json, warnings
warnings.filterwarnings('ignore')
sys.path.insert(0, os.path.dirname(os.path.dirname(os.path.abspath(__file__))))
import importlib
mod = importlib.import_module('checks.' + sys.argv[1].lower())
if sys.argv[2].endswith('.json'):
    d = json.load(open(sys.argv[2])); sc = d.get('scenario', d)
else:
    seed = int(sys.argv[2]); tier = sys.argv[3] if len(sys.argv) > 3 and not sys.argv[3].startswith('-') else 'quick'
    sc = mod.generate(seed, tier)
sc['keep_events'] = True
if '--debug' in sys.argv: sc['debug_log'] = True
print(json.dumps(sc.get('meta'), default=str))
print('ops', json.dumps(sc['ops'], default=str)[:3000])
import sim.world as W
orig_finish = W.World.finish
def fin(self):
    for n in self.nodes.values():
        if n.death: print('DEATH', n.name, n.death[:3])
    for l in self.logs[-int(os.environ.get('NLOG','60')):]: print(l)
    for e in self.internal_errors[-5:]: print('INTERNAL', e[:4]); print(e[4])
    orig_finish(self)
W.World.finish = fin
r = mod.run(sc)
print(json.dumps(r['violations'], indent=1, default=str)[:4000])
print(r.get('harness_error'), r['stats'].get('reach'))
