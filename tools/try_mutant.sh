#!/bin/sh
# tools/try_mutant.sh <mutant-id e.g. C08-1> <check ids...> : apply the seeded change to /repo, run the quick checks, undo.
ID=$1; shift
P=/tmp/mut/$ID/OUT/patch.diff
[ -f /verif/seeded/$ID/patch.diff ] && P=/verif/seeded/$ID/patch.diff
git -C /repo diff --quiet || { echo "/repo not clean"; exit 2; }
git -C /repo apply "$P" 2>/dev/null || git -C /repo apply -C1 "$P" || exit 2
cd /verif
for c in "$@"; do
  out=$(timeout 900 ./check $c --tier quick 2>&1); rc=$?
  echo "== $ID vs $c: exit $rc"; echo "$out" | grep -E "VIOLATION|class=|KNOWN|HARNESS|runs=" | head -8
done
git -C /repo checkout -- .
git -C /repo diff --quiet && echo "(repo restored)"
git -C /verif checkout -- evidence 2>/dev/null
rm -f /verif/replays/*
