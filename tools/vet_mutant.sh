#!/bin/sh
# tools/vet_mutant.sh <worktree> : confirm a seeded defect: suite still green with it, demo fails with it and passes without it.
W=$1
cd "$W" || exit 2
git diff --quiet && { echo "no change applied in $W"; exit 2; }
git diff -- . ':(exclude)OUT' > /tmp/vet.$$.diff
echo "== baseline with the change"; /verif/tools/baseline.sh "$W"; b=$?
echo "== demo with the change (expect exit 1)"; timeout 300 /venv/bin/python OUT/demo.py >/tmp/vet.$$.with 2>&1; w=$?; tail -3 /tmp/vet.$$.with
git apply -R /tmp/vet.$$.diff
echo "== demo without the change (expect exit 0)"; timeout 300 /venv/bin/python OUT/demo.py >/tmp/vet.$$.without 2>&1; wo=$?; tail -2 /tmp/vet.$$.without
git apply /tmp/vet.$$.diff
echo "RESULT baseline=$b demo_with=$w demo_without=$wo"
rm -f /tmp/vet.$$.*
[ $b -eq 0 ] && [ $w -eq 1 ] && [ $wo -eq 0 ]
