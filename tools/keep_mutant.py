#!/venv/bin/python
"""tools/keep_mutant.py ID PROP 'needs to manifest' 'caught by / how' : store a vetted seeded defect under /verif/seeded/ID"""
import json, os, shutil, subprocess, sys
mid, prop, needs, caught = sys.argv[1:5]
src = f'/tmp/mut/{mid}'
dst = f'/verif/seeded/{mid}'
os.makedirs(dst, exist_ok=True)
diff = subprocess.run(['git', '-C', src, 'diff', '--', '.', ':(exclude)OUT'], capture_output=True, text=True).stdout
open(f'{dst}/patch.diff', 'w').write(diff)
shutil.copy(f'{src}/OUT/demo.py', f'{dst}/demo.py')
if os.path.exists(f'{src}/OUT/notes.md'):
    shutil.copy(f'{src}/OUT/notes.md', f'{dst}/notes.md')
base = subprocess.run(['git', '-C', src, 'rev-parse', '--short', 'HEAD'], capture_output=True, text=True).stdout.strip()
meta = {'id': mid, 'breaks_property': prop, 'base_commit_of_repo': base, 'needs_to_manifest': needs,
        'confirmed': 'tools/vet_mutant.sh: repository suite 176/176 stable tests still pass with the change; demo.py exits 1 with the '
                     'change and 0 without it (scratch worktree, since removed)',
        'checks_run': caught, 'author': 'independent sub-agent given only the property text and a scratch worktree'}
json.dump(meta, open(f'{dst}/meta.json', 'w'), indent=1)
print('kept', mid)
