#!/bin/sh
# tools/selfmut.sh <check> <file> <python-expr-old> <python-expr-new> : apply a one-line manual sanity mutant to /repo, run a short check, undo.
CHK=$1; F=$2
git -C /repo diff --quiet || { echo "/repo not clean"; exit 2; }
/venv/bin/python - "$F" "$3" "$4" <<'PY'
import sys
f, old, new = sys.argv[1:4]
s = open('/repo/' + f).read()
assert old in s, 'pattern not found'
open('/repo/' + f, 'w').write(s.replace(old, new, 1))
PY
[ $? -eq 0 ] || exit 2
out=$(cd /verif && timeout 600 ./check $CHK --runs ${RUNS:-240} 2>&1); rc=$?
echo "exit $rc"; echo "$out" | grep -E "VIOLATION|class=|detail" | head -${LINES_OUT:-4}
git -C /repo checkout -- .
git -C /verif checkout -- evidence
find /verif/replays -name '*.json' -newer /verif/MANIFEST.json -delete 2>/dev/null
git -C /repo diff --quiet && echo "(repo restored)"
