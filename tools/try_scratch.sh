#!/bin/sh
# tools/try_scratch.sh <mutant-id> <check ids...> : like try_mutant.sh but against a scratch copy of /repo (safe while soaks / self-tests
# read /repo); no evidence is written, replays go to the scratch directory, which is removed at the end.
ID=$1; shift
P=/tmp/mut/$ID/OUT/patch.diff
[ -f /verif/seeded/$ID/patch.diff ] && P=/verif/seeded/$ID/patch.diff
T=$(mktemp -d /tmp/pyikev2-scratch-XXXXXX) || exit 2
git -C /repo worktree list >/dev/null 2>&1
cp -r /repo $T/repo && (git -C $T/repo apply "$P" 2>/dev/null || git -C $T/repo apply -C1 "$P") || { rm -rf $T; exit 2; }
cd /verif
for c in "$@"; do
  out=$(PYIKEV2_REPO=$T/repo VERIF_NO_EVIDENCE=1 VERIF_REPLAY_DIR=$T/replays timeout 900 ./check $c --tier quick --no-min 2>&1); rc=$?
  echo "== $ID vs $c: exit $rc"; echo "$out" | grep -E "VIOLATION|class=|KNOWN|HARNESS|runs=" | head -8
done
rm -rf $T
