#!/venv/bin/python
"""tools/addfinding.py fixed|open ID PROP CLASS 'SIGJSON' 'WHAT' 'WHERE' ['commit subject prefix']"""
import json, subprocess, sys
status, fid, prop, cls, sig, what, where = sys.argv[1:8]
p = '/verif/known_findings.json'
d = json.load(open(p))
e = {'id': fid, 'property': prop, 'status': status, 'class': cls, 'signature': json.loads(sig), 'what': what, 'where': where, 'commit': None}
if status == 'fixed':
    log = subprocess.run(['git', '-C', '/repo', 'log', '--format=%h %s'], capture_output=True, text=True).stdout.strip().split('\n')
    c = next(l.split()[0] for l in log if l.split(' ', 1)[1].startswith(sys.argv[8]))
    e['commit'] = c
    e['record'] = f'fixed: property={prop} {c} {what}'
d['findings'] = [f for f in d['findings'] if f['id'] != fid] + [e]
json.dump(d, open(p, 'w'), indent=1)
print('ok', fid, e['commit'])
