#!/venv/bin/python
"""tools/register.py PID 'level text' 'level note' 'technique' 'design ref' [category]"""
import json, sys
pid, text, note, tech, ref = sys.argv[1:6]
cat = sys.argv[6] if len(sys.argv) > 6 else 'exploration'
m = json.load(open('/verif/MANIFEST.json'))
m['checks'] = [c for c in m['checks'] if c['property_id'] != pid]
m['checks'].append({'property_id': pid, 'quick_cmd': f'./check {pid} --tier quick', 'thorough_cmd': f'./check {pid} --tier thorough',
                    'evidence_file': f'/verif/evidence/{pid}.json', 'replay_cmd_template': f'./check {pid} --replay {{path}}',
                    'engine': 'dsfi', 'level_claimed': {'category': cat, 'text': text, 'design_ref': ref}, 'level_note': note,
                    'technique': tech})
m['checks'].sort(key=lambda c: c['property_id'])
m['not_applicable'] = [n for n in m['not_applicable'] if n['property_id'] != pid]
m['engines'][0]['serves_properties'] = sorted(set(m['engines'][0]['serves_properties']) | {pid})
json.dump(m, open('/verif/MANIFEST.json', 'w'), indent=1)
print('registered', pid)
