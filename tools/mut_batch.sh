#!/bin/sh
# tools/mut_batch.sh <id>[:check,check...] ... : vet each seeded change in /tmp/mut/<id> and try it against its property's check (and others)
for spec in "$@"; do
  id=${spec%%:*}; checks=${spec#*:}; [ "$checks" = "$spec" ] && checks=${id%%-*}
  echo "######## $id"
  /verif/tools/vet_mutant.sh /tmp/mut/$id 2>&1 | tail -1
  /verif/tools/try_scratch.sh $id $(echo $checks | tr ',' ' ') 2>&1 | grep -E "^==|class=|runs=" | awk '/^==/{n=0} {n++; if (n<=4) print}'
done
