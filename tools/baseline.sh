#!/bin/sh
# Runs the repository's own suite (guard off: there are no hooks) and compares with BASELINE.json's stable_pass list.
# usage: tools/baseline.sh [repo-dir]
REPO=${1:-/repo}
OUT=$(mktemp)
cd "$REPO" && /venv/bin/python -m pytest -ra -q -p no:cacheprovider --timeout=900 --continue-on-collection-errors --junitxml="$OUT" >/dev/null 2>&1
/venv/bin/python - "$OUT" <<'PY'
import json, sys, xml.etree.ElementTree as ET
base = set(json.load(open('/root/.vp/BASELINE.json'))['stable_pass'])
passed = set()
for tc in ET.parse(sys.argv[1]).getroot().iter('testcase'):
    if not any(c.tag in ('failure', 'error', 'skipped') for c in tc):
        passed.add(f"{tc.get('classname')}::{tc.get('name')}")
missing = sorted(base - passed)
print(f'baseline: {len(base & passed)}/{len(base)} stable tests pass; newly passing outside baseline: {len(passed - base)}')
for m in missing: print('  MISSING', m)
sys.exit(1 if missing else 0)
PY
rc=$?
rm -f "$OUT"
exit $rc
