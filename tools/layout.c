/* Emits the kernel's own view of the netlink/XFRM UAPI as JSON:
 * sizeof / offsetof / field size for every structure the fake kernel decodes or encodes,
 * plus the numeric constants.  Compiled against <linux/xfrm.h> at setup time. */
#include <stdio.h>
#include <stddef.h>
#include <sys/socket.h>
#include <netinet/in.h>
#include <linux/netlink.h>
#include <linux/xfrm.h>

#define FSZ(t, f) ((unsigned long)sizeof(((t *)0)->f))
static int first_struct = 1, first_field;
#define S_BEGIN(name, t) do { printf("%s\n  \"%s\": {\"size\": %lu, \"fields\": {", first_struct ? "" : ",", name, (unsigned long)sizeof(t)); first_struct = 0; first_field = 1; } while (0)
#define F(t, f) do { printf("%s\"%s\": [%lu, %lu]", first_field ? "" : ", ", #f, (unsigned long)offsetof(t, f), FSZ(t, f)); first_field = 0; } while (0)
#define S_END() printf("}}")
#define C(n) printf(",\n  \"%s\": %ld", #n, (long)(n))

int main(void) {
    printf("{\"structs\": {");
    S_BEGIN("nlmsghdr", struct nlmsghdr);
    F(struct nlmsghdr, nlmsg_len); F(struct nlmsghdr, nlmsg_type); F(struct nlmsghdr, nlmsg_flags);
    F(struct nlmsghdr, nlmsg_seq); F(struct nlmsghdr, nlmsg_pid); S_END();
    S_BEGIN("nlmsgerr", struct nlmsgerr);
    F(struct nlmsgerr, error); F(struct nlmsgerr, msg); S_END();
    S_BEGIN("nlattr", struct nlattr);
    F(struct nlattr, nla_len); F(struct nlattr, nla_type); S_END();
    S_BEGIN("xfrm_address_t", xfrm_address_t);
    F(xfrm_address_t, a4); F(xfrm_address_t, a6); S_END();
    S_BEGIN("xfrm_selector", struct xfrm_selector);
    F(struct xfrm_selector, daddr); F(struct xfrm_selector, saddr); F(struct xfrm_selector, dport);
    F(struct xfrm_selector, dport_mask); F(struct xfrm_selector, sport); F(struct xfrm_selector, sport_mask);
    F(struct xfrm_selector, family); F(struct xfrm_selector, prefixlen_d); F(struct xfrm_selector, prefixlen_s);
    F(struct xfrm_selector, proto); F(struct xfrm_selector, ifindex); F(struct xfrm_selector, user); S_END();
    S_BEGIN("xfrm_id", struct xfrm_id);
    F(struct xfrm_id, daddr); F(struct xfrm_id, spi); F(struct xfrm_id, proto); S_END();
    S_BEGIN("xfrm_lifetime_cfg", struct xfrm_lifetime_cfg);
    F(struct xfrm_lifetime_cfg, soft_byte_limit); F(struct xfrm_lifetime_cfg, hard_byte_limit);
    F(struct xfrm_lifetime_cfg, soft_packet_limit); F(struct xfrm_lifetime_cfg, hard_packet_limit);
    F(struct xfrm_lifetime_cfg, soft_add_expires_seconds); F(struct xfrm_lifetime_cfg, hard_add_expires_seconds);
    F(struct xfrm_lifetime_cfg, soft_use_expires_seconds); F(struct xfrm_lifetime_cfg, hard_use_expires_seconds); S_END();
    S_BEGIN("xfrm_lifetime_cur", struct xfrm_lifetime_cur);
    F(struct xfrm_lifetime_cur, bytes); F(struct xfrm_lifetime_cur, packets);
    F(struct xfrm_lifetime_cur, add_time); F(struct xfrm_lifetime_cur, use_time); S_END();
    S_BEGIN("xfrm_stats", struct xfrm_stats);
    F(struct xfrm_stats, replay_window); F(struct xfrm_stats, replay); F(struct xfrm_stats, integrity_failed); S_END();
    S_BEGIN("xfrm_usersa_info", struct xfrm_usersa_info);
    F(struct xfrm_usersa_info, sel); F(struct xfrm_usersa_info, id); F(struct xfrm_usersa_info, saddr);
    F(struct xfrm_usersa_info, lft); F(struct xfrm_usersa_info, curlft); F(struct xfrm_usersa_info, stats);
    F(struct xfrm_usersa_info, seq); F(struct xfrm_usersa_info, reqid); F(struct xfrm_usersa_info, family);
    F(struct xfrm_usersa_info, mode); F(struct xfrm_usersa_info, replay_window); F(struct xfrm_usersa_info, flags); S_END();
    S_BEGIN("xfrm_usersa_id", struct xfrm_usersa_id);
    F(struct xfrm_usersa_id, daddr); F(struct xfrm_usersa_id, spi); F(struct xfrm_usersa_id, family);
    F(struct xfrm_usersa_id, proto); S_END();
    S_BEGIN("xfrm_userpolicy_info", struct xfrm_userpolicy_info);
    F(struct xfrm_userpolicy_info, sel); F(struct xfrm_userpolicy_info, lft); F(struct xfrm_userpolicy_info, curlft);
    F(struct xfrm_userpolicy_info, priority); F(struct xfrm_userpolicy_info, index); F(struct xfrm_userpolicy_info, dir);
    F(struct xfrm_userpolicy_info, action); F(struct xfrm_userpolicy_info, flags); F(struct xfrm_userpolicy_info, share); S_END();
    S_BEGIN("xfrm_user_tmpl", struct xfrm_user_tmpl);
    F(struct xfrm_user_tmpl, id); F(struct xfrm_user_tmpl, family); F(struct xfrm_user_tmpl, saddr);
    F(struct xfrm_user_tmpl, reqid); F(struct xfrm_user_tmpl, mode); F(struct xfrm_user_tmpl, share);
    F(struct xfrm_user_tmpl, optional); F(struct xfrm_user_tmpl, aalgos); F(struct xfrm_user_tmpl, ealgos);
    F(struct xfrm_user_tmpl, calgos); S_END();
    S_BEGIN("xfrm_user_acquire", struct xfrm_user_acquire);
    F(struct xfrm_user_acquire, id); F(struct xfrm_user_acquire, saddr); F(struct xfrm_user_acquire, sel);
    F(struct xfrm_user_acquire, policy); F(struct xfrm_user_acquire, aalgos); F(struct xfrm_user_acquire, ealgos);
    F(struct xfrm_user_acquire, calgos); F(struct xfrm_user_acquire, seq); S_END();
    S_BEGIN("xfrm_user_expire", struct xfrm_user_expire);
    F(struct xfrm_user_expire, state); F(struct xfrm_user_expire, hard); S_END();
    S_BEGIN("xfrm_usersa_flush", struct xfrm_usersa_flush);
    F(struct xfrm_usersa_flush, proto); S_END();
    S_BEGIN("xfrm_algo", struct xfrm_algo);
    F(struct xfrm_algo, alg_name); F(struct xfrm_algo, alg_key_len); S_END();
    printf("\n },\n \"consts\": {\n  \"_\": 0");
    C(NLMSG_ERROR); C(NLMSG_DONE); C(NLMSG_NOOP); C(NLM_F_REQUEST); C(NLM_F_MULTI); C(NLM_F_ACK);
    C(XFRM_MSG_NEWSA); C(XFRM_MSG_DELSA); C(XFRM_MSG_GETSA); C(XFRM_MSG_NEWPOLICY); C(XFRM_MSG_DELPOLICY);
    C(XFRM_MSG_GETPOLICY); C(XFRM_MSG_ALLOCSPI); C(XFRM_MSG_ACQUIRE); C(XFRM_MSG_EXPIRE); C(XFRM_MSG_UPDPOLICY);
    C(XFRM_MSG_UPDSA); C(XFRM_MSG_POLEXPIRE); C(XFRM_MSG_FLUSHSA); C(XFRM_MSG_FLUSHPOLICY);
    C(XFRMA_ALG_AUTH); C(XFRMA_ALG_CRYPT); C(XFRMA_ALG_COMP); C(XFRMA_ENCAP); C(XFRMA_TMPL); C(XFRMA_SA);
    C(XFRMA_POLICY); C(XFRMA_ALG_AEAD); C(XFRMA_ALG_AUTH_TRUNC);
    C(XFRM_POLICY_IN); C(XFRM_POLICY_OUT); C(XFRM_POLICY_FWD); C(XFRM_POLICY_MAX);
    C(XFRM_MODE_TRANSPORT); C(XFRM_MODE_TUNNEL); C(XFRM_POLICY_ALLOW); C(XFRM_POLICY_BLOCK);
    C(XFRMNLGRP_ACQUIRE); C(XFRMNLGRP_EXPIRE);
    C(AF_INET); C(AF_INET6); C(AF_NETLINK); C(NETLINK_XFRM); C(IPPROTO_ESP); C(IPPROTO_AH); C(IPPROTO_COMP);
    C(NLMSG_ALIGNTO); C(NLA_ALIGNTO);
    printf("\n }\n}\n");
    return 0;
}
