"""Seams: every source of nondeterminism in /repo is a module attribute looked up at call time.
install() replaces them with objects that dispatch on the node the scheduler is currently running.
/repo itself is not modified."""
import hashlib
import importlib
import logging
import os
import random as _random
import socket as _socket
import sys
import time as _time

REPO = os.environ.get('PYIKEV2_REPO', '/repo')


class Cur:
    node = None      # Node whose thread holds the baton (None: the scheduler itself)
    world = None


CUR = Cur()
M = {}               # repo modules by name


class _HarnessStream:
    """Randomness for repo code executed outside any node (should not happen in checks)."""
    def __init__(self):
        self.rnd = _random.Random(0)
        self.ctr = 0
        self.name = '-'
        self.incarnation = 0
        self.sys_seed = 0

    def urandom(self, n):
        self.ctr += 1
        return hashlib.shake_128(f'harness:{self.ctr}'.encode()).digest(n)

    def clock(self):
        return CUR.world.now if CUR.world else 0.0


_HARNESS = _HarnessStream()


def _n():
    return CUR.node or _HARNESS


class _Clock:
    @staticmethod
    def time():
        return _n().clock()

    def __getattr__(self, name):
        return getattr(_time, name)


class _OsProxy:
    """`os` as seen by ikesa/message/crypto/ikesacontroller/netlink: urandom and getpid are simulated."""
    @staticmethod
    def urandom(n):
        return _n().urandom(n)

    @staticmethod
    def getpid():
        return 4242

    def __getattr__(self, name):
        return getattr(os, name)


class _RandomProxy:
    """`random` as seen by ikesa/xfrm/configuration."""
    def __getattr__(self, name):
        return getattr(_n().rnd, name)


def _system_random():
    return _n().rnd


# ------------------------------------------------------------------ Diffie-Hellman determinism
# The private scalars come from the node's seeded stream; the key objects are built with the
# cryptography library's own constructors, so MODPDH / ECDH in /repo run unmodified.
DH_SCALARS = {}      # public value bytes (as put on the wire) -> (group kind, scalar)   [per run]


def _real_crypto():
    from cryptography.hazmat.primitives.asymmetric import dh, ec
    return dh, ec


class _PnWrapper:
    """Stands in for dh.DHParameterNumbers inside crypto.MODPDH."""
    def __init__(self, real_pn):
        self.real = real_pn
        self.p, self.g = real_pn.p, real_pn.g

    def parameters(self, backend=None):
        return _SeededDhParameters(self.real)


class _DhNs:
    def __init__(self):
        self._dh, _ = _real_crypto()

    def DHParameterNumbers(self, p, g, q=None):
        return _PnWrapper(self._dh.DHParameterNumbers(p, g, q))

    def DHPublicNumbers(self, y, pn):
        return self._dh.DHPublicNumbers(y, pn.real if isinstance(pn, _PnWrapper) else pn)

    def __getattr__(self, name):
        return getattr(self._dh, name)


_DH_KEY_CACHE = {}


class _SeededDhParameters:
    def __init__(self, pn):
        self.pn = pn

    def generate_private_key(self):
        dh, _ = _real_crypto()
        p, g = self.pn.p, self.pn.g
        nbytes = (p.bit_length() + 7) // 8
        x = int.from_bytes(_n().urandom(32), 'big') | (1 << 255)   # 256-bit exponent, as OpenSSL picks for safe primes
        ck = (p, x)
        key = _DH_KEY_CACHE.get(ck)
        if key is None:
            y = pow(g, x, p)
            key = dh.DHPrivateNumbers(x, dh.DHPublicNumbers(y, self.pn)).private_key()
            if len(_DH_KEY_CACHE) < 4096:
                _DH_KEY_CACHE[ck] = key
        y = key.public_key().public_numbers().y
        DH_SCALARS[y.to_bytes(nbytes, 'big')] = ('modp', nbytes, x)
        if CUR.world is not None:
            CUR.world.dh_made(_n(), 'modp', nbytes)
        return key


class _EcNs:
    def __init__(self):
        _, self._ec = _real_crypto()

    def generate_private_key(self, curve, backend=None):
        ec = self._ec
        order_bits = curve.key_size
        nb = (order_bits + 7) // 8
        # all three NIST group orders exceed 2**(order_bits - 1): any value below that is a valid scalar
        x = (int.from_bytes(_n().urandom(nb), 'big') % (1 << (order_bits - 2))) + 1
        key = ec.derive_private_key(x, curve)
        pub = key.public_key().public_numbers()
        DH_SCALARS[pub.x.to_bytes(nb, 'big') + pub.y.to_bytes(nb, 'big')] = ('ec', order_bits, x)
        if CUR.world is not None:
            CUR.world.dh_made(_n(), 'ec', order_bits)
        return key

    def __getattr__(self, name):
        return getattr(self._ec, name)


class _ConfSocket:
    """`socket` as seen by configuration.py: name resolution without a resolver."""
    gaierror = _socket.gaierror
    names = {}
    fail = set()

    def getaddrinfo(self, host, port, *a, **k):
        host = str(host)
        if host in self.fail:
            raise _socket.gaierror(-2, 'Name or service not known')
        host = self.names.get(host, host)
        import ipaddress
        try:
            ip = ipaddress.ip_address(host)
        except ValueError:
            raise _socket.gaierror(-2, 'Name or service not known')
        fam = _socket.AF_INET6 if ip.version == 6 else _socket.AF_INET
        return [(fam, _socket.SOCK_STREAM, 6, '', (str(ip), 0))]

    def __getattr__(self, name):
        return getattr(_socket, name)


class _TracebackProxy:
    """`traceback` as seen by ikesa: print_exc() marks an internal-error path."""
    def print_exc(self, *a, **k):
        import traceback as tb
        et, ev, _ = sys.exc_info()
        text = ''.join(tb.format_exception_only(et, ev)).strip()
        frames = tb.extract_tb(sys.exc_info()[2])
        where = f'{os.path.basename(frames[-1].filename)}:{frames[-1].name}' if frames else '?'
        if CUR.world is not None:
            CUR.world.internal_error(_n(), text, where, ''.join(tb.format_exception(et, ev, sys.exc_info()[2])))

    def __getattr__(self, name):
        import traceback as tb
        return getattr(tb, name)


class _CaptureHandler(logging.Handler):
    def emit(self, record):
        w = CUR.world
        if w is None:
            return
        try:
            msg = record.getMessage()
        except Exception as ex:   # a logging call with bad arguments
            msg = f'<unformattable log record: {ex!r}>'
        w.log_record(_n(), record.levelno, msg)


_installed = False
CAPTURE = _CaptureHandler()


def install(repo=None):
    """Import /repo's modules and put the seams in place. Idempotent."""
    global _installed, REPO
    if _installed:
        return M
    if repo:
        REPO = repo
    REPO = os.path.abspath(REPO)
    if REPO in sys.path:
        sys.path.remove(REPO)
    sys.path.insert(0, REPO)
    for name in ('message', 'crypto', 'netlink', 'xfrm', 'configuration', 'ikesa', 'ikesacontroller'):
        if name in sys.modules:
            raise RuntimeError(f'module {name} was imported before the seams were installed')
        M[name] = importlib.import_module(name)
        f = os.path.abspath(M[name].__file__)
        if os.path.dirname(f) != REPO:
            raise RuntimeError(f'{name} imported from {f}, not from {REPO}')
    clock, osp, rnd = _Clock(), _OsProxy(), _RandomProxy()
    M['ikesa'].time = clock
    M['netlink'].time = clock
    M['ikesa'].os = osp
    M['message'].os = osp
    M['crypto'].os = osp
    M['ikesacontroller'].os = osp
    M['netlink'].os = osp
    M['ikesa'].random = rnd
    M['xfrm'].random = rnd
    M['configuration'].random = rnd
    M['message'].SystemRandom = _system_random
    M['crypto'].dh = _DhNs()
    M['crypto'].ec = _EcNs()
    M['configuration'].socket = _ConfSocket()
    M['ikesa'].traceback = _TracebackProxy()
    logging.indent = None          # pyikev2.py sets this; log_message reads it
    root = logging.getLogger()
    for h in list(root.handlers):
        root.removeHandler(h)
    root.addHandler(CAPTURE)
    root.setLevel(logging.INFO)
    _installed = True
    return M


def reset_run_state():
    DH_SCALARS.clear()
