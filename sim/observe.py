"""Observation helpers shared by the oracles: independent IKE header parsing, state snapshots taken while a
node is parked, and a tap that records everything each node puts on the wire."""
import hashlib
import struct

EXCH = {34: 'IKE_SA_INIT', 35: 'IKE_AUTH', 36: 'CREATE_CHILD_SA', 37: 'INFORMATIONAL'}


def sha(data):
    return hashlib.sha256(bytes(data)).hexdigest()[:20]


def parse_header(data):
    """RFC 7296 section 3.1, independent of /repo. None if shorter than a header."""
    if len(data) < 28:
        return None
    spi_i, spi_r, np, ver, exch, flags, mid, length = struct.unpack('>8s8sBBBBLL', bytes(data[:28]))
    return {'spi_i': spi_i, 'spi_r': spi_r, 'next': np, 'major': ver >> 4, 'minor': ver & 15, 'exch': exch,
            'flags': flags, 'I': bool(flags & 0x08), 'V': bool(flags & 0x10), 'R': bool(flags & 0x20),
            'id': mid, 'length': length, 'reserved_flags': flags & ~0x38}


def local_spi(h):
    """The SPI that selects the receiver's IKE_SA: SPIr if the sender is the original initiator."""
    return h['spi_r'] if h['I'] else h['spi_i']


def sender_spi(h):
    return h['spi_i'] if h['I'] else h['spi_r']


def snap_sa(sa):
    """Everything an unauthenticated sender must not be able to move (C03) and the window state (C08)."""
    return {
        'my_spi': sa.my_spi.hex(), 'peer_spi': sa.peer_spi.hex(), 'is_initiator': bool(sa.is_initiator),
        'state': sa.state.name, 'my_msg_id': sa.my_msg_id, 'peer_msg_id': sa.peer_msg_id,
        'children': sorted((c.inbound_spi.hex(), c.outbound_spi.hex()) for c in sa.child_sas),
        'pending': len(sa.pending_events), 'retransmissions': sa.retransmissions,
        'retransmit_at': sa.retransmit_at, 'start_dpd_at': sa.start_dpd_at,
        'rekey_at': sa.rekey_ike_sa_at, 'delete_at': sa.delete_ike_sa_at,
        'last_resp': sha(getattr(sa, 'last_sent_response_data', b'') or b''),
        'has_keys': sa.ike_sa_keyring is not None,
        'my_addr': str(sa.my_addr), 'peer_addr': str(sa.peer_addr),
    }


def snap_node(node, timers=True):
    """Snapshot of a parked node: IKE_SA table, kernel request count, datagrams sent."""
    tab = []
    for sa in node.ike_sas():
        s = snap_sa(sa)
        if not timers:
            for k in ('retransmit_at', 'start_dpd_at', 'rekey_at', 'delete_at'):
                s.pop(k)
        tab.append(s)
    return {'state': node.state, 'table': tab, 'kernel_reqs': node.kernel.req_no,
            'sad': sorted((k[0].hex(), k[1], k[2].hex()) for k in node.kernel.sad),
            'sent': node.world.net.sent.get(node.name, 0)}


def diff_snap(a, b, ignore=()):
    """Human-readable list of differences between two node snapshots."""
    out = []
    for k in ('state', 'kernel_reqs', 'sad', 'sent'):
        if k not in ignore and a[k] != b[k]:
            out.append(f'{k}: {a[k]!r} -> {b[k]!r}')
    ta = {s['my_spi']: s for s in a['table']}
    tb = {s['my_spi']: s for s in b['table']}
    if [s['my_spi'] for s in a['table']] != [s['my_spi'] for s in b['table']]:
        out.append(f'table: {[s["my_spi"] for s in a["table"]]} -> {[s["my_spi"] for s in b["table"]]}')
    for spi in ta:
        if spi in tb:
            for f in ta[spi]:
                if f not in ignore and ta[spi][f] != tb[spi].get(f):
                    out.append(f'{spi}.{f}: {ta[spi][f]!r} -> {tb[spi].get(f)!r}')
    return out


class WireLog:
    """Tap + monitor: everything each node emitted, which step emitted it, and the set of authentic
    datagrams (byte strings some real node actually sent)."""

    def __init__(self, world):
        self.world = world
        self.sent = []                # dicts: t, step, sender, ordinal, src, dst, data, h
        self.by_sender = {}
        self.authentic = {}           # sha -> first record
        world.net.taps.append(self)

    def on_wire(self, meta, data):
        rec = {'t': meta['t'], 'step': self.world.steps, 'sender': meta['sender'], 'ordinal': meta['ordinal'],
               'src': meta['src'], 'dst': meta['dst'], 'data': bytes(data), 'h': parse_header(data),
               'key': meta['key']}
        self.sent.append(rec)
        self.by_sender.setdefault(meta['sender'], []).append(rec)
        self.authentic.setdefault(sha(data), rec)

    def emitted_in_step(self, node_name, step):
        lst = self.by_sender.get(node_name, [])
        out = []
        for rec in reversed(lst):
            if rec['step'] == step:
                out.append(rec)
            elif rec['step'] < step:
                break
        out.reverse()
        return out

    def is_authentic(self, data):
        return sha(data) in self.authentic
