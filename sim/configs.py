"""Configuration swarm (pairs of compatible connection dictionaries) and an *independent* reading of a
configuration dictionary, written from README/example.yaml, sharing no code with /repo/configuration.py."""
import ipaddress

from . import testkeys

ENCR = {'aes128': (12, 128), 'aes256': (12, 256)}
INTEG = {'sha1': 2, 'sha256': 12, 'sha512': 14}
PRF = {'sha1': 2, 'sha256': 5, 'sha512': 7}
DH = {'14': 14, '15': 15, '16': 16, '17': 17, '18': 18, '19': 19, '20': 20, '21': 21,
      'modp2048': 14, 'modp3072': 15, 'modp4096': 16, 'modp6144': 17, 'modp8192': 18,
      'ecp256': 19, 'ecp384': 20, 'ecp521': 21}
IP_PROTO = {'any': 0, 'tcp': 6, 'udp': 17, 'icmp': 1}
KERNEL_AUTH_NAME = {2: 'hmac(sha1)', 12: 'hmac(sha256)', 14: 'hmac(sha512)', 1: 'hmac(md5)'}
INTEG_KEY_BYTES = {2: 20, 12: 32, 14: 64}
INTEG_ICV_BYTES = {2: 12, 12: 16, 14: 32}
PRF_BYTES = {2: 20, 5: 32, 7: 64}


def _id(value):
    try:
        a = ipaddress.ip_address(value)
        return (1 if a.version == 4 else 5), a.packed
    except ValueError:
        pass
    return (3 if '@' in value else 2), value.encode()


def read_auth(d):
    idt, idd = _id(d.get('id', 'https://github.com/alejandro-perez/pyikev2'))
    return {'psk': d['psk'].encode() if 'psk' in d else None, 'id_type': idt, 'id_data': idd,
            'privkey': d.get('privkey'), 'pubkey': d.get('pubkey')}


def read_conf(conf):
    """Independent reading: {(my_addr, peer_addr): connection}"""
    out = {}
    for name, c in conf.items():
        me, peer = ipaddress.ip_address(c['my_addr']), ipaddress.ip_address(c['peer_addr'])
        conn = {'name': name, 'my_addr': me, 'peer_addr': peer,
                'ike': {'encr': [ENCR[str(x)] for x in c.get('encr', ['aes256'])],
                        'integ': [INTEG[str(x)] for x in c.get('integ', ['sha256'])],
                        'prf': [PRF[str(x)] for x in c.get('prf', ['sha256'])],
                        'dh': [DH[str(x)] for x in c.get('dh', ['14'])]},
                'lifetime': int(c.get('lifetime', 900)), 'dpd': int(c.get('dpd', 60)),
                'my_auth': read_auth(c['my_auth']), 'peer_auth': read_auth(c['peer_auth']), 'protect': []}
        for p in c['protect']:
            proto = p.get('ipsec_proto', 'esp')
            ent = {'index': p.get('index'), 'ipsec_proto': proto, 'mode': p.get('mode', 'tunnel'),
                   'encr': [] if proto == 'ah' else [ENCR[str(x)] for x in p.get('encr', ['aes256'])],
                   'integ': [INTEG[str(x)] for x in p.get('integ', ['sha256'])],
                   'dh': [DH[str(x)] for x in p.get('dh', [])],
                   'ip_proto': IP_PROTO[p.get('ip_proto', 'any')],
                   'my_net': ipaddress.ip_network(p.get('my_subnet', str(me))),
                   'peer_net': ipaddress.ip_network(p.get('peer_subnet', str(peer))),
                   'my_port': int(p.get('my_port', 0)), 'peer_port': int(p.get('peer_port', 0)),
                   'lifetime': int(p.get('lifetime', 300))}
            conn['protect'].append(ent)
        out[(me, peer)] = conn
    return out


# ------------------------------------------------------------------------------------ generator

DH_WEIGHTED = ['19'] * 6 + ['20'] * 3 + ['21'] * 3 + ['14'] * 3 + ['15'] + ['16']
DH_ALL = ['14', '15', '16', '17', '18', '19', '20', '21']


def _sublist(r, universe, must, kmax=None):
    """Random ordered sub-list of universe containing `must`."""
    kmax = kmax or len(universe)
    k = r.randint(1, min(kmax, len(universe)))
    others = [u for u in universe if u != must]
    r.shuffle(others)
    lst = [must] + others[:k - 1]
    r.shuffle(lst)
    return lst


def _two_lists(r, universe, kmax=None, single=False):
    common = r.choice(universe)
    if single:
        return [common], [common]
    return _sublist(r, universe, common, kmax), _sublist(r, universe, common, kmax)


NETS = {4: (['10.1.0.0/16', '10.1.1.0/24', '10.1.1.128/25', '192.168.7.0/24'], ['10.2.0.0/16', '10.2.2.0/24', '10.2.2.64/26', '172.16.0.0/12']),
        6: (['fd00:1::/32', 'fd00:1:1::/48', 'fd00:1:1:1::/64'], ['fd00:2::/32', 'fd00:2:2::/48', 'fd00:2:2:2::/64'])}


def make_pair(r, o=None):
    """Returns (confA, confB, meta). o: options dict:
       profile: 'fast' | 'slow'; family: 4 | 6 | None; auth: 'psk' | 'rsa' | None; slow_dh: bool;
       entries: max number of protect entries; single: one transform per type (no preference lists);
       pfs: None | True | False; modes/protos restrictions."""
    o = dict(o or {})
    fam = o.get('family') or r.choice([4, 4, 4, 6])
    if o.get('addr_pair'):
        a_addr, b_addr = o['addr_pair']
        a_nets = b_nets = []
        o.setdefault('mode', 'transport')
    elif fam == 4:
        a_addr, b_addr = '10.0.0.1', '10.0.0.2'
        a_nets = ['10.1.0.0/16', '10.1.1.0/24', '10.1.1.128/25', '192.168.7.0/24']
        b_nets = ['10.2.0.0/16', '10.2.2.0/24', '10.2.2.64/26', '172.16.0.0/12']
    else:
        a_addr, b_addr = 'fd00::1', 'fd00::2'
        a_nets = ['fd00:1::/32', 'fd00:1:1::/48', 'fd00:1:1:1::/64']
        b_nets = ['fd00:2::/32', 'fd00:2:2::/48', 'fd00:2:2:2::/64']
    single = o.get('single', r.random() < 0.3)
    dh_univ = DH_ALL if o.get('slow_dh') else sorted(set(DH_WEIGHTED), key=DH_ALL.index)
    dh_pick = (lambda: r.choice(DH_ALL)) if o.get('slow_dh') else (lambda: r.choice(DH_WEIGHTED))
    if o.get('modp_only'):
        # only MODP groups (a public value of one MODP group is a legal-looking integer for another one: mix-ups go unnoticed by the maths)
        dh_univ = ['14', '15', '16']
        dh_pick = lambda: r.choice(['14', '14', '15', '16'])

    def dh_lists():
        common = dh_pick()
        if single:
            return [common], [common]
        return _sublist(r, dh_univ, common, 3), _sublist(r, dh_univ, common, 3)
    ea, eb = _two_lists(r, list(ENCR), single=single)
    ia, ib = _two_lists(r, list(INTEG), single=single)
    pa, pb = _two_lists(r, list(PRF), single=single)
    da, db = dh_lists()
    auth = o.get('auth') or r.choice(['psk', 'psk', 'rsa'])
    idkind = r.choice(['addr', 'fqdn', 'email', 'default'])
    if idkind == 'addr':
        ida, idb = a_addr, b_addr
    elif idkind == 'fqdn':
        ida, idb = 'alice.example.org', 'bob.example.org'
    elif idkind == 'email':
        ida, idb = 'alice@example.org', 'bob@example.org'
    else:
        ida = idb = None
    psk = 'psk-' + ''.join(r.choice('abcdefghijklmnopqrstuvwxyz0123456789') for _ in range(r.randint(12, 24)))

    def authd(idv, priv=None, pub=None):
        d = {}
        if idv is not None:
            d['id'] = idv
        if auth == 'psk':
            d['psk'] = psk
        else:
            if priv:
                d['privkey'] = priv
            if pub:
                d['pubkey'] = pub
        return d
    prof = o.get('profile', 'fast')
    if prof == 'fast':
        ike_life = r.choice([8, 12, 20, 30, 45, 60, 120])
        dpd = r.choice([3, 5, 8, 15, 30, 60])
        child_life = lambda: r.choice([4, 6, 10, 15, 25, 40, 60])
    elif prof == 'mid':
        ike_life = r.choice([60, 120, 300])
        dpd = r.choice([10, 20, 60])
        child_life = lambda: r.choice([30, 60, 120])
    else:
        ike_life, dpd = 900, 60
        child_life = lambda: 300
    ike_life = o.get('ike_lifetime', ike_life)
    dpd = o.get('dpd', dpd)
    n_ent = r.randint(1, o.get('entries', 3))
    prot_a, prot_b, ents = [], [], []
    used_sel = set()
    for i in range(n_ent):
        proto = o.get('ipsec_proto') or r.choice(['esp', 'esp', 'ah'])
        mode = o.get('mode') or r.choice(['transport', 'tunnel'])
        cea, ceb = _two_lists(r, list(ENCR), single=single)
        cia, cib = _two_lists(r, list(INTEG), single=single)
        pfs = o.get('pfs')
        if pfs is None:
            pfs = r.random() < 0.4
        if pfs:
            cda, cdb = dh_lists()
        else:
            cda, cdb = [], []
        for _ in range(20):
            ipp = r.choice(['any', 'tcp', 'udp', 'tcp'])
            if ipp == 'any':
                ap = bp = 0
            else:
                ap = r.choice([0, 0, 1, 22, 255, 256, 4500, 65535] + ([r.randrange(1, 65536)] if o.get('wide_nets') else []))
                bp = r.choice([0, 80, 23, 1, 255, 256, 443, 65535] + ([r.randrange(1, 65536)] if o.get('wide_nets') else []))
            # mixed_family: a tunnel whose inner traffic is of the other address family than its endpoints (6in4 / 4in6)
            efam = fam
            if o.get('mixed_family') and mode == 'tunnel' and a_nets and r.random() < o['mixed_family']:
                efam = 10 - fam
            if mode == 'transport' or not a_nets:
                an, bn = None, None
            elif efam != fam and not o.get('wide_nets'):
                an = r.choice(NETS[efam][0])
                bn = r.choice(NETS[efam][1])
            elif o.get('wide_nets'):
                # every prefix length: a random network inside the side's address space (and sometimes everything)
                def rnd_net(base6, base4):
                    if efam == 4:
                        plen = r.choice([0, 1, 7, 8, 9, 15, 16, 17, 23, 24, 25, 30, 31, 32])
                        return str(ipaddress.ip_network((r.getrandbits(32), plen), strict=False)) if plen < 8 else \
                            str(ipaddress.ip_network((int(ipaddress.ip_address(base4)) | r.getrandbits(24), plen), strict=False))
                    plen = r.choice([0, 1, 16, 47, 48, 63, 64, 65, 96, 127, 128])
                    return str(ipaddress.ip_network((int(ipaddress.ip_address(base6)) | r.getrandbits(96), plen), strict=False)) if plen >= 16 else \
                        str(ipaddress.ip_network((r.getrandbits(128), plen), strict=False))
                an, bn = rnd_net('fd00:1::', '10.0.0.0'), rnd_net('fd00:2::', '11.0.0.0')
            else:
                an = r.choice(a_nets + [None])
                bn = r.choice(b_nets + [None])
            if o.get('share_side') and used_sel and r.random() < o['share_side']:
                # this entry has one side in common with the first one (same network / port / protocol there), the other side differs
                k0 = min(used_sel, key=lambda k: str(k))
                ipp = k0[0]
                if r.random() < 0.5:
                    an, ap = k0[3], k0[1]
                else:
                    bn, bp = k0[4], k0[2]
            key = (ipp, ap, bp, an, bn)
            # keep entries disjoint enough that policy lookup is unambiguous: distinct (proto, ports, nets)
            if key not in used_sel and not any(k[3] == an and k[4] == bn and (k[0] == 'any' or ipp == 'any' or (k[0] == ipp and (k[1] in (0, ap) or ap == 0) and (k[2] in (0, bp) or bp == 0))) for k in used_sel):
                used_sel.add(key)
                break
        else:
            continue
        idx = o.get('index_base', 0) + i + 1 if r.random() < 0.7 else r.randint(1, 2 ** 20)
        life = o.get('child_lifetime', child_life())
        if o.get('infinite_lifetimes') and r.random() < o['infinite_lifetimes']:
            life = -1
        ea_ = {'index': idx, 'mode': mode, 'ipsec_proto': proto, 'lifetime': life, 'ip_proto': ipp,
               'my_port': ap, 'peer_port': bp, 'integ': cia}
        eb_ = {'index': idx if r.random() < 0.5 else r.randint(1, 2 ** 20), 'mode': mode, 'ipsec_proto': proto,
               'lifetime': o.get('child_lifetime', child_life()) if r.random() < 0.3 else life, 'ip_proto': ipp,
               'my_port': bp, 'peer_port': ap, 'integ': cib}
        # indexes are unique per side (two entries sharing one would be a configuration error, not a scenario)
        for ent, lst in ((ea_, prot_a), (eb_, prot_b)):
            while any(x['index'] == ent['index'] for x in lst):
                ent['index'] = r.randint(1, 2 ** 20)
        if proto == 'esp':
            ea_['encr'], eb_['encr'] = cea, ceb
        if cda:
            ea_['dh'], eb_['dh'] = cda, cdb
        if an:
            ea_['my_subnet'], eb_['peer_subnet'] = an, an
        if bn:
            ea_['peer_subnet'], eb_['my_subnet'] = bn, bn
        prot_a.append(ea_)
        prot_b.append(eb_)
    if r.random() < 0.3:
        r.shuffle(prot_b)
    conf_a = {'to-b': {'my_addr': a_addr, 'peer_addr': b_addr, 'lifetime': ike_life, 'dpd': dpd,
                       'encr': ea, 'integ': ia, 'prf': pa, 'dh': da,
                       'my_auth': authd(ida, testkeys.KEY1_PRIV), 'peer_auth': authd(idb, None, testkeys.KEY2_PUB),
                       'protect': prot_a}}
    conf_b = {'to-a': {'my_addr': b_addr, 'peer_addr': a_addr,
                       'lifetime': ike_life if r.random() < 0.6 else o.get('ike_lifetime', r.choice([ike_life, max(8, ike_life // 2), ike_life * 2])),
                       'dpd': dpd if r.random() < 0.6 else o.get('dpd', r.choice([dpd, max(3, dpd // 2), dpd * 2])),
                       'encr': eb, 'integ': ib, 'prf': pb, 'dh': db,
                       'my_auth': authd(idb, testkeys.KEY2_PRIV), 'peer_auth': authd(ida, None, testkeys.KEY1_PUB),
                       'protect': prot_b}}
    meta = {'family': fam, 'a_addr': a_addr, 'b_addr': b_addr, 'auth': auth, 'idkind': idkind, 'single': single,
            'profile': prof}
    return conf_a, conf_b, meta


def flow_for_entry(r, me, peer, ent, inside=True):
    """A packet (as the kernel sees it) that matches protect entry `ent` of the independent reading."""
    fam_const = 2 if ent['my_net'].version == 4 else 10

    def pick(net, host):
        if net.num_addresses <= 2:
            return str(net[r.randrange(net.num_addresses)])
        return str(net[r.randrange(1, min(net.num_addresses - 1, 2 ** 16))])
    proto = ent['ip_proto'] or r.choice([6, 17])
    sport = ent['my_port'] or r.choice([1, 255, 256, 1024, 40000, 65535])
    dport = ent['peer_port'] or r.choice([1, 25, 255, 256, 8080, 65535])
    if proto not in (6, 17):
        sport = dport = 0
    return {'family': fam_const, 'saddr': pick(ent['my_net'], me), 'daddr': pick(ent['peer_net'], peer),
            'proto': proto, 'sport': sport, 'dport': dport}


def suite_signature(conf):
    c = next(iter(conf.values()))
    return (tuple(c.get('encr', [])), tuple(c.get('integ', [])), tuple(c.get('prf', [])), tuple(c.get('dh', [])))
