"""The simulated world: virtual clock, event heap, nodes running the real main_loop on parked threads,
network with per-datagram fates, control-socket queries, crash / restart / stall / skew faults."""
import faulthandler
import hashlib
import heapq
import ipaddress
import json
import logging
import os
import random
import socket as _socket
import sys
import threading
import traceback

from . import seams
from .seams import CUR
from .kernel import FakeKernel, FakeNetlinkSocket, K


class Shutdown(BaseException):
    pass


class Crash(BaseException):
    pass


class Hang(BaseException):
    pass


class BlockedForever(BaseException):
    pass


class HarnessTimeout(Exception):
    pass


class HarnessError(Exception):
    pass


BASE_LATENCY = 0.010
REPO_FILES = None


# ======================================================================================= sockets

class FakeUdpSocket:
    kind = 'udp'

    def __init__(self, node, family):
        self.node = node
        self.family = family
        self.addr = None
        self.queue = []          # (data, (src, port))
        self.closed = False

    def fileno(self):
        return -1

    def bind(self, addr):
        self.addr = str(ipaddress.ip_address(addr[0]))
        self.node.udp[self.addr] = self

    def recvfrom(self, n):
        self.node.syscall('recvfrom')
        if not self.queue:
            self.node.blocked_forever('recvfrom() on a socket that is not readable')
        if self.node.recv_fail['udp']:
            # a pending socket error (ICMP port unreachable after an earlier send...) is reported before the queued datagram, which stays
            f = self.node.recv_fail['udp'].pop(0)
            self.node.world.count_fault('sys.recvfrom')
            self.node.world.record(('recvfail', self.node.name, 'udp'))
            raise f()
        data, src = self.queue.pop(0)
        return data[:n], src

    def sendto(self, data, dst):
        self.node.syscall('sendto')
        self.node.world.net.send(self.node, self.addr, dst, bytes(data))
        return len(data)

    def setsockopt(self, *a):
        pass

    def close(self):
        self.closed = True


class FakeConn:
    def __init__(self, node, query=b'status'):
        self.node = node
        self.query = query
        self.sent = b''
        self.closed = False

    def recv(self, n):
        self.node.syscall('conn_recv')
        return self.query[:n]

    def sendall(self, data):
        self.node.syscall('sendall')
        self.sent += bytes(data)

    def close(self):
        self.closed = True


class FakeControlSocket:
    kind = 'control'

    def __init__(self, node):
        self.node = node
        self.pending = []
        self.closed = False
        self.bound = None

    def fileno(self):
        return -1

    def setsockopt(self, *a):
        pass

    def bind(self, addr):
        self.bound = addr

    def listen(self, *a):
        self.node.control = self

    def accept(self):
        self.node.syscall('accept')
        if not self.pending:
            self.node.blocked_forever('accept() with no pending connection')
        c = self.pending.pop(0)
        return c, ('127.0.0.1', 40000)

    def close(self):
        self.closed = True


class _SocketModule:
    """`socket` as seen by ikesacontroller.py."""
    gaierror = _socket.gaierror

    def socket(self, family=_socket.AF_INET, type=_socket.SOCK_DGRAM, proto=0):
        node = CUR.node
        if node is None:
            raise HarnessError('socket() outside a node thread')
        node.syscall('socket')
        if type == _socket.SOCK_DGRAM:
            return FakeUdpSocket(node, family)
        return FakeControlSocket(node)

    def __getattr__(self, name):
        return getattr(_socket, name)


def _fake_select(rlist, wlist, xlist, timeout=None):
    node = CUR.node
    if node is None:
        raise HarnessError('select() outside a node thread')
    return node.park(rlist, timeout)


def _readable(sock):
    if getattr(sock, 'kind', None) == 'control':
        return bool(sock.pending)
    return bool(sock.queue)


class _EdgeRandom(random.Random):
    """Swarm knobs.  'nonce_edges': message.PayloadNONCE draws its length with randrange(16, 256); return the boundaries often.
    'pushback_apart': the random push-back after a refused IKE_SA rekey (uniform(0, 2)) is drawn early at one node and late at the
    other, so that on a symmetric network the two endpoints of a rekey collision provably do not retry in the same loop iteration
    (a liveness clause can then be judged without a residual probability of a false alarm)."""
    knobs = {}
    apart = None

    def uniform(self, a, b):
        if self.apart is not None and (a, b) == (0, 2):
            super().uniform(a, b)
            return self.apart
        return super().uniform(a, b)

    def randrange(self, a, b=None, *rest):
        if self.knobs.get('nonce_edges') and (a, b) == (16, 256) and not rest:
            x = self.random()
            if x < 0.35:
                return 16
            if x < 0.7:
                return 255
        return super().randrange(a, b, *rest)


# ======================================================================================= node

class Node:
    def __init__(self, world, name, addrs, conf, sys_seed):
        self.world = world
        self.name = name
        self.addrs = [ipaddress.ip_address(a) for a in addrs]
        self.conf = conf
        self.sys_seed = sys_seed
        self.kernel = FakeKernel(world, name)
        self.kernel.event_attrs = tuple(world.scenario.get('kernel_event_attrs', ()))     # extra attributes on ACQUIRE / EXPIRE events
        self.incarnation = 0
        self.state = 'down'          # down | running | dead
        self.death = None            # (kind, text, traceback) when the daemon died on its own
        self.skew = 0.0
        self.thread = None
        self.go = threading.Event()
        self.parked = threading.Event()
        self.controller = None
        self.configuration = None
        self.udp = {}
        self.control = None
        self.waiting = []
        self.pending_action = None
        self.crash_countdown = None
        self.crash_site = None
        self.syscalls = 0
        self.syscall_log = None
        self.sendto_fail = {}        # ordinal of sendto call -> exception factory
        self.recv_fail = {'udp': [], 'nl': []}     # pending receive errors (exception factories), consumed by the next readable receive
        self.sendto_no = 0
        self.stalled_until = 0.0
        self.tick_gen = 0
        self.rnd = None
        self.ctr = 0
        self.lines = 0
        self.line_budget = None
        self.steps = 0
        self.exited = False
        self.start_error = None
        self.dh_calls = 0
        self.last_park_time = None
        self.select_timeout = 1
        self.exit_kind = None

    # --- per-node randomness and clock (used by the seams) ---------------------------------
    def urandom(self, n):
        self.ctr += 1
        return hashlib.shake_128(f'{self.sys_seed}:{self.name}:{self.incarnation}:{self.ctr}'.encode()).digest(n)

    def clock(self):
        return self.world.now + self.skew

    # --- syscall boundary -------------------------------------------------------------------
    def syscall(self, site):
        self.syscalls += 1
        if self.syscall_log is not None:
            self.syscall_log.append(site)
        if self.crash_countdown is not None:
            self.crash_countdown -= 1
            if self.crash_countdown <= 0:
                self.crash_countdown = None
                self.crash_site = site
                raise Crash(site)

    def blocked_forever(self, what):
        raise BlockedForever(what)

    # --- baton ------------------------------------------------------------------------------
    def park(self, rlist, timeout):
        """Called on the node thread from select(): give the baton back, wait to be released."""
        self.syscall('select')
        self.waiting = list(rlist)
        self.select_timeout = timeout
        self._yield()
        act = self.pending_action
        if act is not None:
            self.pending_action = None
            if act == 'shutdown':
                raise Shutdown()
            if act == 'crash':
                self.crash_site = 'select'
                raise Crash('select')
        return [s for s in rlist if _readable(s)], [], []

    def _yield(self):
        self.parked.set()
        self.go.wait()
        self.go.clear()

    def _thread_main(self):
        M = seams.M
        tracer = self.world.make_tracer(self)
        if tracer:
            sys.settrace(tracer)
        try:
            self.go.wait()
            self.go.clear()
            try:
                self.configuration = M['configuration'].Configuration(self.addrs, self.conf)
                self.controller = M['ikesacontroller'].IkeSaController(self.addrs, self.configuration)
                for k, v in self.world.controller_attrs.get(self.name, {}).items():
                    setattr(self.controller, k, v)
            except (Shutdown, Crash, Hang, BlockedForever):
                raise
            except BaseException as ex:
                self.start_error = (type(ex).__name__, str(ex), traceback.format_exc())
                raise
            try:
                self.controller.main_loop()
            except Shutdown:
                self.controller.close()
                self.state = 'down'
                self.exit_kind = 'stop'
                self.world.note('node.stop', self.name)
        except Shutdown:
            self.state = 'down'
        except Crash:
            self.state = 'down'
            self.exit_kind = 'crash'
            self.world.note('node.crash', self.name, self.crash_site)
        except Hang as ex:
            self.state = 'dead'
            self.death = ('hang', str(ex), '')
        except BlockedForever as ex:
            self.state = 'dead'
            self.death = ('blocked', str(ex), traceback.format_exc())
        except BaseException as ex:
            self.state = 'dead'
            tb = traceback.extract_tb(ex.__traceback__)
            repo_frames = [f for f in tb if f.filename.startswith(seams.REPO)]
            where = f'{os.path.basename(repo_frames[-1].filename)}:{repo_frames[-1].name}' if repo_frames else '?'
            self.death = ('exception', f'{type(ex).__name__}: {ex}', traceback.format_exc(), type(ex).__name__, where)
        finally:
            sys.settrace(None)
            self.exited = True
            self.udp = {}
            for s in list(self.kernel.event_socks):
                s.close()
            self.parked.set()

    def start(self):
        assert self.state in ('down',), self.state
        self.incarnation += 1
        knobs = self.world.scenario.get('knobs', {})
        cls = _EdgeRandom if any(knobs.values()) else random.Random
        self.rnd = cls(f'{self.sys_seed}:{self.name}:{self.incarnation}:rnd')
        if cls is _EdgeRandom:
            self.rnd.knobs = knobs
            self.rnd.apart = (0.3 if self.name == 'A' else 1.7) if knobs.get('pushback_apart') else None
        self.ctr = 0
        self.kernel.portids = set()          # a new process: no netlink socket of the previous one is left
        self.state = 'running'
        self.death = None
        self.exited = False
        self.exit_kind = None
        self.controller = None
        self.udp = {}
        self.control = None
        self.pending_action = None
        self.thread = threading.Thread(target=self._thread_main, name=f'node-{self.name}-{self.incarnation}',
                                       daemon=True)
        self.parked.clear()
        self.go.clear()
        self.thread.start()
        self.world.release(self, 'start')

    def has_readable(self):
        return any(_readable(s) for s in self.waiting)

    def ike_sas(self):
        """The IKE_SA objects in the controller's table (anything else in there is reported by table_junk())."""
        if self.controller is None or self.state != 'running':
            return []
        return [x for x in self.controller.ike_sas if hasattr(x, 'state') and hasattr(x, 'my_spi')]

    def table_junk(self):
        if self.controller is None or self.state != 'running':
            return []
        return [x for x in self.controller.ike_sas if not (hasattr(x, 'state') and hasattr(x, 'my_spi'))]


# ======================================================================================= network

class SimNet:
    def __init__(self, world):
        self.world = world
        self.sent = {}               # sender -> ordinal
        self.partitioned = set()     # frozenset({a, b})
        self.taps = []               # objects with on_wire(meta, data)
        self.mitm = None             # callable(meta, data) -> list of (data, extra_latency) | None (pass through)
        self.counts = {}
        self.in_flight = 0
        self.trace = []              # (t, sender, ordinal, dst, fate)

    def _count(self, k, n=1):
        self.counts[k] = self.counts.get(k, 0) + n

    def owner_of(self, addr):
        for n in self.world.nodes.values():
            if addr in n.udp and n.state == 'running':
                return n
        return None

    def node_of_addr(self, addr):
        a = ipaddress.ip_address(addr)
        for n in self.world.nodes.values():
            if a in n.addrs:
                return n
        return None

    def send(self, node, src_addr, dst, data):
        w = self.world
        node.sendto_no += 1
        fail = node.sendto_fail.pop(node.sendto_no, None)
        if fail is not None:
            self._count('sys.sendto')
            raise fail()
        dst_addr = str(ipaddress.ip_address(dst[0]))
        ordinal = self.sent.get(node.name, 0) + 1
        self.sent[node.name] = ordinal
        key = f'{node.name}#{ordinal}'
        meta = {'t': w.now, 'src': src_addr, 'dst': dst_addr, 'sender': node.name, 'ordinal': ordinal, 'key': key,
                'seq': w.seq}
        w.record(('send', node.name, ordinal, dst_addr, hashlib.sha256(data).hexdigest()[:16], len(data)))
        for tap in self.taps:
            tap.on_wire(meta, data)
        out = None
        if self.mitm is not None:
            out = self.mitm(meta, data)
        if out is None:
            out = [(data, 0.0)]
        for d, extra in out:
            self._fate_and_schedule(meta, key, d, src_addr, dst_addr, extra)

    def _fate_and_schedule(self, meta, key, data, src_addr, dst_addr, extra=0.0):
        w = self.world
        peer = self.node_of_addr(dst_addr)
        if peer is not None and frozenset((meta['sender'], peer.name)) in self.partitioned:
            self._count('net.partition_drop')
            w.record(('fate', key, 'partition'))
            for tap in self.taps:
                if hasattr(tap, 'on_fate'):
                    tap.on_fate(meta, {'fate': 'drop'})
            return
        fate = w.decisions.fate(key, len(data))
        kind = fate['fate']
        w.record(('fate', key, kind))
        for tap in self.taps:
            if hasattr(tap, 'on_fate'):
                tap.on_fate(meta, fate)
        if kind == 'drop':
            self._count('net.drop')
            return
        lats = fate.get('lat', [BASE_LATENCY])
        if kind == 'dup':
            self._count('net.dup')
        if any(l > 1.0 for l in lats):
            self._count('net.delay')
        for i, lat in enumerate(lats):
            d = data
            if kind == 'corrupt' and i == 0:
                d = corrupt(data, fate)
                self._count('net.corrupt.' + fate.get('how', 'flip'))
            self.deliver_at(w.now + extra + lat, d, src_addr, dst_addr, meta)

    def deliver_at(self, t, data, src_addr, dst_addr, meta=None):
        self.in_flight += 1
        self.world.at(t, lambda: self._arrive(data, src_addr, dst_addr, meta), tag='dgram')

    def inject(self, data, src_addr, dst_addr, delay=0.0, label='inject'):
        """A datagram put on the wire by somebody who is not a node (forger, replayer, reference peer)."""
        self._count('adv.' + label)
        self.world.record(('inject', label, src_addr, dst_addr, hashlib.sha256(data).hexdigest()[:16], len(data)))
        self.deliver_at(self.world.now + delay, bytes(data), src_addr, dst_addr, {'sender': label, 'key': label})

    def _arrive(self, data, src_addr, dst_addr, meta):
        self.in_flight -= 1
        w = self.world
        ext = w.externals.get(dst_addr)
        if ext is not None:
            ext.on_datagram(data, src_addr, dst_addr)
            return
        node = self.owner_of(dst_addr)
        if node is None:
            self._count('net.nobody_listening')
            w.record(('lost', dst_addr))
            return
        sock = node.udp[dst_addr]
        sock.queue.append((data, (src_addr, 500)))
        w.record(('arrive', node.name, hashlib.sha256(data).hexdigest()[:16]))
        w.before_delivery(node, data, src_addr, dst_addr, meta)
        w.wake(node, ('dgram', data, src_addr, dst_addr, meta))


def corrupt(data, fate):
    how = fate.get('how', 'flip')
    b = bytearray(data)
    if how == 'flip' and b:
        pos = fate.get('pos', 0) % len(b)
        b[pos] ^= (fate.get('mask', 1) or 1) & 0xFF
    elif how == 'trunc':
        b = b[:fate.get('pos', 0) % (len(b) + 1)]
    elif how == 'extend':
        b += bytes(fate.get('extra', [0]))
    elif how == 'garbage':
        b = bytearray(fate.get('bytes', []))
    elif how == 'empty':
        b = bytearray()
    return bytes(b)


# ======================================================================================= decisions

class Decisions:
    """Per-datagram fates. Search mode: drawn from a PRNG keyed by (net_seed, datagram key), so removing an
    op perturbs as little as possible. Replay mode: explicit table, everything else delivered at base latency."""

    def __init__(self, scenario):
        self.explicit = dict(scenario.get('fates', {}))
        self.policy = scenario.get('fate_policy', {'mode': 'deliver'})
        self.net_seed = scenario.get('net_seed', 0)
        self.applied = {}

    def fate(self, key, length):
        f = self.explicit.get(key)
        if f is None:
            f = self._draw(key, length)
        if f['fate'] != 'deliver' or f.get('lat', [BASE_LATENCY]) != [BASE_LATENCY]:
            self.applied[key] = f
        return f

    def _draw(self, key, length):
        p = self.policy
        if p.get('mode') != 'random':
            return {'fate': 'deliver', 'lat': [p.get('lat', BASE_LATENCY)]}
        r = random.Random(f'{self.net_seed}:{key}')
        lo, hi = p.get('lat_range', [BASE_LATENCY, BASE_LATENCY])

        def lat():
            if r.random() < p.get('p_long', 0.0):
                return round(r.uniform(*p.get('long_range', [2.0, 12.0])), 3)
            return round(r.uniform(lo, hi), 4)
        x = r.random()
        acc = 0.0
        for kind in ('drop', 'dup', 'corrupt'):
            acc += p.get('p_' + kind, 0.0)
            if x < acc:
                if kind == 'drop':
                    return {'fate': 'drop'}
                if kind == 'dup':
                    k = r.randint(2, p.get('max_dup', 3))
                    return {'fate': 'dup', 'lat': [lat() for _ in range(k)]}
                how = r.choice(p.get('corrupt_kinds', ['flip', 'trunc', 'extend']))
                f = {'fate': 'corrupt', 'how': how, 'lat': [lat()]}
                if how == 'flip':
                    f['pos'] = r.randrange(max(1, length))
                    f['mask'] = 1 << r.randrange(8)
                elif how == 'trunc':
                    f['pos'] = r.randrange(max(1, length))
                elif how == 'extend':
                    f['extra'] = [r.randrange(256) for _ in range(r.randint(1, 8))]
                return f
        return {'fate': 'deliver', 'lat': [lat()]}


# ======================================================================================= world

class World:
    def __init__(self, scenario):
        seams.install()
        seams.reset_run_state()
        self.scenario = scenario
        self.now = 0.0
        self.seq = 0
        self.heap = []
        self.nodes = {}
        self.externals = {}          # address -> object with on_datagram (reference peer, sink)
        self.net = SimNet(self)
        self.decisions = Decisions(scenario)
        self.monitors = []
        self.events = []             # full event log (determinism digest)
        self.digest = hashlib.sha256()
        self.keep_events = scenario.get('keep_events', False)
        self.logs = []               # (t, node, level, msg)
        self.log_min_level = logging.INFO
        self.internal_errors = []
        self.notes = []
        self.steps = 0
        self.max_steps = scenario.get('max_steps', 20000)
        self.trace_lines = scenario.get('trace_lines', False)
        self.controller_attrs = scenario.get('controller_attrs', {})
        self.stop_reason = None
        self.violations = []
        self.poisoned = False
        self.fault_counts = {}
        self.node_step_causes = []
        self.timeout_s = float(os.environ.get('VERIF_NODE_TIMEOUT', '30'))
        logging.getLogger().setLevel(logging.DEBUG if scenario.get('debug_log') else logging.INFO)
        seams.M['ikesacontroller'].select = _fake_select
        seams.M['ikesacontroller'].socket = _SocketModule()
        xf = seams.M['xfrm'].Xfrm
        xf._get_socket = classmethod(lambda cls, groups: FakeNetlinkSocket(CUR.node.kernel, groups, CUR.node))
        CUR.world = self
        CUR.node = None
        for name, nd in scenario['nodes'].items():
            self.nodes[name] = Node(self, name, nd['addrs'], nd['conf'], scenario.get('sys_seed', 0))

    # ---- recording -------------------------------------------------------------------------
    def record(self, ev):
        line = repr((round(self.now, 6),) + tuple(ev))
        self.digest.update(line.encode())
        if self.keep_events:
            self.events.append(line)

    def note(self, kind, *a):
        self.notes.append((self.now, kind) + a)
        self.fault_counts[kind] = self.fault_counts.get(kind, 0) + 1
        self.record(('note', kind) + a)

    def count_fault(self, kind, n=1):
        self.fault_counts[kind] = self.fault_counts.get(kind, 0) + n

    def log_record(self, node, level, msg):
        self.logs.append((self.now, node.name, level, msg))
        self.record(('log', node.name, level, hashlib.sha256(msg.encode('utf-8', 'replace')).hexdigest()[:12]))
        for m in self.monitors:
            f = getattr(m, 'on_log', None)
            if f:
                f(node, level, msg)

    def internal_error(self, node, text, where, tb):
        self.internal_errors.append((self.now, node.name, text, where, tb))
        self.record(('internal_error', node.name, text))

    def dh_made(self, node, kind, size):
        node.dh_calls += 1

    def kernel_event(self, node_name, what):
        self.record(('kevent', node_name) + tuple(what))
        node = self.nodes[node_name]
        self.wake(node, ('kevent',) + tuple(what))

    def violation(self, prop, cls, signature, detail):
        v = {'property': prop, 'class': cls, 'signature': signature, 'detail': detail, 't': round(self.now, 6),
             'step': self.steps}
        self.violations.append(v)
        return v

    # ---- tracing ---------------------------------------------------------------------------
    def make_tracer(self, node):
        if not self.trace_lines:
            return None
        repo = seams.REPO

        def local(frame, event, arg):
            if event == 'line':
                node.lines += 1
                if node.line_budget is not None and node.lines > node.line_budget:
                    node.line_budget = None
                    raise Hang(f'line budget exceeded at {os.path.basename(frame.f_code.co_filename)}:{frame.f_lineno}')
            return local

        def tracer(frame, event, arg):
            if frame.f_code.co_filename.startswith(repo):
                return local
            return None
        return tracer

    # ---- scheduling ------------------------------------------------------------------------
    def at(self, t, fn, tag=''):
        self.seq += 1
        heapq.heappush(self.heap, (max(t, self.now), self.seq, tag, fn))

    def after(self, d, fn, tag=''):
        self.at(self.now + d, fn, tag)

    def wake(self, node, cause):
        """Something became readable for `node` (or its tick is due): run one loop iteration now, or as soon
        as its stall ends."""
        if node.state != 'running':
            return
        if node.stalled_until > self.now:
            node.tick_gen += 1
            g = node.tick_gen
            self.at(node.stalled_until, lambda: self._tick(node, g, cause), tag='unstall')
            return
        self.release(node, cause)

    def _tick(self, node, gen, cause=('tick',)):
        if node.tick_gen != gen or node.state != 'running':
            return
        self.wake(node, cause)

    def before_delivery(self, node, data, src, dst, meta):
        for m in self.monitors:
            f = getattr(m, 'before_delivery', None)
            if f:
                f(node, data, src, dst, meta)

    def release(self, node, cause):
        """Hand the baton to `node` until it parks in select() again (or its thread ends)."""
        if node.exited:
            return
        for m in self.monitors:
            f = getattr(m, 'before_step', None)
            if f:
                f(node, cause)
        node.steps += 1
        self.steps += 1
        node.lines = 0
        if self.trace_lines:
            nbytes = sum(len(d[0]) for s in node.udp.values() for d in s.queue)
            node.line_budget = self.scenario.get('line_budget_base', 20000) + \
                self.scenario.get('line_budget_per_byte', 250) * nbytes
            if cause == 'start' or cause == ('start',):
                node.line_budget = None
        CUR.node = node
        node.parked.clear()
        node.go.set()
        if not node.parked.wait(self.timeout_s):
            faulthandler.dump_traceback(file=sys.stderr, all_threads=True)
            CUR.node = None
            raise HarnessTimeout(f'node {node.name} did not come back within {self.timeout_s}s wall (cause {cause!r})')
        CUR.node = None
        self.record(('step', node.name, cause[0] if isinstance(cause, tuple) else cause, node.state))
        if node.exited:
            if node.state == 'running':
                node.state = 'dead'
            if node.death:
                self.record(('death', node.name, node.death[0], node.death[1]))
        else:
            node.tick_gen += 1
            g = node.tick_gen
            if node.has_readable():
                self.at(self.now, lambda: self._tick(node, g, ('more',)), tag='more')
            else:
                to = node.select_timeout if node.select_timeout is not None else 3600
                self.at(self.now + to, lambda: self._tick(node, g), tag='tick')
        for m in self.monitors:
            f = getattr(m, 'after_step', None)
            if f:
                f(node, cause)

    def run(self, until=None, stop=None):
        """Process events until the heap is empty, virtual time `until` is passed, or stop() is true."""
        while self.heap:
            if self.steps >= self.max_steps:
                self.stop_reason = 'max_steps'
                break
            t, _, tag, fn = self.heap[0]
            if until is not None and t > until:
                self.now = until
                break
            heapq.heappop(self.heap)
            self.now = max(self.now, t)
            fn()
            if self.poisoned:
                self.stop_reason = 'poisoned'
                break
            if stop is not None and stop():
                self.stop_reason = 'stop'
                break
        else:
            if until is not None:
                self.now = max(self.now, until)
        return self.stop_reason

    # ---- operations ------------------------------------------------------------------------
    def start_node(self, name):
        n = self.nodes[name]
        if n.state == 'running':
            return
        if n.state == 'dead':
            n.state = 'down'
        n.start()

    def stop_node(self, name, how='shutdown'):
        n = self.nodes[name]
        if n.state != 'running' or n.exited:
            return
        n.pending_action = how
        self.release(n, (how,))

    def crash_in(self, name, syscalls):
        """Crash `name` at its k-th syscall from now (k >= 1)."""
        n = self.nodes[name]
        if n.state == 'running':
            n.crash_countdown = syscalls

    def status_query(self, name):
        """The public observation channel: connect to the control socket and read the JSON status."""
        n = self.nodes[name]
        if n.state != 'running' or n.control is None or n.exited:
            return None
        conn = FakeConn(n)
        n.control.pending.append(conn)
        self.release(n, ('status',))
        if not conn.sent:
            return None
        try:
            return json.loads(conn.sent.decode())
        except ValueError:
            return {'unparseable': conn.sent.decode('latin-1')}

    def packet(self, name, flow, extra_attrs=False):
        """The node's kernel sees an outgoing packet."""
        n = self.nodes[name]
        return n.kernel.output(flow, extra_attrs)

    def partition(self, a, b, on=True):
        k = frozenset((a, b))
        if on:
            self.net.partitioned.add(k)
            self.note('net.partition', a, b)
        else:
            self.net.partitioned.discard(k)
            self.note('net.heal', a, b)

    def quiet(self):
        """No datagram or kernel event pending."""
        return self.net.in_flight == 0 and not any(tag in ('dgram', 'more', 'kexp_now') for _, _, tag, _ in self.heap)

    def finish(self):
        """Tear the world down: every node thread must end."""
        for n in self.nodes.values():
            if n.thread is not None and not n.exited:
                n.pending_action = 'crash'
                CUR.node = n
                n.parked.clear()
                n.go.set()
                n.parked.wait(self.timeout_s)
                CUR.node = None
        for n in self.nodes.values():
            if n.thread is not None:
                n.thread.join(self.timeout_s)
        CUR.world = None
        for k, v in self.net.counts.items():
            self.fault_counts[k] = self.fault_counts.get(k, 0) + v
        for n in self.nodes.values():
            for k, v in n.kernel.fault_counts.items():
                self.fault_counts[k] = self.fault_counts.get(k, 0) + v

    def hexdigest(self):
        return self.digest.hexdigest()
