"""Model of the Linux XFRM netlink interface ("fake kernel").

It is the storage / OS side of the simulation: one instance per node, it survives daemon crashes.
Decoding and encoding use *only* the table produced by tools/layout.c from <linux/xfrm.h> (never the
repository's ctypes mirrors), validation follows net/xfrm/xfrm_user.c.
"""
import ipaddress
import json
import os
import struct

_HERE = os.path.dirname(os.path.abspath(__file__))


def load_layout():
    gen = os.path.join(_HERE, '..', 'tools', 'layout.json')
    com = os.path.join(_HERE, '..', 'tools', 'layout.committed.json')
    path = gen if os.path.exists(gen) else com
    with open(path) as f:
        return json.load(f)


LAYOUT = load_layout()
S = LAYOUT['structs']
K = LAYOUT['consts']

EPERM, ENOENT, ESRCH, ENOMEM, EEXIST, EINVAL, ENOBUFS, ENOSYS, EAFNOSUPPORT, EOPNOTSUPP = \
    1, 2, 3, 12, 17, 22, 105, 38, 97, 95
ERRNO_NAMES = {EPERM: 'EPERM', ENOENT: 'ENOENT', ESRCH: 'ESRCH', ENOMEM: 'ENOMEM', EEXIST: 'EEXIST',
               EINVAL: 'EINVAL', ENOBUFS: 'ENOBUFS', ENOSYS: 'ENOSYS', EAFNOSUPPORT: 'EAFNOSUPPORT'}
INF = 0xFFFFFFFFFFFFFFFF

KNOWN_AALG = {'hmac(md5)', 'hmac(sha1)', 'hmac(sha256)', 'hmac(sha384)', 'hmac(sha512)', 'digest_null',
              'hmac(rmd160)', 'xcbc(aes)', 'cmac(aes)'}
KNOWN_EALG = {'cbc(aes)': (128, 192, 256), 'ecb(cipher_null)': (0,), 'cipher_null': (0,), 'cbc(des3_ede)': (192,),
              'cbc(des)': (64,), 'cbc(camellia)': (128, 192, 256), 'rfc3686(ctr(aes))': (160, 224, 288)}


def off(sname, field):
    return S[sname]['fields'][field][0]


def fsz(sname, field):
    return S[sname]['fields'][field][1]


def size(sname):
    return S[sname]['size']


def _uint(buf, o, n, be=False):
    return int.from_bytes(buf[o:o + n], 'big' if be else 'little')


def _put(buf, o, n, v, be=False):
    buf[o:o + n] = int(v).to_bytes(n, 'big' if be else 'little')


def _addr(raw16, family):
    if family == K['AF_INET6']:
        return ipaddress.ip_address(bytes(raw16))
    return ipaddress.ip_address(bytes(raw16[:4]))


def _addr_raw(addr):
    p = ipaddress.ip_address(addr).packed
    return p + b'\0' * (16 - len(p))


# ---------------------------------------------------------------------------------- decoders

def dec_selector(buf, o):
    g = lambda f, be=False: _uint(buf, o + off('xfrm_selector', f), fsz('xfrm_selector', f), be)
    fam = g('family')
    d = {
        'family': fam,
        'daddr_raw': bytes(buf[o + off('xfrm_selector', 'daddr'):o + off('xfrm_selector', 'daddr') + 16]),
        'saddr_raw': bytes(buf[o + off('xfrm_selector', 'saddr'):o + off('xfrm_selector', 'saddr') + 16]),
        'dport': g('dport', True), 'dport_mask': g('dport_mask', True),
        'sport': g('sport', True), 'sport_mask': g('sport_mask', True),
        'prefixlen_d': g('prefixlen_d'), 'prefixlen_s': g('prefixlen_s'),
        'proto': g('proto'), 'ifindex': g('ifindex'), 'user': g('user'),
    }
    return d


def sel_nets(sel):
    """(src network, dst network) denoted by a decoded selector; None if the family is unusable."""
    fam = sel['family']
    if fam not in (K['AF_INET'], K['AF_INET6']):
        return None
    maxp = 32 if fam == K['AF_INET'] else 128
    if sel['prefixlen_s'] > maxp or sel['prefixlen_d'] > maxp:
        return None
    s = ipaddress.ip_network((_addr(sel['saddr_raw'], fam), sel['prefixlen_s']), strict=False)
    d = ipaddress.ip_network((_addr(sel['daddr_raw'], fam), sel['prefixlen_d']), strict=False)
    return s, d


def dec_id(buf, o):
    return {'daddr_raw': bytes(buf[o + off('xfrm_id', 'daddr'):o + off('xfrm_id', 'daddr') + 16]),
            'spi': bytes(buf[o + off('xfrm_id', 'spi'):o + off('xfrm_id', 'spi') + 4]),
            'proto': _uint(buf, o + off('xfrm_id', 'proto'), 1)}


LFT_FIELDS = ('soft_byte_limit', 'hard_byte_limit', 'soft_packet_limit', 'hard_packet_limit',
              'soft_add_expires_seconds', 'hard_add_expires_seconds', 'soft_use_expires_seconds',
              'hard_use_expires_seconds')


def dec_lft(buf, o):
    return {f: _uint(buf, o + off('xfrm_lifetime_cfg', f), 8) for f in LFT_FIELDS}


def dec_usersa_info(buf, o):
    n = 'xfrm_usersa_info'
    g = lambda f: _uint(buf, o + off(n, f), fsz(n, f))
    return {'sel': dec_selector(buf, o + off(n, 'sel')), 'id': dec_id(buf, o + off(n, 'id')),
            'saddr_raw': bytes(buf[o + off(n, 'saddr'):o + off(n, 'saddr') + 16]),
            'lft': dec_lft(buf, o + off(n, 'lft')),
            'seq': g('seq'), 'reqid': g('reqid'), 'family': g('family'), 'mode': g('mode'),
            'replay_window': g('replay_window'), 'flags': g('flags')}


def dec_usersa_id(buf, o):
    n = 'xfrm_usersa_id'
    return {'daddr_raw': bytes(buf[o + off(n, 'daddr'):o + off(n, 'daddr') + 16]),
            'spi': bytes(buf[o + off(n, 'spi'):o + off(n, 'spi') + 4]),
            'family': _uint(buf, o + off(n, 'family'), 2), 'proto': _uint(buf, o + off(n, 'proto'), 1)}


def dec_policy_info(buf, o):
    n = 'xfrm_userpolicy_info'
    g = lambda f: _uint(buf, o + off(n, f), fsz(n, f))
    return {'sel': dec_selector(buf, o + off(n, 'sel')), 'lft': dec_lft(buf, o + off(n, 'lft')),
            'priority': g('priority'), 'index': g('index'), 'dir': g('dir'), 'action': g('action'),
            'flags': g('flags'), 'share': g('share')}


def dec_tmpl(buf, o):
    n = 'xfrm_user_tmpl'
    g = lambda f: _uint(buf, o + off(n, f), fsz(n, f))
    return {'id': dec_id(buf, o + off(n, 'id')), 'family': g('family'),
            'saddr_raw': bytes(buf[o + off(n, 'saddr'):o + off(n, 'saddr') + 16]),
            'reqid': g('reqid'), 'mode': g('mode'), 'share': g('share'), 'optional': g('optional'),
            'aalgos': g('aalgos'), 'ealgos': g('ealgos'), 'calgos': g('calgos')}


def dec_algo(payload):
    """payload: attribute payload bytes of an XFRMA_ALG_AUTH / XFRMA_ALG_CRYPT attribute."""
    n = 'xfrm_algo'
    if len(payload) < size(n):
        return None
    name_raw = bytes(payload[off(n, 'alg_name'):off(n, 'alg_name') + 64])
    nul = name_raw.find(b'\0')
    name = (name_raw if nul < 0 else name_raw[:nul]).decode('latin-1')
    klen = _uint(payload, off(n, 'alg_key_len'), 4)
    kbytes = (klen + 7) // 8
    return {'name': name, 'name_terminated': nul >= 0, 'key_len_bits': klen,
            'key': bytes(payload[size(n):size(n) + kbytes]), 'avail': len(payload) - size(n),
            'trailing': bytes(payload[size(n) + kbytes:])}


def split_attrs(buf, o, end, problems):
    """nla_parse: returns {type: payload-bytes} (last wins) and notes framing problems."""
    attrs = {}
    order = []
    while end - o >= 4:
        nla_len = _uint(buf, o, 2)
        nla_type = _uint(buf, o + 2, 2) & 0x3FFF
        if nla_len < 4 or nla_len > end - o:
            problems.append(f'attribute at offset {o} has nla_len={nla_len} with {end - o} bytes remaining')
            return attrs, order, False
        attrs[nla_type] = bytes(buf[o + 4:o + nla_len])
        order.append((nla_type, nla_len))
        o += (nla_len + 3) & ~3
    if end - o > 0:
        problems.append(f'{end - o} bytes leftover after parsing attributes')
    return attrs, order, True


# ---------------------------------------------------------------------------------- encoders

def enc_selector(family, saddr, daddr, plen_s, plen_d, sport, sport_mask, dport, dport_mask, proto):
    n = 'xfrm_selector'
    b = bytearray(size(n))
    b[off(n, 'daddr'):off(n, 'daddr') + 16] = _addr_raw(daddr)
    b[off(n, 'saddr'):off(n, 'saddr') + 16] = _addr_raw(saddr)
    _put(b, off(n, 'dport'), 2, dport, True)
    _put(b, off(n, 'dport_mask'), 2, dport_mask, True)
    _put(b, off(n, 'sport'), 2, sport, True)
    _put(b, off(n, 'sport_mask'), 2, sport_mask, True)
    _put(b, off(n, 'family'), 2, family)
    _put(b, off(n, 'prefixlen_d'), 1, plen_d)
    _put(b, off(n, 'prefixlen_s'), 1, plen_s)
    _put(b, off(n, 'proto'), 1, proto)
    return b


def enc_selector_from_dec(sel):
    n = 'xfrm_selector'
    b = bytearray(size(n))
    b[off(n, 'daddr'):off(n, 'daddr') + 16] = sel['daddr_raw']
    b[off(n, 'saddr'):off(n, 'saddr') + 16] = sel['saddr_raw']
    _put(b, off(n, 'dport'), 2, sel['dport'], True)
    _put(b, off(n, 'dport_mask'), 2, sel['dport_mask'], True)
    _put(b, off(n, 'sport'), 2, sel['sport'], True)
    _put(b, off(n, 'sport_mask'), 2, sel['sport_mask'], True)
    _put(b, off(n, 'family'), 2, sel['family'])
    _put(b, off(n, 'prefixlen_d'), 1, sel['prefixlen_d'])
    _put(b, off(n, 'prefixlen_s'), 1, sel['prefixlen_s'])
    _put(b, off(n, 'proto'), 1, sel['proto'])
    _put(b, off(n, 'ifindex'), 4, sel.get('ifindex', 0))
    _put(b, off(n, 'user'), 4, sel.get('user', 0))
    return b


def enc_id(daddr_raw, spi, proto):
    n = 'xfrm_id'
    b = bytearray(size(n))
    b[off(n, 'daddr'):off(n, 'daddr') + 16] = daddr_raw
    b[off(n, 'spi'):off(n, 'spi') + 4] = spi
    _put(b, off(n, 'proto'), 1, proto)
    return b


def enc_lft(lft):
    b = bytearray(size('xfrm_lifetime_cfg'))
    for f in LFT_FIELDS:
        _put(b, off('xfrm_lifetime_cfg', f), 8, lft[f])
    return b


def enc_tmpl(t):
    n = 'xfrm_user_tmpl'
    b = bytearray(size(n))
    b[off(n, 'id'):off(n, 'id') + size('xfrm_id')] = enc_id(t['id']['daddr_raw'], t['id']['spi'], t['id']['proto'])
    _put(b, off(n, 'family'), 2, t['family'])
    b[off(n, 'saddr'):off(n, 'saddr') + 16] = t['saddr_raw']
    _put(b, off(n, 'reqid'), 4, t['reqid'])
    _put(b, off(n, 'mode'), 1, t['mode'])
    _put(b, off(n, 'share'), 1, t['share'])
    _put(b, off(n, 'optional'), 1, t['optional'])
    _put(b, off(n, 'aalgos'), 4, t['aalgos'])
    _put(b, off(n, 'ealgos'), 4, t['ealgos'])
    _put(b, off(n, 'calgos'), 4, t['calgos'])
    return b


def enc_policy_info(p):
    n = 'xfrm_userpolicy_info'
    b = bytearray(size(n))
    b[off(n, 'sel'):off(n, 'sel') + size('xfrm_selector')] = enc_selector_from_dec(p['sel'])
    b[off(n, 'lft'):off(n, 'lft') + size('xfrm_lifetime_cfg')] = enc_lft(p['lft'])
    _put(b, off(n, 'priority'), 4, p['priority'])
    _put(b, off(n, 'index'), 4, p['index'])
    _put(b, off(n, 'dir'), 1, p['dir'])
    _put(b, off(n, 'action'), 1, p['action'])
    _put(b, off(n, 'flags'), 1, p['flags'])
    _put(b, off(n, 'share'), 1, p['share'])
    return b


def enc_nlmsg(mtype, flags, seq, pid, payload):
    h = bytearray(size('nlmsghdr'))
    _put(h, off('nlmsghdr', 'nlmsg_len'), 4, size('nlmsghdr') + len(payload))
    _put(h, off('nlmsghdr', 'nlmsg_type'), 2, mtype)
    _put(h, off('nlmsghdr', 'nlmsg_flags'), 2, flags)
    _put(h, off('nlmsghdr', 'nlmsg_seq'), 4, seq)
    _put(h, off('nlmsghdr', 'nlmsg_pid'), 4, pid)
    return bytes(h) + bytes(payload)


def enc_attr(atype, payload):
    ln = 4 + len(payload)
    pad = (-ln) % 4
    return struct.pack('<HH', ln, atype) + bytes(payload) + b'\0' * pad


def enc_ack(errno_neg, request, portid=None):
    """netlink_ack(): error 0 carries only the request header, an error carries the whole request.  nlmsg_pid of the reply is the port id
    of the socket that sent the request (NETLINK_CB(in_skb).portid), not what the requester wrote into its own header; the echoed request
    inside the payload is returned as it was sent."""
    body = bytearray(4)
    body[0:4] = int(errno_neg).to_bytes(4, 'little', signed=True)
    body += request[:16] if errno_neg == 0 else request
    return enc_nlmsg(K['NLMSG_ERROR'], 0, _uint(request, 8, 4) if len(request) >= 12 else 0,
                     (_uint(request, 12, 4) if len(request) >= 16 else 0) if portid is None else portid, body)


def enc_expire(sa, hard, attrs=()):
    n = 'xfrm_user_expire'
    b = bytearray(size(n))
    so = off(n, 'state')
    u = 'xfrm_usersa_info'
    b[so + off(u, 'sel'):so + off(u, 'sel') + size('xfrm_selector')] = enc_selector_from_dec(sa['sel'])
    b[so + off(u, 'id'):so + off(u, 'id') + size('xfrm_id')] = enc_id(sa['daddr_raw'], sa['spi'], sa['proto'])
    b[so + off(u, 'saddr'):so + off(u, 'saddr') + 16] = sa['saddr_raw']
    b[so + off(u, 'lft'):so + off(u, 'lft') + size('xfrm_lifetime_cfg')] = enc_lft(sa['lft'])
    _put(b, so + off(u, 'curlft') + off('xfrm_lifetime_cur', 'add_time'), 8, int(sa['add_time']))
    _put(b, so + off(u, 'seq'), 4, 0)
    _put(b, so + off(u, 'reqid'), 4, sa['reqid'])
    _put(b, so + off(u, 'family'), 2, sa['family'])
    _put(b, so + off(u, 'mode'), 1, sa['mode'])
    _put(b, so + off(u, 'replay_window'), 1, sa['replay_window'])
    _put(b, so + off(u, 'flags'), 1, sa['flags'])
    _put(b, off(n, 'hard'), 1, 1 if hard else 0)
    return enc_nlmsg(K['XFRM_MSG_EXPIRE'], 0, 0, 0, bytes(b) + _event_attrs(attrs, expire=True))


def _event_attrs(names, expire=False):
    """Attributes xfrm_user.c appends to events besides XFRMA_TMPL: build_acquire() = copy_to_user_policy_type() + xfrm_mark_put() +
    xfrm_if_id_put(); build_expire() = xfrm_mark_put() + xfrm_if_id_put() (present when sub-policies are compiled in, a mark / an
    interface id is set on the policy or SA)."""
    out = b''
    if names is True:
        names = ('policy_type',)
    for n_ in names or ():
        if n_ == 'policy_type' and not expire:
            out += enc_attr(16, b'\0\0\0\0\0\0')                 # XFRMA_POLICY_TYPE: struct xfrm_userpolicy_type {type = MAIN}
        elif n_ == 'mark':
            out += enc_attr(21, struct.pack('<LL', 0x2a, 0xffffffff))     # XFRMA_MARK: struct xfrm_mark {v, m}
        elif n_ == 'if_id':
            out += enc_attr(31, struct.pack('<L', 7))                    # XFRMA_IF_ID
    return out


def enc_acquire(pol, flow, extra_attrs=False):
    """build_acquire(): temp state from the flow + the policy + its templates."""
    n = 'xfrm_user_acquire'
    b = bytearray(size(n))
    t = pol['tmpls'][0]
    fam = flow['family']
    # xfrm_tmpl_resolve_one: tunnel -> template endpoints, otherwise the flow's addresses
    if t['mode'] == K['XFRM_MODE_TUNNEL']:
        id_daddr, saddr = t['id']['daddr_raw'], t['saddr_raw']
    else:
        id_daddr, saddr = _addr_raw(flow['daddr']), _addr_raw(flow['saddr'])
    b[off(n, 'id'):off(n, 'id') + size('xfrm_id')] = enc_id(id_daddr, b'\0\0\0\0', t['id']['proto'])
    b[off(n, 'saddr'):off(n, 'saddr') + 16] = saddr
    plen = 32 if fam == K['AF_INET'] else 128
    b[off(n, 'sel'):off(n, 'sel') + size('xfrm_selector')] = enc_selector(
        fam, flow['saddr'], flow['daddr'], plen, plen, flow['sport'], 0xFFFF, flow['dport'], 0xFFFF, flow['proto'])
    b[off(n, 'policy'):off(n, 'policy') + size('xfrm_userpolicy_info')] = enc_policy_info(pol)
    _put(b, off(n, 'aalgos'), 4, t['aalgos'])
    _put(b, off(n, 'ealgos'), 4, t['ealgos'])
    _put(b, off(n, 'calgos'), 4, t['calgos'])
    _put(b, off(n, 'seq'), 4, flow.get('seq', 1))
    attrs = enc_attr(K['XFRMA_TMPL'], b''.join(bytes(enc_tmpl(x)) for x in pol['tmpls']))
    attrs += _event_attrs(extra_attrs)
    return enc_nlmsg(K['XFRM_MSG_ACQUIRE'], 0, 0, 0, bytes(b) + attrs)


# ---------------------------------------------------------------------------------- the model

class FakeKernel:
    ACQ_EXPIRES = 30.0

    def __init__(self, world, node_name):
        self.world = world
        self.node = node_name
        self.spd = []            # policies in insertion order
        self.sad = {}            # (daddr_raw, proto, spi) -> sa dict
        self.ledger = []         # applied SA operations: ('add'|'del'|'flush', key, t, req_no)
        self.requests = []       # every request: dict(no, t, type, raw, decoded, errno, problems)
        self.abi_problems = []   # (req_no, text): requests the real kernel would refuse or mis-read
        self.event_socks = []    # FakeNetlinkSocket bound to groups
        self.idx_generator = 0
        self.larval = {}         # flow key -> expiry time of the larval (ACQ) state
        self.inject = {}         # req_no -> errno (fault injection), or callable(req)->errno|None
        self.reply_style = {}    # req_no -> 'done' | 'multi' | 'padded'
        self.req_no = 0
        self.incarnation_flush_log = []
        self.hard_expired = []   # keys removed by the kernel itself
        self.fault_counts = {}

    # ---- request path ------------------------------------------------------------------

    def request(self, raw, portid=None):
        """Handle one datagram written to a NETLINK_XFRM socket; returns the bytes to be read back
        (or None when the kernel would not answer)."""
        raw = bytes(raw)
        self.req_no += 1
        rec = {'no': self.req_no, 't': self.world.now, 'raw': raw, 'type': None, 'decoded': None, 'errno': 0,
               'problems': [], 'injected': False}
        self.requests.append(rec)
        problems = rec['problems']
        hs = size('nlmsghdr')
        if len(raw) < hs:
            problems.append(f'short netlink datagram ({len(raw)} bytes)')
            self._note(rec)
            return None
        nlen = _uint(raw, off('nlmsghdr', 'nlmsg_len'), 4)
        mtype = _uint(raw, off('nlmsghdr', 'nlmsg_type'), 2)
        flags = _uint(raw, off('nlmsghdr', 'nlmsg_flags'), 2)
        rec['type'] = mtype
        rec['flags'] = flags
        if nlen < hs or nlen > len(raw):
            problems.append(f'nlmsg_len={nlen} but {len(raw)} bytes were written')
            self._note(rec)
            return None
        if nlen != len(raw):
            problems.append(f'nlmsg_len={nlen} differs from the {len(raw)} bytes written')
        if not flags & K['NLM_F_REQUEST']:
            problems.append('NLM_F_REQUEST not set: kernel ignores the message')
            self._note(rec)
            return None
        if not flags & K['NLM_F_ACK']:
            problems.append('NLM_F_ACK not set: kernel sends no ack, recv() would block')
        msg = raw[:nlen]
        err = self._dispatch(rec, msg, mtype, problems)
        # fault injection: the request is refused although it was well-formed
        inj = self.inject.get(rec['no'])
        if callable(inj):
            inj = inj(rec)
        rec['errno'] = err
        if problems:
            self._note(rec)
        if err == 0 and inj:
            rec['errno'] = inj
            rec['injected'] = True
            self.fault_counts['kern.err.' + ERRNO_NAMES.get(inj, str(inj))] = \
                self.fault_counts.get('kern.err.' + ERRNO_NAMES.get(inj, str(inj)), 0) + 1
        elif err == 0:
            self._apply(rec)
        elif err == ESRCH and rec.get('decoded') and rec['decoded'].get('kind') == 'delsa':
            # deleting an SA the kernel itself already removed (hard expiry): the ledger counts it as deleted
            sid = rec['decoded']['id']
            self.ledger.append(('del', (sid['daddr_raw'], sid['proto'], sid['spi']), self.world.now, rec['no']))
        reply = enc_ack(-rec['errno'], msg, portid)
        style = self.reply_style.get(rec['no'])
        if style == 'padded' and rec['errno'] == 0:
            reply = reply + b'\0' * 0   # kernel never pads datagrams; kept for symmetry
        return reply

    def _note(self, rec):
        for p in rec['problems']:
            self.abi_problems.append((rec['no'], p))

    def _dispatch(self, rec, msg, mtype, problems):
        hs = size('nlmsghdr')
        body_len = len(msg) - hs
        if mtype == K['XFRM_MSG_NEWSA']:
            need = size('xfrm_usersa_info')
            if body_len < need:
                problems.append(f'NEWSA payload {body_len} < {need}')
                return EINVAL
            sa = dec_usersa_info(msg, hs)
            attrs, order, ok = split_attrs(msg, hs + ((need + 3) & ~3), len(msg), problems)
            rec['decoded'] = {'kind': 'newsa', 'sa': sa, 'attrs': {}, 'attr_order': order}
            if not ok:
                return EINVAL
            return self._verify_newsa(rec, sa, attrs, problems)
        if mtype == K['XFRM_MSG_DELSA']:
            need = size('xfrm_usersa_id')
            if body_len < need:
                problems.append(f'DELSA payload {body_len} < {need}')
                return EINVAL
            sid = dec_usersa_id(msg, hs)
            rec['decoded'] = {'kind': 'delsa', 'id': sid}
            if sid['family'] not in (K['AF_INET'], K['AF_INET6']):
                problems.append(f'DELSA family {sid["family"]}')
            key = (sid['daddr_raw'], sid['proto'], sid['spi'])
            if sid['family'] == K['AF_INET'] and any(sid['daddr_raw'][4:]):
                problems.append('DELSA IPv4 daddr has garbage beyond 4 bytes')
            if key not in self.sad:
                # an SA with that SPI and protocol exists under another destination: the request names the wrong SA
                other = [k for k in self.sad if k[1] == sid['proto'] and k[2] == sid['spi']]
                if other:
                    rec['decoded']['same_spi_other_daddr'] = [k[0].hex() for k in other]
                return ESRCH
            return 0
        if mtype == K['XFRM_MSG_NEWPOLICY']:
            need = size('xfrm_userpolicy_info')
            if body_len < need:
                problems.append(f'NEWPOLICY payload {body_len} < {need}')
                return EINVAL
            pol = dec_policy_info(msg, hs)
            attrs, order, ok = split_attrs(msg, hs + ((need + 3) & ~3), len(msg), problems)
            rec['decoded'] = {'kind': 'newpolicy', 'policy': pol, 'tmpls': [], 'attr_order': order}
            if not ok:
                return EINVAL
            return self._verify_newpolicy(rec, pol, attrs, problems)
        if mtype in (K['XFRM_MSG_FLUSHSA'], K['XFRM_MSG_FLUSHPOLICY']):
            if body_len < size('xfrm_usersa_flush'):
                problems.append('FLUSH payload too short')
                return EINVAL
            proto = _uint(msg, hs, 1)
            rec['decoded'] = {'kind': 'flushsa' if mtype == K['XFRM_MSG_FLUSHSA'] else 'flushpolicy', 'proto': proto}
            if mtype == K['XFRM_MSG_FLUSHSA'] and proto not in (0, K['IPPROTO_ESP'], K['IPPROTO_AH'], K['IPPROTO_COMP']):
                problems.append(f'FLUSHSA proto {proto}')
                return EINVAL
            return 0
        if K['XFRM_MSG_NEWSA'] <= mtype <= K['XFRM_MSG_NEWSA'] + 30:
            rec['decoded'] = {'kind': 'other'}
            problems.append(f'request type {mtype} is not one the daemon is meant to send')
            return EOPNOTSUPP
        problems.append(f'unknown netlink message type {mtype}')
        return EINVAL

    def _verify_newsa(self, rec, sa, attrs, problems):
        d = rec['decoded']
        fam = sa['family']
        if fam not in (K['AF_INET'], K['AF_INET6']):
            problems.append(f'NEWSA family {fam}')
            return EAFNOSUPPORT
        sfam = sa['sel']['family']
        if sfam == K['AF_INET']:
            if sa['sel']['prefixlen_d'] > 32 or sa['sel']['prefixlen_s'] > 32:
                problems.append('NEWSA selector prefix length > 32')
                return EINVAL
        elif sfam == K['AF_INET6']:
            if sa['sel']['prefixlen_d'] > 128 or sa['sel']['prefixlen_s'] > 128:
                problems.append('NEWSA selector prefix length > 128')
                return EINVAL
        elif sfam != 0:
            problems.append(f'NEWSA selector family {sfam}')
            return EINVAL
        proto = sa['id']['proto']
        a_auth = attrs.get(K['XFRMA_ALG_AUTH'])
        a_crypt = attrs.get(K['XFRMA_ALG_CRYPT'])
        a_aead = attrs.get(K['XFRMA_ALG_AEAD'])
        a_trunc = attrs.get(K['XFRMA_ALG_AUTH_TRUNC'])
        a_comp = attrs.get(K['XFRMA_ALG_COMP'])
        if proto == K['IPPROTO_AH']:
            if (a_auth is None and a_trunc is None) or a_aead is not None or a_crypt is not None or a_comp is not None:
                problems.append('NEWSA for AH needs ALG_AUTH and must not carry ALG_CRYPT/AEAD/COMP')
                return EINVAL
        elif proto == K['IPPROTO_ESP']:
            if a_comp is not None:
                problems.append('NEWSA for ESP carries ALG_COMP')
                return EINVAL
            if a_auth is None and a_trunc is None and a_crypt is None and a_aead is None:
                problems.append('NEWSA for ESP without any algorithm')
                return EINVAL
            if (a_auth is not None or a_trunc is not None or a_crypt is not None) and a_aead is not None:
                return EINVAL
        else:
            problems.append(f'NEWSA IPsec protocol {proto}')
            return EINVAL
        for code, raw, table in ((K['XFRMA_ALG_AUTH'], a_auth, 'a'), (K['XFRMA_ALG_CRYPT'], a_crypt, 'e')):
            if raw is None:
                continue
            alg = dec_algo(raw)
            if alg is None:
                problems.append(f'algorithm attribute {code} shorter than struct xfrm_algo')
                return EINVAL
            d['attrs'][code] = alg
            if alg['avail'] < (alg['key_len_bits'] + 7) // 8:
                problems.append(f'alg_key_len={alg["key_len_bits"]} bits exceeds the attribute payload')
                return EINVAL
            if not alg['name_terminated']:
                problems.append('algorithm name not NUL-terminated')
            if table == 'a':
                if alg['name'] not in KNOWN_AALG:
                    problems.append(f'unknown authentication algorithm {alg["name"]!r}')
                    return ENOSYS
            else:
                if alg['name'] not in KNOWN_EALG:
                    problems.append(f'unknown encryption algorithm {alg["name"]!r}')
                    return ENOSYS
                if alg['key_len_bits'] not in KNOWN_EALG[alg['name']]:
                    problems.append(f'key length {alg["key_len_bits"]} illegal for {alg["name"]}')
                    return EINVAL
        if sa['mode'] not in (0, 1, 2, 3, 4):
            problems.append(f'NEWSA mode {sa["mode"]}')
            return EINVAL
        for code in attrs:
            if code not in (K['XFRMA_ALG_AUTH'], K['XFRMA_ALG_CRYPT']):
                d['attrs'].setdefault(code, attrs[code])
        if fam == K['AF_INET'] and (any(sa['id']['daddr_raw'][4:]) or any(sa['saddr_raw'][4:])):
            problems.append('NEWSA IPv4 address has garbage beyond 4 bytes')
        key = (sa['id']['daddr_raw'], proto, sa['id']['spi'])
        if key in self.sad:
            return EEXIST
        return 0

    def _verify_newpolicy(self, rec, pol, attrs, problems):
        d = rec['decoded']
        if pol['share'] > 3:
            problems.append(f'policy share {pol["share"]}')
            return EINVAL
        if pol['action'] not in (K['XFRM_POLICY_ALLOW'], K['XFRM_POLICY_BLOCK']):
            problems.append(f'policy action {pol["action"]}')
            return EINVAL
        sfam = pol['sel']['family']
        if sfam == K['AF_INET']:
            if pol['sel']['prefixlen_d'] > 32 or pol['sel']['prefixlen_s'] > 32:
                problems.append('policy selector prefix length > 32')
                return EINVAL
        elif sfam == K['AF_INET6']:
            if pol['sel']['prefixlen_d'] > 128 or pol['sel']['prefixlen_s'] > 128:
                problems.append('policy selector prefix length > 128')
                return EINVAL
        else:
            problems.append(f'policy selector family {sfam}')
            return EINVAL
        if pol['dir'] not in (K['XFRM_POLICY_IN'], K['XFRM_POLICY_OUT'], K['XFRM_POLICY_FWD']):
            problems.append(f'policy dir {pol["dir"]}')
            return EINVAL
        if pol['index'] and (pol['index'] & 7) != pol['dir']:
            problems.append(f'policy index {pol["index"]} does not encode dir {pol["dir"]} (index & 7)')
            return EINVAL
        raw_t = attrs.get(K['XFRMA_TMPL'])
        tmpls = []
        if raw_t is not None:
            ts = size('xfrm_user_tmpl')
            if len(raw_t) < ts:
                problems.append('XFRMA_TMPL shorter than one template')
                return EINVAL
            nr = len(raw_t) // ts
            if nr > 6:
                return EINVAL
            for i in range(nr):
                t = dec_tmpl(raw_t, i * ts)
                if t['family'] == 0:
                    t['family'] = sfam
                if t['family'] not in (K['AF_INET'], K['AF_INET6']):
                    problems.append(f'template family {t["family"]}')
                    return EINVAL
                if t['mode'] not in (0, 1, 2, 3, 4):
                    problems.append(f'template mode {t["mode"]}')
                    return EINVAL
                if t['id']['proto'] not in (K['IPPROTO_ESP'], K['IPPROTO_AH'], K['IPPROTO_COMP'], 43, 60, 255):
                    problems.append(f'template proto {t["id"]["proto"]}')
                    return EINVAL
                tmpls.append(t)
        d['tmpls'] = tmpls
        # excl insert: same selector + dir already present -> EEXIST
        for p in self.spd:
            if p['dir'] == pol['dir'] and enc_selector_from_dec(p['sel']) == enc_selector_from_dec(pol['sel']):
                return EEXIST
        return 0

    def _gen_index(self, direction, wanted):
        used = {p['index'] for p in self.spd}
        idx = wanted
        while True:
            if not idx:
                idx = self.idx_generator | direction
                self.idx_generator += 8
            if idx == 0:
                idx = 8
            if idx not in used:
                return idx
            idx = 0

    def _apply(self, rec):
        d = rec['decoded']
        kind = d['kind']
        now = self.world.now
        if kind == 'newsa':
            sa = d['sa']
            key = (sa['id']['daddr_raw'], sa['id']['proto'], sa['id']['spi'])
            ent = {'key': key, 'daddr_raw': sa['id']['daddr_raw'], 'spi': sa['id']['spi'], 'proto': sa['id']['proto'],
                   'saddr_raw': sa['saddr_raw'], 'family': sa['family'], 'mode': sa['mode'], 'sel': sa['sel'],
                   'lft': sa['lft'], 'reqid': sa['reqid'], 'replay_window': sa['replay_window'], 'flags': sa['flags'],
                   'auth': d['attrs'].get(K['XFRMA_ALG_AUTH']), 'crypt': d['attrs'].get(K['XFRMA_ALG_CRYPT']),
                   'add_time': now, 'req_no': rec['no'], 'soft_sent': False}
            self.sad[key] = ent
            self.ledger.append(('add', key, now, rec['no']))
            soft, hard = sa['lft']['soft_add_expires_seconds'], sa['lft']['hard_add_expires_seconds']
            if soft and soft != INF:
                self.world.at(now + soft, lambda k=key, e=ent: self._timer_expire(k, e, False), tag='kexp')
            if hard and hard != INF:
                self.world.at(now + hard, lambda k=key, e=ent: self._timer_expire(k, e, True), tag='kexp')
        elif kind == 'delsa':
            sid = d['id']
            key = (sid['daddr_raw'], sid['proto'], sid['spi'])
            self.sad.pop(key, None)
            self.ledger.append(('del', key, now, rec['no']))
        elif kind == 'newpolicy':
            pol = dict(d['policy'])
            pol['tmpls'] = d['tmpls']
            pol['index'] = self._gen_index(pol['dir'], pol['index'])
            pol['req_no'] = rec['no']
            self.spd.append(pol)
        elif kind == 'flushsa':
            proto = d['proto']
            for key in [k for k in self.sad if proto == 0 or k[1] == proto]:
                del self.sad[key]
            self.ledger.append(('flush', proto, now, rec['no']))
        elif kind == 'flushpolicy':
            self.spd.clear()

    # ---- ledger view ("additions minus deletions") -----------------------------------------

    def ledger_set(self):
        live = set()
        for op, key, _, _ in self.ledger:
            if op == 'add':
                live.add(key)
            elif op == 'del':
                live.discard(key)
            elif op == 'flush':
                live = {k for k in live if key != 0 and k[1] != key}
        return live

    # ---- events ----------------------------------------------------------------------------

    def _emit(self, group_bit, data, what):
        for s in self.event_socks:
            if s.groups & group_bit and not s.closed:
                s.queue.append(bytes(data))
        self.world.kernel_event(self.node, what)

    def _timer_expire(self, key, ent, hard):
        cur = self.sad.get(key)
        if cur is not ent:
            return
        self.expire_now(key, hard)

    def expire_now(self, key, hard):
        ent = self.sad.get(key)
        if ent is None:
            return False
        if hard:
            del self.sad[key]
            self.hard_expired.append(key)
        else:
            if ent['soft_sent']:
                return False
            ent['soft_sent'] = True
        self._emit(1 << (K['XFRMNLGRP_EXPIRE'] - 1), enc_expire(ent, hard, getattr(self, 'event_attrs', ())),
                   ('expire', ent['spi'].hex(), int(hard)))
        return True

    def raw_event(self, data, what='raw'):
        """Deliver arbitrary bytes on the event sockets (unknown types, truncated events...)."""
        for s in self.event_socks:
            if not s.closed:
                s.queue.append(bytes(data))
        self.world.kernel_event(self.node, ('raw', what))

    # ---- data plane ------------------------------------------------------------------------

    @staticmethod
    def _sel_match(sel, flow):
        nets = sel_nets(sel)
        if nets is None or sel['family'] != flow['family']:
            return False
        s, d = nets
        if ipaddress.ip_address(flow['saddr']) not in s or ipaddress.ip_address(flow['daddr']) not in d:
            return False
        if sel['proto'] and sel['proto'] != flow['proto']:
            return False
        if (flow['sport'] ^ sel['sport']) & sel['sport_mask']:
            return False
        if (flow['dport'] ^ sel['dport']) & sel['dport_mask']:
            return False
        return True

    def lookup_policy(self, flow, direction):
        best = None
        for p in self.spd:
            if p['dir'] == direction and self._sel_match(p['sel'], flow):
                if best is None or p['priority'] < best['priority']:
                    best = p
        return best

    def find_sa_for(self, pol, flow):
        if not pol['tmpls']:
            return None
        t = pol['tmpls'][0]
        for ent in self.sad.values():
            if ent['proto'] != t['id']['proto'] or ent['mode'] != t['mode']:
                continue
            if t['mode'] == K['XFRM_MODE_TUNNEL']:
                if ent['daddr_raw'] != t['id']['daddr_raw'] or ent['saddr_raw'] != t['saddr_raw']:
                    continue
            else:
                if ent['daddr_raw'] != _addr_raw(flow['daddr']) or ent['saddr_raw'] != _addr_raw(flow['saddr']):
                    continue
            if t['reqid'] and ent['reqid'] != t['reqid']:
                continue
            if ent['sel']['family'] and not self._sel_match(ent['sel'], flow):
                continue
            return ent
        return None

    def output(self, flow, extra_attrs=False):
        """A locally generated packet. Returns ('clear', None) | ('esp', packet) | ('acquire', None) |
        ('larval', None) | ('block', None)."""
        pol = self.lookup_policy(flow, K['XFRM_POLICY_OUT'])
        if pol is None:
            return 'clear', None
        if pol['action'] == K['XFRM_POLICY_BLOCK']:
            return 'block', None
        ent = self.find_sa_for(pol, flow)
        if ent is not None:
            return 'esp', {'outer_src': ent['saddr_raw'], 'outer_dst': ent['daddr_raw'], 'proto': ent['proto'],
                           'spi': ent['spi'], 'mode': ent['mode'], 'crypt': ent['crypt'], 'auth': ent['auth'],
                           'flow': flow, 'family': ent['family']}
        if not pol['tmpls']:
            return 'clear', None
        fkey = (pol['index'], flow['saddr'], flow['daddr'], flow['proto'], flow['sport'], flow['dport'])
        now = self.world.now
        if self.larval.get(fkey, -1) > now:
            return 'larval', None
        self.larval[fkey] = now + self.ACQ_EXPIRES
        self._emit(1 << (K['XFRMNLGRP_ACQUIRE'] - 1), enc_acquire(pol, flow, extra_attrs or getattr(self, 'event_attrs', ())),
                   ('acquire', pol['index']))
        return 'acquire', pol

    def input(self, pkt):
        """A protected packet arriving from the peer kernel. Returns (ok, reason)."""
        key = (pkt['outer_dst'], pkt['proto'], pkt['spi'])
        ent = self.sad.get(key)
        if ent is None:
            return False, 'no SA for (daddr, proto, spi)'
        if ent['mode'] != pkt['mode']:
            return False, 'mode differs'
        if ent['saddr_raw'] != pkt['outer_src']:
            return False, 'outer source differs from the SA source'

        def alg(a):
            return None if a is None else (a['name'], a['key_len_bits'], a['key'])
        if alg(ent['crypt']) != alg(pkt['crypt']):
            return False, 'encryption algorithm/key differs'
        if alg(ent['auth']) != alg(pkt['auth']):
            return False, 'integrity algorithm/key differs'
        flow = pkt['flow']
        if ent['sel']['family'] and not self._sel_match(ent['sel'], flow):
            return False, 'inner packet does not match the SA selector'
        pol = self.lookup_policy(flow, K['XFRM_POLICY_IN'])
        if pol is None:
            return False, 'no inbound policy for the inner packet'
        if pol['tmpls']:
            t = pol['tmpls'][0]
            if t['id']['proto'] != ent['proto'] or t['mode'] != ent['mode']:
                return False, 'inbound policy template does not match the SA used'
        return True, 'ok'


class FakeNetlinkSocket:
    """What xfrm.Xfrm._get_socket returns. Request sockets (groups == 0) talk to FakeKernel.request;
    event sockets (groups != 0) are fed by the kernel model and read by main_loop."""

    def __init__(self, kernel, groups, node):
        self.kernel = kernel
        self.groups = groups
        self.node = node
        self.queue = []
        self.closed = False
        self.kind = 'xfrm'
        # netlink autobind: the first socket of a process gets its pid as port id, further ones (while that one is open) a kernel-chosen id
        taken = getattr(kernel, 'portids', None)
        if taken is None:
            taken = kernel.portids = set()
        self.portid = 4242 if 4242 not in taken else next(x for x in range(0xFFFFEFFF, 0xFFFF0000, -1) if x not in taken)
        taken.add(self.portid)
        if groups:
            kernel.event_socks.append(self)

    def fileno(self):
        return -1

    def send(self, data):
        self.node.syscall('nl_send')
        fault = getattr(self.kernel, 'nl_fault', {}).pop(self.kernel.req_no + 1, None)
        if fault == 'send':
            # the request never reaches the kernel: send() fails (ENOBUFS: socket buffers exhausted)
            self.kernel.req_no += 1
            self.node.world.count_fault('sys.nl_send')
            self.node.world.record(('nlfail', self.node.name, 'send'))
            self.kernel.nl_faults_fired = getattr(self.kernel, 'nl_faults_fired', 0) + 1
            raise OSError(105, 'No buffer space available')
        reply = self.kernel.request(data, self.portid)
        if fault == 'recv':
            # the kernel did what was asked, its acknowledgement is lost: recv() fails
            self.node.world.count_fault('sys.nl_recv_ack')
            self.node.world.record(('nlfail', self.node.name, 'recv'))
            self.kernel.nl_faults_fired = getattr(self.kernel, 'nl_faults_fired', 0) + 1
            self.lost_ack = True
            return len(data)
        if reply is not None:
            self.queue.append(reply)
        return len(data)

    def recv(self, n):
        self.node.syscall('nl_recv')
        if getattr(self, 'lost_ack', False):
            self.lost_ack = False
            raise OSError(105, 'No buffer space available')
        if not self.queue:
            # a real daemon would block forever here
            self.node.blocked_forever('netlink recv() with no reply pending')
        if self in self.kernel.event_socks and self.node.recv_fail['nl']:
            # the kernel could not queue an event for this listener: recv() fails with ENOBUFS and the event is lost
            f = self.node.recv_fail['nl'].pop(0)
            self.queue.pop(0)
            self.node.world.count_fault('sys.nl_recv')
            self.node.world.record(('recvfail', self.node.name, 'nl'))
            raise f()
        return self.queue.pop(0)[:n]

    def close(self):
        self.closed = True
        getattr(self.kernel, 'portids', set()).discard(self.portid)
        if self in self.kernel.event_socks:
            self.kernel.event_socks.remove(self)
