"""An active reference peer: a small, independent IKEv2 *responder* built on sim/refike.py (codec, key schedule, AUTH, SK protection written
from RFC 7296; no code shared with /repo).  It lives at an address of the simulated network (world.externals) and answers whatever a real
daemon starts: IKE_SA_INIT (optionally after a COOKIE round and / or an INVALID_KE_PAYLOAD round), IKE_AUTH (PSK), CREATE_CHILD_SA for new
CHILD_SAs, CHILD_SA rekeys (with and without PFS) and IKE_SA rekeys (optionally refusing the first KE group with INVALID_KE_PAYLOAD and
keeping the IKE_SA, as RFC 7296 1.3.2 / 2.18 expect), INFORMATIONAL (liveness, DELETE).  It never starts an exchange itself.

It behaves as a conforming third-party implementation may and pyikev2 itself never does: own preference order among the offered transforms,
nonce lengths 16..256, narrowing to either of the offered selectors, vendor IDs, unknown status notifies and non-critical unknown payloads
next to the required ones, extra padding.  Every run is seeded (behaviour knobs, scalars, nonces, SPIs, IVs come from one PRNG).

What it observes is the oracle material: `problems` (things a conforming peer sees wrong in the daemon's messages: a protected message that
does not verify / decrypt under the RFC key schedule, an AUTH that does not verify, a Message ID outside the window ...), `children`
(KEYMAT and parameters of every CHILD_SA it granted, in the wiretap's format, for comparison with the daemon's XFRM_MSG_NEWSA requests) and
`sessions`."""
import hashlib
import random

from . import refike as R


def _ts_intersect(a, b):
    if a['ts_type'] != b['ts_type']:
        return None
    if a['proto'] and b['proto'] and a['proto'] != b['proto']:
        return None
    lo, hi = max(a['sport'], b['sport']), min(a['eport'], b['eport'])
    sa, ea = max(a['saddr'], b['saddr']), min(a['eaddr'], b['eaddr'])
    if lo > hi or sa > ea:
        return None
    return {'ts_type': a['ts_type'], 'proto': a['proto'] or b['proto'], 'sport': lo, 'eport': hi, 'saddr': sa, 'eaddr': ea}


def _ent_ts(e, side):
    net, port = (e['my_net'], e['my_port']) if side == 'my' else (e['peer_net'], e['peer_port'])
    alen = 4 if net.version == 4 else 16
    return {'ts_type': 7 if net.version == 4 else 8, 'proto': e['ip_proto'], 'sport': port, 'eport': port or 65535,
            'saddr': int(net.network_address).to_bytes(alen, 'big'), 'eaddr': int(net.broadcast_address).to_bytes(alen, 'big')}


class _Sess:
    def __init__(self):
        self.spi_i = self.spi_r = None
        self.suite = None
        self.keys = None
        self.ni = self.nr = None
        self.init_req = self.init_res = None
        self.expect = 0            # Message ID of the next request of the daemon
        self.last = {}             # Message ID -> (request octets, response octets)
        self.children = []         # dicts of the children list below that are alive
        self.authenticated = False
        self.closed = False
        self.parent = None
        self.refused_ke_once = False
        self.foreign = False


class RefPeer:
    def __init__(self, world, addr, conn, seed, knobs=None, name='R'):
        self.w, self.addr, self.conn, self.name = world, addr, conn, name
        self.r = random.Random(f'refpeer:{seed}')
        k = dict(knobs or {})
        r = self.r
        self.k = {
            'nonce_len': k.get('nonce_len', r.choice([16, 17, 32, 32, 64, 255, 256])),
            'cookie': k.get('cookie', r.random() < 0.3),
            'invalid_ke_on_ike_rekey': k.get('invalid_ke_on_ike_rekey', r.random() < 0.6),
            'narrow': k.get('narrow', r.choice(['first', 'last', 'last'])),
            'extras': k.get('extras', r.random() < 0.5),
            'pad_extra': k.get('pad_extra', r.choice([0, 0, 1, 3])),
            'pad_fill': k.get('pad_fill', r.choice(['zero', 'random', 'padlen'])),
            'prefer': k.get('prefer', r.choice(['mine', 'mine', 'reversed'])),       # preference order among the common transforms
            'latency': k.get('latency', r.choice([0.005, 0.02, 0.1])),
            'byz_foreign_first': bool(k.get('byz_foreign_first', False)),
            'init_proposal_spi': k.get('init_proposal_spi', r.choice(['empty', 'empty', 'echo'])),
            'mute_after_init': bool(k.get('mute_after_init', False)),     # answers IKE_SA_INIT and nothing else (a peer that dies right then)
            'zero_lead_secret': bool(k.get('zero_lead_secret', False)),   # picks its DH scalars so that g^ir begins with a zero octet
        }
        self.r2 = random.Random(f'refpeer-x:{seed}')
        self.secret = bytes(r.getrandbits(8) for _ in range(16))
        self.sessions = {}         # spi_r -> _Sess
        self.by_init = {}          # (spi_i, sha(request)) -> response octets (stateless replies and retransmitted IKE_SA_INIT requests)
        self.problems = []
        self.children = []
        self.counts = {}
        self.transcript = []
        world.externals[addr] = self

    # ------------------------------------------------------------------------------------------ helpers
    def _c(self, k, n=1):
        self.counts[k] = self.counts.get(k, 0) + n

    def _x_for(self, group, peer_public):
        """The DH scalar of one exchange.  Knob zero_lead_secret: searched (second PRNG, the first one draws as ever) until the shared
        secret begins with a zero octet - one exchange in 256 does so by itself and RFC 7296 2.14 keeps it at full width."""
        x = self.r.getrandbits(190) + 2
        if self.k['zero_lead_secret']:
            for _ in range(400):
                try:
                    if R.dh_shared(group, x, peer_public)[0] == 0:
                        self._c('zero_lead_secret')
                        break
                except Exception:
                    break
                x = self.r2.getrandbits(190) + 2
        return x

    def problem(self, kind, detail, **sig):
        self.problems.append({'kind': kind, 'detail': detail, 't': self.w.now, 'sig': sig})

    def _rb(self, n):
        return bytes(self.r.getrandbits(8) for _ in range(n))

    def _send(self, data, dst):
        self.transcript.append((self.w.now, 'out', bytes(data)))
        self.w.net.inject(bytes(data), self.addr, dst, self.k['latency'], 'refpeer')

    def _prefs(self, lst):
        return list(reversed(lst)) if self.k['prefer'] == 'reversed' else list(lst)

    def _notify(self, ntype, data=b'', proto=0, spi=b''):
        return {'type': R.P_NOTIFY, 'proto': proto, 'ntype': ntype, 'spi': spi, 'data': data}

    def _extras(self):
        if not self.k['extras']:
            return []
        out = []
        if self.r.random() < 0.6:
            out.append({'type': R.P_VENDOR, 'data': b'reference peer ' + self._rb(self.r.choice([0, 4, 16]))})
        if self.r.random() < 0.5:
            out.append(self._notify(self.r.choice([16404, 16430, 40000, 16388]), self._rb(self.r.choice([0, 8, 20]))))
        if self.r.random() < 0.3:
            out.append({'type': self.r.choice([R.P_CERTREQ, 47, 200]), 'data': self._rb(self.r.choice([0, 5, 21])), 'critical': False})
        return out

    # ------------------------------------------------------------------------------------------ selection
    def _choose_ike(self, proposals):
        ike = self.conn['ike']
        for p in proposals:
            if p['proto'] != R.PROTO_IKE:
                continue
            off = {}
            for t in p['transforms']:
                off.setdefault(t['type'], []).append(t)
            pick = []
            ok = True
            for typ, mine in ((R.T_ENCR, [('e', x) for x in ike['encr']]), (R.T_INTEG, ike['integ']), (R.T_PRF, ike['prf']), (R.T_DH, ike['dh'])):
                got = None
                for m in self._prefs(mine):
                    for t in off.get(typ, []):
                        if typ == R.T_ENCR:
                            if (t['id'], t['keylen']) == m[1]:
                                got = t
                        elif t['id'] == m and not t.get('keylen'):
                            got = t
                        if got:
                            break
                    if got:
                        break
                if got is None:
                    ok = False
                    break
                pick.append(got)
            if ok:
                return p, pick
        return None, None

    def _choose_child(self, proposals, ent, with_dh):
        want_proto = R.PROTO_ESP if ent['ipsec_proto'] == 'esp' else R.PROTO_AH
        for p in proposals:
            if p['proto'] != want_proto or len(p['spi']) != 4:
                continue
            off = {}
            for t in p['transforms']:
                off.setdefault(t['type'], []).append(t)
            pick = []
            ok = True
            types = [(R.T_INTEG, ent['integ'])]
            if want_proto == R.PROTO_ESP:
                types.insert(0, (R.T_ENCR, [('e', x) for x in ent['encr']]))
            for typ, mine in types:
                got = None
                for m in self._prefs(mine):
                    for t in off.get(typ, []):
                        if typ == R.T_ENCR:
                            if (t['id'], t['keylen']) == m[1]:
                                got = t
                        elif t['id'] == m:
                            got = t
                        if got:
                            break
                    if got:
                        break
                if got is None:
                    ok = False
                    break
                pick.append(got)
            if not ok:
                continue
            dh = None
            offered_dh = [t for t in off.get(R.T_DH, []) if t['id'] != 0]
            if with_dh and ent['dh']:
                for m in self._prefs(ent['dh']):
                    dh = next((t for t in offered_dh if t['id'] == m), None)
                    if dh:
                        break
                if dh is None:
                    continue
                pick.append(dh)
            elif with_dh and offered_dh and not any(t['id'] == 0 for t in off.get(R.T_DH, [])):
                continue          # the peer insists on PFS, this entry has none
            esn = off.get(R.T_ESN, [])
            if esn:
                pick.append(next((t for t in esn if t['id'] == 0), esn[0]))
            return p, pick, (dh['id'] if dh else None)
        return None, None, None

    # ------------------------------------------------------------------------------------------ entry point
    def on_datagram(self, data, src, dst):
        data = bytes(data)
        self.transcript.append((self.w.now, 'in', data))
        self._src, self._raw = src, data
        try:
            h = R.dec_header(data)
        except R.DecodeError as ex:
            return self.problem('undecodable_header', str(ex))
        if h['R']:
            return self.problem('unsolicited_response', f'a response (exchange {h["exch"]}, id {h["id"]}) although the reference peer never sends a request')
        if h['exch'] == R.IKE_SA_INIT:
            return self._init(h, data, src)
        if self.k['mute_after_init']:
            self._c('muted')
            return
        s = self.sessions.get(h['spi_r'])
        if s is None or s.spi_i != h['spi_i']:
            self._c('unknown_spi')
            if h['exch'] == R.IKE_AUTH and h['id'] == 1 and any(x.spi_i == h['spi_i'] and not x.authenticated for x in self.sessions.values()):
                # the initiator answers our IKE_SA_INIT response with an IKE_AUTH addressed to a responder SPI that response did not carry in
                # its header: SPIr, which goes into the key derivation (RFC 7296 2.14), is not the one of the exchange
                self.problem('ike_auth_to_spi_of_no_sa_response', f'IKE_AUTH request of SPIi {h["spi_i"].hex()} addressed to SPIr {h["spi_r"].hex()}; the '
                             f'IKE_SA_INIT response it follows carried SPIr {[x.spi_r.hex() for x in self.sessions.values() if x.spi_i == h["spi_i"]]} in its header')
            return
        if not h['I']:
            return self.problem('initiator_flag_clear', f'request of the original initiator of IKE_SA {s.spi_i.hex()} without the Initiator flag (exchange {h["exch"]}, id {h["id"]})')
        if h['id'] in s.last and s.last[h['id']][0] == data:
            self._c('retransmission_answered')
            return self._send(s.last[h['id']][1], src)
        if h['id'] != s.expect:
            if h['id'] < s.expect:
                if h['id'] in s.last:
                    self.problem('retransmission_differs', f'IKE_SA {s.spi_i.hex()}: request with Message ID {h["id"]} again, but not the octets sent before')
                return
            return self.problem('request_id_outside_window', f'IKE_SA {s.spi_i.hex()}: request with Message ID {h["id"]}, expected {s.expect}')
        if s.closed:
            return
        try:
            hh, chain, info = R.sk_open(data, s.suite, s.keys['ai'], s.keys['ei'])
            pls = [R.dec_payload(p) for p in chain]
        except R.DecodeError as ex:
            kind = getattr(ex, 'kind', 'keys')
            return self.problem('cannot_open_protected_message', f'IKE_SA {s.spi_i.hex()}/{s.spi_r.hex()}: the daemon\'s request (exchange {h["exch"]}, Message ID '
                                f'{h["id"]}) does not verify / decrypt under the keys RFC 7296 2.14 / 2.18 give for this IKE_SA: {ex}',
                                exchange=h['exch'], why=kind, generation=self._generation(s))
        self._c('requests_opened')
        if h['exch'] == R.IKE_AUTH and h['id'] == 1 and not s.authenticated:
            out = self._auth(s, pls)
        elif not s.authenticated:
            return self.problem('request_before_authentication', f'exchange {h["exch"]} on an IKE_SA that has not completed IKE_AUTH')
        elif h['exch'] == R.CREATE_CHILD_SA:
            out = self._create_child(s, pls)
        elif h['exch'] == R.INFORMATIONAL:
            out = self._informational(s, pls)
        else:
            return self.problem('unexpected_exchange', f'exchange type {h["exch"]}')
        if out is None:
            return
        resp = R.sk_seal({'spi_i': s.spi_i, 'spi_r': s.spi_r, 'exch': h['exch'], 'I': False, 'R': True, 'id': h['id']}, out, s.suite,
                         s.keys['ar'], s.keys['er'], self._rb(16), pad_extra=self.k['pad_extra'] if self.r.random() < 0.5 else 0,
                         pad_fill=(lambda n: self._rb(n)) if self.k['pad_fill'] == 'random' else ((lambda n: bytes([n] * n)) if self.k['pad_fill'] == 'padlen' else None))
        s.last[h['id']] = (data, resp)
        s.expect = h['id'] + 1
        self._send(resp, src)

    def _generation(self, s):
        n = 0
        while s.parent is not None:
            n, s = n + 1, s.parent
        return n

    # ------------------------------------------------------------------------------------------ IKE_SA_INIT
    def _init(self, h, data, src):
        if h['spi_r'] != b'\0' * 8:
            return self.problem('ike_sa_init_request_with_responder_spi', f'SPIr {h["spi_r"].hex()} in an IKE_SA_INIT request')
        key = (h['spi_i'], hashlib.sha256(data).digest())
        if key in self.by_init:
            self._c('init_retransmission_answered')
            return self._send(self.by_init[key], src)
        try:
            _, pls = R.decode(data)
        except R.DecodeError as ex:
            return self.problem('undecodable_ike_sa_init', str(ex))
        sa = next((p for p in pls if p['type'] == R.P_SA), None)
        ke = next((p for p in pls if p['type'] == R.P_KE), None)
        no = next((p for p in pls if p['type'] == R.P_NONCE), None)
        if sa is None or ke is None or no is None:
            return self.problem('ike_sa_init_incomplete', 'SA, KE or Ni missing')
        if not 16 <= len(no['data']) <= 256:
            self.problem('nonce_length', f'Ni of {len(no["data"])} octets')

        def reply(payloads, spi_r=b'\0' * 8):
            out = R.encode({'spi_i': h['spi_i'], 'spi_r': spi_r, 'exch': R.IKE_SA_INIT, 'I': False, 'R': True, 'id': 0}, payloads)
            self.by_init[key] = out
            self._send(out, src)
            return out
        if self.k['cookie']:
            want = hashlib.sha256(self.secret + no['data'] + src.encode() + h['spi_i']).digest()[:24]
            got = next((p for p in pls if p['type'] == R.P_NOTIFY and p['ntype'] == R.N_COOKIE), None)
            if got is None:
                self._c('cookie_requested')
                return reply([self._notify(R.N_COOKIE, want)])
            if got['data'] != want:
                self.problem('cookie_not_returned_unchanged', 'the COOKIE in the retried IKE_SA_INIT request is not the one that was sent')
                return reply([self._notify(R.N_COOKIE, want)])
            if pls[0]['type'] != R.P_NOTIFY or pls[0]['ntype'] != R.N_COOKIE:
                self.problem('cookie_not_first_payload', 'RFC 7296 2.6: the COOKIE notification is the first payload of the retried request')
            self._c('cookie_returned')
        prop, pick = self._choose_ike(sa['proposals'])
        if prop is None:
            self._c('no_proposal_chosen')
            return reply([self._notify(R.N_NO_PROPOSAL_CHOSEN)])
        foreign = None
        if self.k.get('byz_foreign_first'):
            # Byzantine (but holding the right credential): the response lists, in front of the chosen ENCR transform, one that was never
            # offered, and the responder keys the IKE_SA with it.  A conforming initiator refuses the response.
            offered = {(t['type'], t['id'], t['keylen']) for t in prop['transforms']}
            enc = next(t for t in pick if t['type'] == R.T_ENCR)
            alt = 128 if enc['keylen'] == 256 else 256
            if (R.T_ENCR, 12, alt) not in offered:
                foreign = {'type': R.T_ENCR, 'id': 12, 'keylen': alt, 'attrs': [(14, alt)]}
                pick = [foreign] + list(pick)
                self._c('byz_foreign_first')
        suite = R.Suite.from_proposal({'transforms': pick})
        if ke['group'] != suite.dh:
            self._c('invalid_ke_on_init')
            return reply([self._notify(R.N_INVALID_KE_PAYLOAD, suite.dh.to_bytes(2, 'big'))])
        if len(ke['data']) != R.ke_len(suite.dh):
            self.problem('ke_wrong_length', f'KE for group {suite.dh} has {len(ke["data"])} octets')
            return
        s = _Sess()
        s.spi_i, s.spi_r = h['spi_i'], self._rb(8)
        s.suite, s.ni, s.nr = suite, no['data'], self._rb(self.k['nonce_len'])
        x = self._x_for(suite.dh, ke['data'])
        try:
            shared = R.dh_shared(suite.dh, x, ke['data'])
        except Exception as ex:
            return self.problem('ke_invalid', f'KE value of group {suite.dh} is not a valid public value: {ex}')
        s.keys = R.ike_keys(suite, s.ni, s.nr, s.spi_i, s.spi_r, shared)
        s.init_req = data
        s.foreign = foreign is not None
        # SPI field of the proposal in an IKE_SA_INIT response: empty (RFC 7296 3.3.1: the SPI is in the header), or - some responders copy the
        # chosen proposal as it came - the initiator's own value echoed back; the SPIr that counts is the one in the header
        echo = prop.get('spi', b'') if self.k['init_proposal_spi'] == 'echo' else b''
        if echo:
            self._c('init_proposal_spi_echoed')
        chosen = {'num': prop['num'], 'proto': R.PROTO_IKE, 'spi': echo, 'transforms': [dict(t) for t in pick]}
        payloads = [{'type': R.P_SA, 'proposals': [chosen]}, {'type': R.P_KE, 'group': suite.dh, 'data': R.dh_public(suite.dh, x)},
                    {'type': R.P_NONCE, 'data': s.nr}] + self._extras()
        s.init_res = reply(payloads, s.spi_r)
        s.expect = 1
        self.sessions[s.spi_r] = s
        self._c('ike_sa_init_answered')

    # ------------------------------------------------------------------------------------------ IKE_AUTH
    def _auth(self, s, pls):
        idi = next((p for p in pls if p['type'] == R.P_IDi), None)
        au = next((p for p in pls if p['type'] == R.P_AUTH), None)
        if idi is None or au is None:
            self.problem('ike_auth_incomplete', 'IDi or AUTH missing')
            return [self._notify(R.N_AUTHENTICATION_FAILED)]
        pa, ma = self.conn['peer_auth'], self.conn['my_auth']
        octets = R.auth_octets(s.init_req, s.nr, s.suite.prf, s.keys['pi'], R.id_body(idi))
        ok = au['method'] == 2 and pa['psk'] is not None and R.psk_auth(s.suite.prf, pa['psk'], octets) == au['data']
        if not ok or (idi['id_type'], idi['data']) != (pa['id_type'], pa['id_data']):
            self.problem('auth_does_not_verify', f'IKE_SA {s.spi_i.hex()}: the AUTH payload of the daemon does not verify under the configured PSK over the '
                         f'IKE_SA_INIT request it sent, Nr and prf(SK_pi, IDi) (RFC 7296 2.15), or the identity is not the configured one')
            s.closed = True
            return [self._notify(R.N_AUTHENTICATION_FAILED)]
        s.authenticated = True
        self._c('ike_auth_verified')
        idr = {'type': R.P_IDr, 'id_type': ma['id_type'], 'data': ma['id_data']}
        mine = R.psk_auth(s.suite.prf, ma['psk'], R.auth_octets(s.init_res, s.ni, s.suite.prf, s.keys['pr'], R.id_body(idr)))
        out = [idr, {'type': R.P_AUTH, 'method': 2, 'data': mine}]
        child = self._child(s, pls, s.ni, s.nr, initial=True)
        return out + child + self._extras()

    # ------------------------------------------------------------------------------------------ CHILD_SA
    def _child(self, s, pls, ni, nr, initial, ke=None, rekeyed=None):
        """Returns the response payloads for the CHILD_SA part (SA, TSi, TSr, [N(USE_TRANSPORT_MODE)], [KE]) or an error notify."""
        sa = next((p for p in pls if p['type'] == R.P_SA), None)
        tsi = next((p for p in pls if p['type'] == R.P_TSi), None)
        tsr = next((p for p in pls if p['type'] == R.P_TSr), None)
        if sa is None or tsi is None or tsr is None or not tsi['selectors'] or not tsr['selectors']:
            self.problem('child_request_incomplete', 'SA, TSi or TSr missing')
            return [self._notify(R.N_INVALID_SYNTAX)]
        transport = any(p['type'] == R.P_NOTIFY and p['ntype'] == R.N_USE_TRANSPORT_MODE for p in pls)
        which = 0 if self.k['narrow'] == 'first' else -1
        for ent in self.conn['protect']:
            if (ent['mode'] == 'transport') != transport:
                continue
            if rekeyed is not None:
                a, b = rekeyed['tsi'][0], rekeyed['tsr'][0]
                if a not in tsi['selectors'] or b not in tsr['selectors']:
                    continue
                if _ts_intersect(a, _ent_ts(ent, 'peer')) != a or _ts_intersect(b, _ent_ts(ent, 'my')) != b:
                    continue
            else:
                a = _ts_intersect(tsi['selectors'][which], _ent_ts(ent, 'peer'))
                b = _ts_intersect(tsr['selectors'][which], _ent_ts(ent, 'my'))
                if a is None or b is None:
                    continue
            prop, pick, dh = self._choose_child(sa['proposals'], ent, with_dh=not initial)
            if prop is None:
                continue
            out = []
            shared = None
            if dh is not None:
                if ke is None or ke['group'] != dh:
                    self._c('invalid_ke_on_child')
                    return [self._notify(R.N_INVALID_KE_PAYLOAD, dh.to_bytes(2, 'big'))]
                x = self._x_for(dh, ke['data'])
                try:
                    shared = R.dh_shared(dh, x, ke['data'])
                except Exception as ex:
                    self.problem('ke_invalid', f'CREATE_CHILD_SA KE of group {dh}: {ex}')
                    return [self._notify(R.N_INVALID_SYNTAX)]
                out_ke = {'type': R.P_KE, 'group': dh, 'data': R.dh_public(dh, x)}
            encr = next((t for t in pick if t['type'] == R.T_ENCR), None)
            integ = next(t for t in pick if t['type'] == R.T_INTEG)
            km = R.child_keymat(s.suite.prf, s.keys['d'], ni, nr, (encr['keylen'] or 128) if encr else 0, integ['id'], shared)
            my_spi = self._rb(4)
            chosen = {'num': prop['num'], 'proto': prop['proto'], 'spi': my_spi, 'transforms': [dict(t) for t in pick]}
            if transport:
                out.append(self._notify(R.N_USE_TRANSPORT_MODE))
            out.append({'type': R.P_SA, 'proposals': [chosen]})
            if shared is not None:
                out.append(out_ke)
            out += [{'type': R.P_TSi, 'selectors': [a]}, {'type': R.P_TSr, 'selectors': [b]}]
            node = self.w.net.node_of_addr(self._src)
            ch = {'t': self.w.now, 'session': s, 'initial': initial, 'pfs': shared is not None, 'rekey_of': rekeyed and rekeyed['spi_init'],
                  'x_init': node.name if node else None, 'x_resp': self.name, 'x_init_addr': self._src, 'x_resp_addr': self.addr,
                  'spi_init': prop['spi'], 'spi_resp': my_spi, 'proto': prop['proto'], 'encr_bits': (encr['keylen'] or 128) if encr else 0,
                  'integ': integ['id'], 'transport': transport, 'transport_q': transport, 'transport_r': transport,
                  'tsi': [a], 'tsr': [b], 'tsi_offer': tsi['selectors'], 'tsr_offer': tsr['selectors'], 'offer': sa['proposals'], 'chosen': chosen,
                  'keymat': km, 'entry': ent, 'alive': True, 'req': {'t': self.w.now, 'raw': self._raw, 'rewritten': False}, 'res': {'t': self.w.now}}
            self.children.append(ch)
            s.children.append(ch)
            self._c('children_granted')
            if shared is not None:
                self._c('children_pfs')
            return out
        self._c('child_refused')
        return [self._notify(R.N_TS_UNACCEPTABLE)]

    def _create_child(self, s, pls):
        sa = next((p for p in pls if p['type'] == R.P_SA), None)
        no = next((p for p in pls if p['type'] == R.P_NONCE), None)
        ke = next((p for p in pls if p['type'] == R.P_KE), None)
        if sa is None or no is None or not sa['proposals']:
            self.problem('create_child_sa_incomplete', 'SA or Ni missing')
            return [self._notify(R.N_INVALID_SYNTAX)]
        if not 16 <= len(no['data']) <= 256:
            self.problem('nonce_length', f'Ni of {len(no["data"])} octets')
        if sa['proposals'][0]['proto'] == R.PROTO_IKE:
            return self._rekey_ike(s, sa, no, ke)
        nr = self._rb(self.k['nonce_len'])
        rk = next((p for p in pls if p['type'] == R.P_NOTIFY and p['ntype'] == R.N_REKEY_SA), None)
        rekeyed = None
        if rk is not None:
            # the SPI is the one the sender of the notification receives on: for us the SPI we send to
            rekeyed = next((c for c in s.children if c['alive'] and c['spi_init'] == rk['spi']), None)
            if rekeyed is None:
                self._c('child_sa_not_found')
                return [self._notify(R.N_CHILD_SA_NOT_FOUND, proto=rk['proto'], spi=rk['spi'])]
            self._c('child_rekeys')
        out = self._child(s, pls, no['data'], nr, initial=False, ke=ke, rekeyed=rekeyed)
        if any(p['type'] == R.P_SA for p in out):
            sa_i = next(i for i, p in enumerate(out) if p['type'] == R.P_SA)
            out.insert(sa_i + 1, {'type': R.P_NONCE, 'data': nr})
        return out

    def _rekey_ike(self, s, sa, no, ke):
        prop, pick = self._choose_ike(sa['proposals'])
        if prop is None or ke is None:
            return [self._notify(R.N_NO_PROPOSAL_CHOSEN)]
        if len(prop['spi']) != 8:
            self.problem('ike_rekey_spi_size', f'IKE_SA rekey proposal with an SPI of {len(prop["spi"])} octets')
            return [self._notify(R.N_INVALID_SYNTAX)]
        suite = R.Suite.from_proposal({'transforms': pick})
        offered_dh = [t['id'] for t in prop['transforms'] if t['type'] == R.T_DH]
        want = suite.dh
        if self.k['invalid_ke_on_ike_rekey'] and not s.refused_ke_once and len(offered_dh) > 1:
            # a conforming responder that prefers another of the offered groups for the new IKE_SA: INVALID_KE_PAYLOAD, and the IKE_SA stays
            want = next(g for g in offered_dh if g != ke['group']) if ke['group'] in offered_dh else suite.dh
            s.refused_ke_once = True
        if ke['group'] != want:
            if want not in self.conn['ike']['dh']:
                want = suite.dh
            if ke['group'] != want:
                self._c('invalid_ke_on_ike_rekey')
                return [self._notify(R.N_INVALID_KE_PAYLOAD, want.to_bytes(2, 'big'))]
        pick = [dict(t) for t in pick if t['type'] != R.T_DH] + [{'type': R.T_DH, 'id': ke['group'], 'keylen': None, 'attrs': []}]
        suite = R.Suite.from_proposal({'transforms': pick})
        n = _Sess()
        n.spi_i, n.spi_r = prop['spi'], self._rb(8)
        n.suite, n.ni, n.nr = suite, no['data'], self._rb(self.k['nonce_len'])
        x = self._x_for(suite.dh, ke['data'])
        try:
            shared = R.dh_shared(suite.dh, x, ke['data'])
        except Exception as ex:
            self.problem('ke_invalid', f'IKE_SA rekey KE of group {suite.dh}: {ex}')
            return [self._notify(R.N_INVALID_SYNTAX)]
        n.keys = R.ike_keys(suite, n.ni, n.nr, n.spi_i, n.spi_r, shared, old_sk_d=s.keys['d'], old_prf=s.suite.prf)
        n.authenticated = True
        n.parent = s
        n.children, s.children = s.children, []
        n.expect = 0
        self.sessions[n.spi_r] = n
        self._c('ike_rekeys')
        chosen = {'num': prop['num'], 'proto': R.PROTO_IKE, 'spi': n.spi_r, 'transforms': pick}
        return [{'type': R.P_SA, 'proposals': [chosen]}, {'type': R.P_NONCE, 'data': n.nr},
                {'type': R.P_KE, 'group': suite.dh, 'data': R.dh_public(suite.dh, x)}]

    # ------------------------------------------------------------------------------------------ INFORMATIONAL
    def _informational(self, s, pls):
        out = []
        for d in [p for p in pls if p['type'] == R.P_DELETE]:
            if d['proto'] == R.PROTO_IKE:
                s.closed = True
                for c in s.children:
                    c['alive'] = False
                self._c('ike_sa_deleted')
                return []
            mine = []
            for spi in d['spis']:
                c = next((c for c in s.children if c['alive'] and c['spi_init'] == spi), None)
                if c is not None:
                    c['alive'] = False
                    c['deleted_at'] = self.w.now
                    mine.append(c['spi_resp'])
                    self._c('children_deleted')
            if mine:
                out.append({'type': R.P_DELETE, 'proto': d['proto'], 'spis': mine})
        if not pls:
            self._c('liveness_answered')
        return out
