"""Man in the middle / Byzantine peer: sits on SimNet's path (world.net.mitm), may rewrite, swallow or answer datagrams.
Cleartext (IKE_SA_INIT) rewriting needs no keys; rewriting or forging protected messages uses the session keys the wiretap
derived on its own (which is what a peer - or a MITM that substituted both KE values - would hold)."""
import struct

from . import refike as R


class Interposer:
    def __init__(self, world, tap=None):
        self.w = world
        self.tap = tap
        self.rules = []          # callables (meta, data) -> None | list of (data, extra_latency)
        self.log = []            # (key, original, [rewritten...], label)
        self.counts = {}
        world.net.mitm = self._mitm

    def _mitm(self, meta, data):
        for rule in list(self.rules):
            out = rule(meta, data)
            if out is not None:
                label = getattr(rule, 'label', 'rewrite')
                self.counts[label] = self.counts.get(label, 0) + 1
                self.w.net._count('adv.mitm.' + label)
                self.log.append((meta['key'], bytes(data), [bytes(d) for d, _ in out], label))
                self.w.record(('mitm', meta['key'], label, len(out)))
                if self.tap is not None and hasattr(self.tap, 'note_rewrite'):
                    self.tap.note_rewrite(meta, data, [d for d, _ in out])
                return out
        return None

    # ---- helpers for protected messages (keys from the wiretap) -----------------------------------------
    def session(self, h):
        if self.tap is None:
            return None
        s = self.tap.sessions.get((h['spi_i'], h['spi_r']))
        return s if s is not None and s.keys is not None and not s.opaque else None

    def open(self, data):
        """(header, payload dicts, session) of a protected datagram, or None."""
        try:
            h = R.dec_header(data)
        except R.DecodeError:
            return None
        s = self.session(h)
        if s is None:
            return None
        a, e = (s.keys['ai'], s.keys['ei']) if h['I'] else (s.keys['ar'], s.keys['er'])
        try:
            hh, inner, info = R.sk_open(data, s.suite, a, e)
            return h, [R.dec_payload(p) for p in inner], s
        except R.DecodeError:
            return None

    def seal(self, s, h, payloads, iv):
        """A protected message as the peer described by h['I'] would send it on session s."""
        a, e = (s.keys['ai'], s.keys['ei']) if h['I'] else (s.keys['ar'], s.keys['er'])
        return R.sk_seal(h, payloads, s.suite, a, e, iv)
