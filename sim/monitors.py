"""Monitors shared by several checks."""
from .kernel import K
from . import configs


class Survival:
    """C17 core: a node thread may end only through the harness' own Shutdown/Crash."""

    def __init__(self, world, prop='C17', poison=True):
        self.w = world
        self.prop = prop
        self.poison = poison
        self.reported = set()
        self.last_cause = {}
        world.monitors.append(self)

    def before_step(self, node, cause):
        heads = [q.queue[0][0] for q in node.udp.values() if q.queue] if node.udp else []
        self.last_cause[node.name] = (cause, heads)

    def after_step(self, node, cause):
        junk = node.table_junk()
        if junk and (node.name, node.incarnation, 'junk') not in self.reported:
            self.reported.add((node.name, node.incarnation, 'junk'))
            self.w.violation(self.prop, 'ike_sa_table_corrupted', {'entry': type(junk[0]).__name__},
                             f'{node.name}: the IKE_SA table holds {len(junk)} entr{"y" if len(junk) == 1 else "ies"} that are no IKE_SA '
                             f'({[repr(x)[:40] for x in junk][:3]}): every sweep over the table and every SPI lookup behind it now raises')
            if self.poison:
                self.w.poisoned = True
            return
        if node.state != 'dead' or node.death is None or (node.name, node.incarnation) in self.reported:
            return
        self.reported.add((node.name, node.incarnation))
        kind = node.death[0]
        ck = cause[0] if isinstance(cause, tuple) else cause
        cause0, heads = self.last_cause.get(node.name, (None, []))
        trig = ck
        if ck in ('more', 'tick', 'unstall') and heads:
            trig = 'dgram'
        if kind == 'exception':
            sig = {'exception': node.death[3], 'where': node.death[4], 'trigger': trig}
            cls = 'daemon_died'
            detail = f'{node.name} main_loop ended with {node.death[1]} at {node.death[4]} (trigger {trig}); ' \
                     f'datagram(s): {[h.hex()[:120] for h in heads][:2]}'
        elif kind == 'hang':
            sig = {'trigger': trig}
            cls = 'daemon_hung'
            detail = f'{node.name} did not come back to select(): {node.death[1]}; datagram(s): {[h.hex()[:160] for h in heads][:2]}'
        else:
            sig = {'trigger': trig}
            cls = 'daemon_blocked'
            detail = f'{node.name} would block forever: {node.death[1]}'
        if node.start_error is not None and node.controller is None:
            cls = 'daemon_failed_to_start'
            sig = {'exception': node.start_error[0]}
        self.w.violation(self.prop, cls, sig, detail)
        if self.poison:
            self.w.poisoned = True


class Wedge:
    """C17 'keeps serving': an iteration that had nothing to read (a pure timer tick) has no input to blame an error on; when several
    consecutive idle ticks of a node all end in the loop's catch-all with the same error, the timer sweeps are not running any more
    (everything after the failing statement - DPD, rekey, retransmission of every other IKE_SA - is skipped in every iteration)."""
    N = 6

    def __init__(self, world, prop='C17'):
        self.w = world
        self.prop = prop
        self.run_len = {}
        self.step_errors = {}
        self.reported = set()
        world.monitors.append(self)

    def before_step(self, node, cause):
        self.step_errors[node.name] = []

    def on_log(self, node, level, msg):
        if level >= 40 and msg.startswith('Error while processing an event'):
            self.step_errors.setdefault(node.name, []).append(msg)

    def after_step(self, node, cause):
        ck = cause[0] if isinstance(cause, tuple) else cause
        errs = self.step_errors.get(node.name, [])
        if ck != 'tick':
            if not errs:
                self.run_len[node.name] = (None, 0)
            return
        if not errs:
            self.run_len[node.name] = (None, 0)
            return
        text = errs[-1][:200]
        last, n = self.run_len.get(node.name, (None, 0))
        n = n + 1 if last == text else 1
        self.run_len[node.name] = (text, n)
        if n >= self.N and (node.name, node.incarnation) not in self.reported:
            self.reported.add((node.name, node.incarnation))
            exc = text.split('Omitting it: ')[-1].split('(')[0]
            self.w.violation(self.prop, 'event_loop_wedged', {'exception': exc},
                             f'{node.name}: {n} consecutive idle timer ticks all ended in the catch-all with the same error ({text}); the timer '
                             f'sweeps no longer run to completion. table: {[(sa.state.name, len(sa.child_sas)) for sa in node.ike_sas()]}')
            self.w.poisoned = True


def data_plane_probe(world, a, b, flow):
    """Packet `flow` leaves node a's kernel and must be accepted by node b's kernel.
    Returns (ok, reason)."""
    ka, kb = world.nodes[a].kernel, world.nodes[b].kernel
    pol = ka.lookup_policy(flow, K['XFRM_POLICY_OUT'])
    if pol is None:
        return False, 'no outbound policy'
    ent = ka.find_sa_for(pol, flow)
    if ent is None:
        return False, 'no outbound SA'
    pkt = {'outer_src': ent['saddr_raw'], 'outer_dst': ent['daddr_raw'], 'proto': ent['proto'], 'spi': ent['spi'],
           'mode': ent['mode'], 'crypt': ent['crypt'], 'auth': ent['auth'], 'flow': flow, 'family': ent['family']}
    return kb.input(pkt)


def reverse_flow(flow):
    return dict(flow, saddr=flow['daddr'], daddr=flow['saddr'], sport=flow['dport'], dport=flow['sport'])


TYPE_NAMES = {K['XFRM_MSG_NEWSA']: 'NEWSA', K['XFRM_MSG_DELSA']: 'DELSA', K['XFRM_MSG_NEWPOLICY']: 'NEWPOLICY',
              K['XFRM_MSG_FLUSHSA']: 'FLUSHSA', K['XFRM_MSG_FLUSHPOLICY']: 'FLUSHPOLICY'}


def tracked_kernel_keys(node):
    """(daddr_raw, proto, spi) of both directions of every CHILD_SA of every IKE_SA in the node's table."""
    from .kernel import _addr_raw
    out = set()
    for sa in node.ike_sas():
        for ch in sa.child_sas:
            proto = K['IPPROTO_ESP'] if int(ch.proposal.protocol_id) == 3 else K['IPPROTO_AH']
            out.add((_addr_raw(sa.peer_addr), proto, bytes(ch.outbound_spi)))
            out.add((_addr_raw(sa.my_addr), proto, bytes(ch.inbound_spi)))
    return out


class LedgerInvariant:
    """C10: after every processed event the kernel SAD (additions minus deletions) equals the CHILD_SAs the daemon
    tracks."""

    def __init__(self, world, prop='C10', poison=True):
        self.w = world
        self.prop = prop
        self.poison = poison
        self.checks = 0
        self.nonempty = 0
        self.mark = {}
        self.ctx = {}
        self.nl_seen, self.nl_grace = {}, {}
        self.excused = {}          # node -> keys already reported under the refused-DELSA finding
        self.excused_idx = {}
        world.monitors.append(self)

    def before_step(self, node, cause):
        self.mark[node.name] = node.kernel.req_no
        heads = [q.queue[0][0] for q in node.udp.values() if q.queue] if node.udp else []
        self.ctx[node.name] = heads

    def after_step(self, node, cause):
        if node.state != 'running' or node.exited or node.controller is None:
            return
        if self.excused.get(node.name):
            # an excused SA is excused no longer once the daemon adds the same (daddr, proto, SPI) again: that is a new SA (the old one went
            # with its own hard lifetime; a peer re-using an SPI brings the triple back - quick survey of C10, seed 1002605)
            i0 = self.excused_idx.get(node.name, 0)
            for op, key, _, _ in node.kernel.ledger[i0:]:
                if op == 'add':
                    self.excused[node.name].discard(key)
        self.excused_idx[node.name] = len(node.kernel.ledger)
        led = node.kernel.ledger_set() - self.excused.get(node.name, set())
        trk = tracked_kernel_keys(node)
        if self.w.scenario.get('byz', {}).get('kind') == 'reuse_spi_request':
            # a peer that re-uses an SPI makes (daddr, proto, SPI) name two SAs in turn: once the daemon has added a triple twice, "additions
            # minus deletions" no longer says which of the two a DELSA removed (thorough soak of C14, seed 501016343); such triples are
            # left out, the twin-present case (EEXIST, nothing added twice) stays judged
            seen, twice = set(), set()
            for op, key, _, _ in node.kernel.ledger:
                if op == 'add':
                    (twice if key in seen else seen).add(key)
            led, trk = led - twice, trk - twice
        self.checks += 1
        if led or trk:
            self.nonempty += 1
        # a netlink transport fault (send() / recv() failing with ENOBUFS: not an answer of the kernel) may abort an event half-way; the daemon
        # gets until its next timer sweep to be in step again (a closed IKE_SA that could not be removed in one go is removed there)
        fired = getattr(node.kernel, 'nl_faults_fired', 0)
        ck0 = cause[0] if isinstance(cause, tuple) else cause
        if fired != self.nl_seen.get(node.name, 0):
            self.nl_seen[node.name] = fired
            self.nl_grace[node.name] = True
            if led != trk:
                return
        elif self.nl_grace.get(node.name):
            if led == trk or ck0 == 'tick':
                self.nl_grace[node.name] = False
            else:
                return
        if led == trk:
            return
        from .observe import parse_header, EXCH
        since = [r for r in node.kernel.requests if r['no'] > self.mark.get(node.name, 0)]
        inj = sorted({TYPE_NAMES.get(r['type'], str(r['type'])) for r in since if r.get('injected')})
        ck = cause[0] if isinstance(cause, tuple) else cause
        heads = self.ctx.get(node.name, [])
        h = parse_header(heads[0]) if heads else None
        trig = ck if not h else f'{EXCH.get(h["exch"], h["exch"])}.{"res" if h["R"] else "req"}'
        extra, missing = led - trk, trk - led
        cls = 'installed_but_untracked' if extra else 'tracked_but_absent'
        sig = {'trigger': trig, 'injected': '+'.join(inj) if inj else 'none'}
        if extra and not missing:
            # is every untracked SA one whose deletion the kernel refused (injected errno on that very DELSA)?
            refused = set()
            for r in node.kernel.requests:
                d = r.get('decoded')
                if r.get('injected') and d and d.get('kind') == 'delsa':
                    refused.add((d['id']['daddr_raw'], d['id']['proto'], d['id']['spi']))
            if extra <= refused:
                cls = 'installed_but_untracked_after_refused_delsa'
                sig = {}
        fmt = lambda ks: sorted(f'{k[0][:16].hex().rstrip("0") or "0"}/{k[1]}/{k[2].hex()}' for k in ks)
        self.w.violation(self.prop, cls, sig,
                         f'{node.name} after {trig} (injected kernel errors: {inj or "none"}): kernel has {fmt(extra)} untracked; '
                         f'daemon tracks {fmt(missing)} absent from the kernel; requests in this step: '
                         f'{[(TYPE_NAMES.get(r["type"], r["type"]), r["errno"]) for r in since]}')
        if cls == 'installed_but_untracked_after_refused_delsa':
            # recorded (known finding F17) and excused, so that the rest of the run is still judged
            self.excused.setdefault(node.name, set()).update(extra)
            return
        if self.poison:
            self.w.poisoned = True
