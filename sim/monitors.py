"""Monitors shared by several checks."""
from .kernel import K
from . import configs


class Survival:
    """C17 core: a node thread may end only through the harness' own Shutdown/Crash."""

    def __init__(self, world, prop='C17', poison=True):
        self.w = world
        self.prop = prop
        self.poison = poison
        self.reported = set()
        self.last_cause = {}
        world.monitors.append(self)

    def before_step(self, node, cause):
        heads = [q.queue[0][0] for q in node.udp.values() if q.queue] if node.udp else []
        self.last_cause[node.name] = (cause, heads)

    def after_step(self, node, cause):
        if node.state != 'dead' or node.death is None or (node.name, node.incarnation) in self.reported:
            return
        self.reported.add((node.name, node.incarnation))
        kind = node.death[0]
        ck = cause[0] if isinstance(cause, tuple) else cause
        cause0, heads = self.last_cause.get(node.name, (None, []))
        trig = ck
        if ck in ('more', 'tick', 'unstall') and heads:
            trig = 'dgram'
        if kind == 'exception':
            sig = {'exception': node.death[3], 'where': node.death[4], 'trigger': trig}
            cls = 'daemon_died'
            detail = f'{node.name} main_loop ended with {node.death[1]} at {node.death[4]} (trigger {trig}); ' \
                     f'datagram(s): {[h.hex()[:120] for h in heads][:2]}'
        elif kind == 'hang':
            sig = {'trigger': trig}
            cls = 'daemon_hung'
            detail = f'{node.name} did not come back to select(): {node.death[1]}; datagram(s): {[h.hex()[:160] for h in heads][:2]}'
        else:
            sig = {'trigger': trig}
            cls = 'daemon_blocked'
            detail = f'{node.name} would block forever: {node.death[1]}'
        if node.start_error is not None and node.controller is None:
            cls = 'daemon_failed_to_start'
            sig = {'exception': node.start_error[0]}
        self.w.violation(self.prop, cls, sig, detail)
        if self.poison:
            self.w.poisoned = True


def data_plane_probe(world, a, b, flow):
    """Packet `flow` leaves node a's kernel and must be accepted by node b's kernel.
    Returns (ok, reason)."""
    ka, kb = world.nodes[a].kernel, world.nodes[b].kernel
    pol = ka.lookup_policy(flow, K['XFRM_POLICY_OUT'])
    if pol is None:
        return False, 'no outbound policy'
    ent = ka.find_sa_for(pol, flow)
    if ent is None:
        return False, 'no outbound SA'
    pkt = {'outer_src': ent['saddr_raw'], 'outer_dst': ent['daddr_raw'], 'proto': ent['proto'], 'spi': ent['spi'],
           'mode': ent['mode'], 'crypt': ent['crypt'], 'auth': ent['auth'], 'flow': flow, 'family': ent['family']}
    return kb.input(pkt)


def reverse_flow(flow):
    return dict(flow, saddr=flow['daddr'], daddr=flow['saddr'], sport=flow['dport'], dport=flow['sport'])
