"""Byzantine peer behaviours played by the interposer (it holds the session keys the wiretap derived): answers and offers an
honest pyikev2 never produces.  Each factory returns (rule, verdict) where rule goes into Interposer.rules and verdict(world)
-> None | (class, signature, detail) is evaluated at the end of the run."""
import copy
import random
import struct

from . import refike as R
from .childcheck import newsa_index, PROTO_NUM
from .kernel import _addr_raw

KINDS_C11 = ('invalid_ke_never_offered', 'foreign_child_response', 'foreign_init_response', 'multi_proposal_request', 'foreign_ike_rekey_response', 'ke_unimplemented_group',
             'invalid_ke_cross_offer', 'esn_only_request')
KINDS_C10 = ('bad_reply', 'delete_child_on_rekeyed', 'delete_other_spi')
KINDS_C17 = ('auth_malformed',)
KINDS_C14 = ('reuse_spi_request', 'range_request')
KINDS_C12 = ('widen_response', 'flip_mode_response', 'ts_list_request', 'narrow_rekey_response', 'flip_mode_request', 'narrow_rekey_request', 'range_request')


def _rb(r, n):
    return bytes(r.getrandbits(8) for _ in range(n))


def _seal_raw(h, first, inner, suite, sk_a, sk_e, iv):
    """Reference SK sealing of arbitrary inner octets."""
    pad = (-(len(inner) + 1)) % 16
    ct = R.aes_cbc(sk_e, iv, inner + b'\0' * pad + bytes([pad]))
    body = iv + ct + b'\0' * suite.icv
    flags = (8 if h['I'] else 0) | (32 if h['R'] else 0)
    msg = bytearray(R.enc_header(h['spi_i'], h['spi_r'], R.P_SK, h['exch'], flags, h['id'], 28 + 4 + len(body)) +
                    struct.pack('>BBH', first, 0, 4 + len(body)) + body)
    msg[-suite.icv:] = R.integ(suite.integ, sk_a, bytes(msg[:-suite.icv]))
    return bytes(msg)


def _foreign_first(r, trs, offered):
    """Insert, in front of a chosen transform, one of the same type that was never offered (another identifier or key length)."""
    offered = offered or set()
    for t in r.sample(trs, len(trs)):
        if t['type'] == R.T_ENCR:
            cand = [(12, k) for k in (128, 192, 256) if (R.T_ENCR, 12, k) not in offered]
            if cand:
                i, k = r.choice(cand)
                trs.insert(trs.index(t), {'type': R.T_ENCR, 'id': i, 'keylen': k, 'attrs': [(14, k)]})
                return True
        elif t['type'] in (R.T_PRF, R.T_INTEG, R.T_DH):
            ids = {R.T_PRF: (2, 5, 7), R.T_INTEG: (2, 12, 14), R.T_DH: (14, 19, 20, 21)}[t['type']]
            cand = [i for i in ids if (t['type'], i, None) not in offered and i != t['id']]
            if cand:
                trs.insert(trs.index(t), {'type': t['type'], 'id': r.choice(cand), 'keylen': None, 'attrs': []})
                return True
    return False


def make(kind, seed, world, ip, tap, reach, opts=None):
    opts = dict(opts or {})
    r0 = random.Random(f'byz:{seed}')
    state = {'suggested': {}, 'tampered': [], 'n': 0}

    def count(k):
        reach[k] = reach.get(k, 0) + 1

    # ------------------------------------------------------------------------------------------------------------
    if kind == 'invalid_ke_never_offered':
        def rule(meta, data):
            try:
                h = R.dec_header(data)
            except R.DecodeError:
                return None
            r = random.Random(f'byz:{seed}:{meta["key"]}')
            if h['R']:
                return None
            if h['exch'] == R.IKE_SA_INIT:
                try:
                    pls = [R.dec_payload(p) for p in R.dec_chain(data[28:], h['next'])]
                except R.DecodeError:
                    return None
                s = None
            elif h['exch'] == R.CREATE_CHILD_SA:
                opened = ip.open(data)
                if opened is None:
                    return None
                _, pls, s = opened
            else:
                return None
            sa = next((p for p in pls if p['type'] == R.P_SA), None)
            ke = next((p for p in pls if p['type'] == R.P_KE), None)
            if sa is None or ke is None or not sa['proposals']:
                return None
            offered = {t['id'] for t in sa['proposals'][0]['transforms'] if t['type'] == R.T_DH}
            others = {t['id'] for t in sa['proposals'][0]['transforms'] if t['type'] != R.T_DH}
            keyid = (meta['sender'], h['spi_i'], h['exch'])
            prev = state['suggested'].get(keyid)
            if prev is not None and ke['group'] in prev and ke['group'] not in offered:
                state['verdict'] = ('never_offered_group_accepted', {'exchange': 'IKE_SA_INIT' if h['exch'] == 34 else 'CREATE_CHILD_SA'},
                                    f'{meta["sender"]} was told INVALID_KE_PAYLOAD({ke["group"]}) although it had offered only DH groups '
                                    f'{sorted(prev[ke["group"]])}, and re-sent its request with a KE in group {ke["group"]}')
            # suggest a group that was never offered; prefer numbers that collide with ids of OTHER transform types
            cands = [g for g in (14, 15, 16, 17, 18, 19, 20, 21) if g not in offered]
            if not cands:
                return None
            coll = [g for g in cands if g in others]
            n = r.choice(coll) if coll and r.random() < 0.7 else r.choice(cands)
            state['suggested'].setdefault(keyid, {})[n] = set(offered)
            count('byz.invalid_ke_suggested')
            notify = [{'type': R.P_NOTIFY, 'proto': 0, 'ntype': R.N_INVALID_KE_PAYLOAD, 'spi': b'', 'data': struct.pack('>H', n)}]
            if s is None:
                resp = R.encode({'spi_i': h['spi_i'], 'spi_r': _rb(r, 8), 'exch': 34, 'I': False, 'R': True, 'id': 0}, notify)
            else:
                resp = ip.seal(s, {'spi_i': h['spi_i'], 'spi_r': h['spi_r'], 'exch': h['exch'], 'I': not h['I'], 'R': True, 'id': h['id']}, notify, _rb(r, 16))
            world.net.inject(resp, meta['dst'], meta['src'], 0.01, 'byz.invalid_ke')
            return []
        rule.label = 'byz.' + kind
        return rule, lambda w: state.get('verdict')

    # ------------------------------------------------------------------------------------------------------------
    if kind == 'esn_only_request':
        # a peer that insists on extended sequence numbers (ESN = 1 only) for its CHILD_SAs: a policy that requires "no ESN" has no
        # transform of that type in common with it - NO_PROPOSAL_CHOSEN, not a suite with the type left out
        def rule(meta, data):
            try:
                h = R.dec_header(data)
            except R.DecodeError:
                return None
            if h['R'] or h['exch'] not in (R.IKE_AUTH, R.CREATE_CHILD_SA):
                return None
            opened = ip.open(data)
            if opened is None:
                return None
            _, pls, s = opened
            sa = next((p for p in pls if p['type'] == R.P_SA), None)
            if sa is None or not sa['proposals'] or sa['proposals'][0]['proto'] == R.PROTO_IKE:
                return None
            r = random.Random(f'byz:{seed}:{meta["key"]}')
            if r.random() < 0.3:
                return None
            n = 0
            for pr in sa['proposals']:
                for t in pr['transforms']:
                    if t['type'] == R.T_ESN and t['id'] == 0:
                        t['id'] = 1
                        n += 1
            if not n:
                return None
            count('byz.' + kind)
            new = ip.seal(s, {'spi_i': h['spi_i'], 'spi_r': h['spi_r'], 'exch': h['exch'], 'I': h['I'], 'R': False, 'id': h['id']}, pls, _rb(r, 16))
            return [(new, 0.0)]
        rule.label = 'byz.' + kind
        return rule, lambda w: None

    # ------------------------------------------------------------------------------------------------------------
    if kind == 'invalid_ke_cross_offer':
        # the peer answers a request to rekey the IKE_SA with INVALID_KE_PAYLOAD naming a group the requester did offer - but for a
        # CHILD_SA (PFS), earlier on this IKE_SA, not in this request: "a suggested group that was never offered is refused" is about the
        # offer of the exchange at hand
        state['child_groups'] = {}

        def rule(meta, data):
            try:
                h = R.dec_header(data)
            except R.DecodeError:
                return None
            if h['R'] or h['exch'] != R.CREATE_CHILD_SA:
                return None
            opened = ip.open(data)
            if opened is None:
                return None
            _, pls, s = opened
            sa = next((p for p in pls if p['type'] == R.P_SA), None)
            ke = next((p for p in pls if p['type'] == R.P_KE), None)
            if sa is None or not sa['proposals']:
                return None
            r = random.Random(f'byz:{seed}:{meta["key"]}')
            groups = {t['id'] for pr in sa['proposals'] for t in pr['transforms'] if t['type'] == R.T_DH}
            if sa['proposals'][0]['proto'] != R.PROTO_IKE:
                state['child_groups'].setdefault(meta['sender'], set()).update(groups)
                return None
            if ke is None:
                return None
            keyid = (meta['sender'], h['spi_i'], h['spi_r'])
            prev = state['suggested'].get(keyid)
            if prev is not None and ke['group'] in prev and ke['group'] not in groups:
                state['verdict'] = ('never_offered_group_accepted', {'exchange': 'CREATE_CHILD_SA', 'what': 'IKE_SA rekey, group of an earlier CHILD_SA offer'},
                                    f'{meta["sender"]} was told INVALID_KE_PAYLOAD({ke["group"]}) for its IKE_SA rekey although that request offered only DH '
                                    f'groups {sorted(prev[ke["group"]])} (the group was offered for a CHILD_SA earlier), and re-sent the request with a KE in group {ke["group"]}')
                return None
            cands = sorted(g for g in state['child_groups'].get(meta['sender'], ()) if g not in groups)
            if not cands or prev is not None:
                return None
            n = r.choice(cands)
            state['suggested'].setdefault(keyid, {})[n] = set(groups)
            count('byz.invalid_ke_cross_offer')
            notify = [{'type': R.P_NOTIFY, 'proto': 0, 'ntype': R.N_INVALID_KE_PAYLOAD, 'spi': b'', 'data': struct.pack('>H', n)}]
            resp = ip.seal(s, {'spi_i': h['spi_i'], 'spi_r': h['spi_r'], 'exch': h['exch'], 'I': not h['I'], 'R': True, 'id': h['id']}, notify, _rb(r, 16))
            world.net.inject(resp, meta['dst'], meta['src'], 0.01, 'byz.invalid_ke')
            return []
        rule.label = 'byz.' + kind
        return rule, lambda w: state.get('verdict')

    # ------------------------------------------------------------------------------------------------------------
    if kind in ('foreign_child_response', 'widen_response', 'flip_mode_response', 'narrow_rekey_response'):
        flip_rekeys_only = r0.random() < 0.5

        def rule(meta, data):
            try:
                h = R.dec_header(data)
            except R.DecodeError:
                return None
            if not h['R'] or h['exch'] not in (R.IKE_AUTH, R.CREATE_CHILD_SA):
                return None
            opened = ip.open(data)
            if opened is None:
                return None
            _, pls, s = opened
            sa = next((p for p in pls if p['type'] == R.P_SA), None)
            tsi = next((p for p in pls if p['type'] == R.P_TSi), None)
            tsr = next((p for p in pls if p['type'] == R.P_TSr), None)
            if sa is None or tsi is None or tsr is None or not sa['proposals'] or sa['proposals'][0]['proto'] == R.PROTO_IKE:
                return None
            r = random.Random(f'byz:{seed}:{meta["key"]}')
            req = s.requests.get((not h['I'], h['id']))
            sa_q = next((p for p in req['payloads'] if p['type'] == R.P_SA), None) if req else None
            what = None
            if kind == 'foreign_child_response':
                trs = sa['proposals'][0]['transforms']
                offered = {(t['type'], t['id'], t['keylen']) for t in sa_q['proposals'][0]['transforms']} if sa_q else set()
                how = r.choice(['extra', 'foreign_id', 'keylen', 'missing', 'two_of_one'])
                if how == 'extra':
                    # a DH transform that is not already in the response (a verbatim duplicate of a chosen transform does not change the suite:
                    # thorough soak, seed 501007964)
                    have = {t['id'] for t in trs if t['type'] == R.T_DH}
                    trs.append({'type': R.T_DH, 'id': next(i for i in r.sample([14, 19, 20, 21], 4) if i not in have), 'keylen': None, 'attrs': []})
                elif how == 'foreign_id':
                    t = next((t for t in trs if t['type'] == R.T_INTEG), trs[0])
                    t['id'] = next(i for i in (2, 12, 14, 5) if (t['type'], i, None) not in offered)
                elif how == 'keylen':
                    t = next((t for t in trs if t['type'] == R.T_ENCR), None)
                    if t is None:
                        return None
                    t['keylen'] = 128 if t['keylen'] == 256 else 256
                    t['attrs'] = [(14, t['keylen'])]
                    if (R.T_ENCR, 12, t['keylen']) in offered:
                        return None
                elif how == 'missing':
                    t = next((t for t in trs if t['type'] in (R.T_INTEG, R.T_ESN)), None)
                    if t is None or len(trs) < 2:
                        return None
                    trs.remove(t)
                else:
                    t = next((t for t in trs if t['type'] == R.T_INTEG), trs[0])
                    other = next((i for i in (2, 12, 14) if i != t['id']), 2)
                    trs.append({'type': t['type'], 'id': other, 'keylen': None, 'attrs': []})
                what = 'proposal not drawn from the offer (' + how + ')'
            elif kind == 'narrow_rekey_response':
                # a legal narrowing - but of a rekey, whose selectors must stay those of the replaced CHILD_SA
                if req is None or not any(p['type'] == R.P_NOTIFY and p['ntype'] == R.N_REKEY_SA for p in req['payloads']):
                    return None
                which = r.choice(['tsi', 'tsr', 'both'])
                done = False
                for name, p in (('tsi', tsi), ('tsr', tsr)):
                    if which in (name, 'both') and p['selectors']:
                        sel = p['selectors'][0]
                        n = len(sel['saddr'])
                        a, z = int.from_bytes(sel['saddr'], 'big'), int.from_bytes(sel['eaddr'], 'big')
                        how = r.choice(['half', 'port', 'proto'])
                        if how == 'half' and z > a:
                            sel['eaddr'] = (a + (z - a) // 2).to_bytes(n, 'big')
                            done = True
                        elif how == 'port' and (sel['sport'], sel['eport']) == (0, 65535):
                            sel['sport'] = sel['eport'] = 443
                            done = True
                        elif how == 'proto' and sel['proto'] == 0:
                            sel['proto'] = 6
                            done = True
                if not done:
                    return None
                what = f'rekey selectors narrowed ({which})'
                if r.random() < 0.5:
                    # ... by a responder that does not echo the REKEY_SA notification (RFC 7296 wants it in the request only)
                    pls[:] = [p for p in pls if not (p['type'] == R.P_NOTIFY and p['ntype'] == R.N_REKEY_SA)]
                    count('byz.narrow_rekey_response.no_rekey_sa_echo')
            elif kind == 'widen_response':
                which = r.choice(['tsi', 'tsr', 'both'])
                honest = {'tsi': copy.deepcopy(tsi['selectors']), 'tsr': copy.deepcopy(tsr['selectors'])}
                for name, p in (('tsi', tsi), ('tsr', tsr)):
                    if which in (name, 'both') and p['selectors']:
                        sel = p['selectors'][0]
                        n = len(sel['saddr'])
                        how = r.choice(['all_addresses', 'all_ports', 'any_proto', 'one_more', 'port_range_up'])
                        if how == 'port_range_up':
                            if sel['sport'] == sel['eport'] and 0 < sel['sport'] < 65535:
                                sel['eport'] = min(65535, sel['sport'] + r.choice([1, 57, 8000]))
                            else:
                                how = 'one_more'
                        if how == 'port_range_up':
                            pass
                        elif how == 'all_addresses':
                            sel['saddr'], sel['eaddr'] = b'\0' * n, b'\xff' * n
                        elif how == 'all_ports':
                            if (sel['sport'], sel['eport']) == (0, 65535):
                                sel['saddr'], sel['eaddr'] = b'\0' * n, b'\xff' * n
                            sel['sport'], sel['eport'] = 0, 65535
                        elif how == 'any_proto':
                            if sel['proto'] == 0:
                                sel['saddr'], sel['eaddr'] = b'\0' * n, b'\xff' * n
                            sel['proto'] = 0
                        else:
                            v = int.from_bytes(sel['eaddr'], 'big')
                            if v + 1 >= 1 << (8 * n):
                                sel['saddr'] = b'\0' * n
                            else:
                                sel['eaddr'] = (v + 1).to_bytes(n, 'big')
                # wider than the responder's own answer is not enough: it must leave what the initiator proposed
                from .wiretap import ts_subset
                q_tsi = next((p for p in req['payloads'] if p['type'] == R.P_TSi), None) if req else None
                q_tsr = next((p for p in req['payloads'] if p['type'] == R.P_TSr), None) if req else None
                if q_tsi is None or q_tsr is None:
                    return None
                if (tsi['selectors'] and tsr['selectors'] and any(ts_subset(tsi['selectors'][0], x) for x in q_tsi['selectors'])
                        and any(ts_subset(tsr['selectors'][0], x) for x in q_tsr['selectors'])):
                    count('byz.widen_still_inside_offer')
                    return None
                what = f'selectors widened ({which})'
                if r.random() < 0.35:
                    # the answer of the honest responder is listed behind the wide selector: what is installed is the first one
                    for name, p in (('tsi', tsi), ('tsr', tsr)):
                        if which in (name, 'both') and p['selectors']:
                            p['selectors'] = [p['selectors'][0]] + honest[name]
                    count('byz.widen_honest_listed_behind')
                    what = f'selectors widened ({which}, the honest selector listed behind the wide one)'
            else:
                if flip_rekeys_only and (req is None or not any(p['type'] == R.P_NOTIFY and p['ntype'] == R.N_REKEY_SA for p in req['payloads'])):
                    return None          # half of the runs leave the CHILD_SAs come into being and tamper only with the answers to rekeys
                has = [p for p in pls if p['type'] == R.P_NOTIFY and p['ntype'] == R.N_USE_TRANSPORT_MODE]
                if has:
                    pls.remove(has[0])
                else:
                    pls.insert(0, {'type': R.P_NOTIFY, 'proto': 0, 'ntype': R.N_USE_TRANSPORT_MODE, 'spi': b'', 'data': b''})
                what = 'mode flipped'
            new = ip.seal(s, {'spi_i': h['spi_i'], 'spi_r': h['spi_r'], 'exch': h['exch'], 'I': h['I'], 'R': True, 'id': h['id']}, pls, _rb(r, 16))
            recv = world.net.node_of_addr(meta['dst'])
            spi_q = sa_q['proposals'][0]['spi'] if sa_q else None
            state['tampered'].append({'receiver': recv.name if recv else None, 'receiver_addr': meta['dst'], 'peer_addr': meta['src'],
                                      'proto': sa['proposals'][0]['proto'], 'spi_resp': sa['proposals'][0]['spi'], 'spi_init': spi_q, 'what': what,
                                      'exch': h['exch']})
            count('byz.' + kind)
            extra = 0.0
            if kind == 'narrow_rekey_response' and r.random() < 0.5:
                # ... and the peer's DELETE of the CHILD_SA being rekeyed overtakes the (delayed) rekey response: the initiator has already
                # dropped the old CHILD_SA when the response arrives, which must still be judged as the answer to a rekey
                rk = next((p for p in req['payloads'] if p['type'] == R.P_NOTIFY and p['ntype'] == R.N_REKEY_SA), None)
                old = next((c for c in tap.children if rk is not None and rk['spi'] in (c['spi_init'], c['spi_resp'])), None)
                if old is not None:
                    mine = old['spi_resp'] if rk['spi'] == old['spi_init'] else old['spi_init']      # the SPI the responder of this rekey receives on
                    ids = [i for (flag, i) in s.requests if flag == h['I']]
                    dele = ip.seal(s, {'spi_i': h['spi_i'], 'spi_r': h['spi_r'], 'exch': R.INFORMATIONAL, 'I': h['I'], 'R': False,
                                       'id': (max(ids) + 1) if ids else 0},
                                   [{'type': R.P_DELETE, 'proto': rk['proto'], 'spis': [mine]}], _rb(r, 16))
                    world.net.inject(dele, meta['src'], meta['dst'], 0.005, 'byz.delete_overtakes_rekey_response')
                    extra = 0.6
                    count('byz.delete_overtakes_rekey_response')
            return [(new, extra)]
        rule.label = 'byz.' + kind

        def verdict(w):
            for t in state['tampered']:
                node = w.nodes.get(t['receiver'])
                if node is None:
                    continue
                idx = newsa_index(node)
                proto = PROTO_NUM.get(t['proto'])
                k_out = (_addr_raw(t['peer_addr']), proto, t['spi_resp'])
                k_in = (_addr_raw(t['receiver_addr']), proto, t['spi_init']) if t['spi_init'] else None
                if k_out in idx or (k_in is not None and k_in in idx):
                    return ('tampered_response_installed', {'what': t['what'].split(' (')[0], 'exchange': 'IKE_AUTH' if t['exch'] == 35 else 'CREATE_CHILD_SA'},
                            f'{t["receiver"]} installed the CHILD_SA {t["spi_init"].hex() if t["spi_init"] else "?"}/{t["spi_resp"].hex()} although the '
                            f'response it received had its {t["what"]}')
            return None
        return rule, verdict

    # ------------------------------------------------------------------------------------------------------------
    if kind == 'foreign_init_response':
        state['offers'] = {}

        def rule(meta, data):
            try:
                h = R.dec_header(data)
                if h['exch'] == R.IKE_SA_INIT and not h['R']:
                    q = next((R.dec_payload(p) for p in R.dec_chain(data[28:], h['next']) if p['type'] == R.P_SA), None)
                    if q is not None and q['proposals']:
                        state['offers'][h['spi_i']] = {(t['type'], t['id'], t['keylen']) for t in q['proposals'][0]['transforms']}
                if h['exch'] == R.IKE_AUTH and not h['R'] and h['id'] == 1:
                    # the initiator went on with the exchange: it did not refuse the response
                    for t in state['tampered']:
                        if (t['spi_i'], t['spi_r']) == (h['spi_i'], h['spi_r']) and meta['sender'] == t['receiver'] and 'went_on' not in t:
                            t['went_on'] = world.now
                if h['exch'] != R.IKE_SA_INIT or not h['R']:
                    return None
                pls = [R.dec_payload(p) for p in R.dec_chain(data[28:], h['next'])]
            except R.DecodeError:
                return None
            sa = next((p for p in pls if p['type'] == R.P_SA), None)
            if sa is None:
                return None
            r = random.Random(f'byz:{seed}:{meta["key"]}')
            trs = sa['proposals'][0]['transforms']
            how = r.choice(['extra', 'two_of_one', 'missing', 'keylen', 'foreign_first'])
            if how == 'extra':
                trs.append({'type': R.T_ESN, 'id': 0, 'keylen': None, 'attrs': []})
            elif how == 'foreign_first':
                _foreign_first(r, trs, state['offers'].get(h['spi_i']))
            elif how == 'two_of_one':
                t = next(t for t in trs if t['type'] == R.T_PRF)
                trs.append({'type': R.T_PRF, 'id': next(i for i in (2, 5, 7) if i != t['id']), 'keylen': None, 'attrs': []})
            elif how == 'missing':
                trs.remove(next(t for t in trs if t['type'] == R.T_INTEG))
            else:
                t = next(t for t in trs if t['type'] == R.T_ENCR)
                t['keylen'] = 192
                t['attrs'] = [(14, 192)]
            recv = world.net.node_of_addr(meta['dst'])
            state['tampered'].append({'receiver': recv.name if recv else None, 'spi_i': h['spi_i'], 'spi_r': h['spi_r'], 'what': how})
            count('byz.foreign_init_response')
            return [(R.encode({'spi_i': h['spi_i'], 'spi_r': h['spi_r'], 'exch': 34, 'I': False, 'R': True, 'id': 0}, pls), 0.0)]
        rule.label = 'byz.' + kind

        def verdict(w):
            for t in state['tampered']:
                node = w.nodes.get(t['receiver'])
                if 'went_on' in t:
                    return ('foreign_ike_response_accepted', {'what': t['what'], 'how': 'IKE_AUTH sent'},
                            f'{t["receiver"]} answered the IKE_SA_INIT response of {t["spi_i"].hex()}/{t["spi_r"].hex()}, whose proposal is not drawn '
                            f'from its offer ({t["what"]}), with an IKE_AUTH request at t={t["went_on"]:.2f} instead of refusing it')
                for e in getattr(w, 'established_log', []):
                    if e['node'] == t['receiver'] and e['spi_i'] == t['spi_i'] and e['spi_r'] == t['spi_r']:
                        return ('foreign_ike_response_accepted', {'what': t['what']},
                                f'{t["receiver"]} established IKE_SA {t["spi_i"].hex()} although the IKE_SA_INIT response it received carried a '
                                f'proposal not drawn from its offer ({t["what"]})')
            return None
        return rule, verdict

    # ------------------------------------------------------------------------------------------------------------
    if kind == 'ke_unimplemented_group':
        # an initiator that also knows DH groups this implementation does not have (curve25519 = 31, MODP-1024 = 2, MODP-1536 = 5, brainpool = 28),
        # prefers one of them and guesses it for its KE payload, while its offer still shares a group with the responder: the answer is
        # INVALID_KE_PAYLOAD naming the chosen common group (RFC 7296 1.2 / 3.4), for IKE_SA_INIT and for an IKE_SA rekey
        p_hit = r0.choice([0.5, 1.0])
        seen = set()

        def rule(meta, data):
            try:
                h = R.dec_header(data)
            except R.DecodeError:
                return None
            if h['R']:
                return None
            if h['exch'] == R.IKE_SA_INIT:
                try:
                    pls = [R.dec_payload(p) for p in R.dec_chain(data[28:], h['next'])]
                except R.DecodeError:
                    return None
                s = None
            elif h['exch'] == R.CREATE_CHILD_SA:
                opened = ip.open(data)
                if opened is None:
                    return None
                _, pls, s = opened
            else:
                return None
            sa = next((p for p in pls if p['type'] == R.P_SA), None)
            ke = next((p for p in pls if p['type'] == R.P_KE), None)
            if sa is None or ke is None or not sa['proposals'] or sa['proposals'][0]['proto'] != R.PROTO_IKE:
                return None
            keyid = (meta['sender'], h['spi_i'], h['exch'])
            r = random.Random(f'byz:{seed}:{meta["key"]}')
            if keyid in seen or r.random() >= p_hit:
                return None          # once per negotiation: the retry with the named group goes through untouched
            seen.add(keyid)
            g = r.choice([31, 31, 2, 5, 28])
            for pr in sa['proposals']:
                i = next((i for i, t in enumerate(pr['transforms']) if t['type'] == R.T_DH), len(pr['transforms']))
                pr['transforms'].insert(i, {'type': R.T_DH, 'id': g, 'keylen': None, 'attrs': []})
            ke['group'], ke['data'] = g, _rb(r, {31: 32, 2: 128, 5: 192, 28: 64}[g])
            count('byz.' + kind)
            if s is None:
                new = R.encode({'spi_i': h['spi_i'], 'spi_r': h['spi_r'], 'exch': 34, 'I': True, 'R': False, 'id': h['id']}, pls)
            else:
                new = ip.seal(s, {'spi_i': h['spi_i'], 'spi_r': h['spi_r'], 'exch': h['exch'], 'I': h['I'], 'R': False, 'id': h['id']}, pls, _rb(r, 16))
            return [(new, 0.0)]
        rule.label = 'byz.' + kind
        return rule, lambda w: None

    # ------------------------------------------------------------------------------------------------------------
    if kind == 'foreign_ike_rekey_response':
        # the responder of an IKE_SA rekey (authentic: it holds the session keys) answers with a proposal that is not drawn from the offer
        def rule(meta, data):
            try:
                h = R.dec_header(data)
            except R.DecodeError:
                return None
            if not h['R'] or h['exch'] != R.CREATE_CHILD_SA:
                return None
            opened = ip.open(data)
            if opened is None:
                return None
            _, pls, s = opened
            sa = next((p for p in pls if p['type'] == R.P_SA), None)
            req = s.requests.get((not h['I'], h['id']))
            sa_q = next((p for p in req['payloads'] if p['type'] == R.P_SA), None) if req else None
            if sa is None or sa_q is None or not sa['proposals'] or sa['proposals'][0]['proto'] != R.PROTO_IKE or not sa_q['proposals']:
                return None
            r = random.Random(f'byz:{seed}:{meta["key"]}')
            trs = sa['proposals'][0]['transforms']
            offered = {(t['type'], t['id'], t['keylen']) for t in sa_q['proposals'][0]['transforms']}
            how = r.choice(['foreign_first', 'foreign_first', 'two_of_one', 'missing', 'keylen', 'foreign_id'])
            if how == 'foreign_first':
                if not _foreign_first(r, trs, offered):
                    return None
            elif how == 'two_of_one':
                t = next(t for t in trs if t['type'] == R.T_PRF)
                trs.append({'type': R.T_PRF, 'id': next(i for i in (2, 5, 7) if (R.T_PRF, i, None) not in offered), 'keylen': None, 'attrs': []})
            elif how == 'missing':
                t = next((t for t in trs if t['type'] == R.T_INTEG), None)
                if t is None:
                    return None
                trs.remove(t)
            elif how == 'keylen':
                t = next(t for t in trs if t['type'] == R.T_ENCR)
                t['keylen'] = next((k for k in (192, 128, 256) if (R.T_ENCR, t['id'], k) not in offered), None)
                if t['keylen'] is None:
                    return None
                t['attrs'] = [(14, t['keylen'])]
            else:
                t = next(t for t in trs if t['type'] == R.T_INTEG)
                t['id'] = next((i for i in (2, 12, 14, 5) if (R.T_INTEG, i, None) not in offered), None)
                if t['id'] is None:
                    return None
            new = ip.seal(s, {'spi_i': h['spi_i'], 'spi_r': h['spi_r'], 'exch': h['exch'], 'I': h['I'], 'R': True, 'id': h['id']}, pls, _rb(r, 16))
            recv = world.net.node_of_addr(meta['dst'])
            state['tampered'].append({'receiver': recv.name if recv else None, 'new_i': sa_q['proposals'][0]['spi'], 'new_r': sa['proposals'][0]['spi'],
                                      'what': how})
            count('byz.' + kind)
            count('byz.' + kind + '.' + how)
            return [(new, 0.0)]
        rule.label = 'byz.' + kind

        class Accepted:
            def after_step(self, node, cause):
                if state.get('verdict'):
                    return
                for t in state['tampered']:
                    if t['receiver'] != node.name:
                        continue
                    for sa in node.ike_sas():
                        if (bytes(sa.my_spi), bytes(sa.peer_spi)) == (t['new_i'], t['new_r']):
                            state['verdict'] = ('foreign_ike_response_accepted', {'what': t['what'], 'how': 'IKE_SA rekey'},
                                                f'{node.name} created the rekeyed IKE_SA {t["new_i"].hex()}/{t["new_r"].hex()} from a CREATE_CHILD_SA '
                                                f'response whose proposal is not drawn from its offer ({t["what"]})')
        world.monitors.append(Accepted())
        return rule, lambda w: state.get('verdict')

    # ------------------------------------------------------------------------------------------------------------
    if kind == 'auth_malformed':
        # a peer that is authenticated (holds the session keys) but sends protected messages whose content is malformed: field lengths the
        # specification forbids, values out of range, missing / duplicated payloads, or octets of the plaintext damaged before sealing
        p_hit = r0.choice([0.1, 0.25, 0.6])
        until = world.scenario.get('quiet_from')
        MUTS = ('sa_spi_len', 'decoy_then_bad_spi', 'decoy_then_bad_spi', 'ke_len', 'ke_value', 'nonce_len', 'ts_inverted', 'ts_odd', 'ts_empty', 'delete_spi_size', 'delete_unknown',
                'notify_spi', 'notify_data', 'dup_payload', 'drop_payload', 'proposal_odd', 'id_odd', 'auth_odd', 'raw_flip', 'raw_trunc',
                'add_delete', 'add_rekey_notify', 'unknown_critical', 'swap_exchange')

        def rule(meta, data):
            if until is not None and world.now >= until:
                return None
            try:
                h = R.dec_header(data)
            except R.DecodeError:
                return None
            if h['exch'] == R.IKE_SA_INIT:
                return None
            r = random.Random(f'byz:{seed}:{meta["key"]}')
            if r.random() >= p_hit:
                return None
            opened = ip.open(data)
            if opened is None:
                return None
            _, pls, s = opened
            rb = lambda n: _rb(r, n)
            hd = {'spi_i': h['spi_i'], 'spi_r': h['spi_r'], 'exch': h['exch'], 'I': h['I'], 'R': h['R'], 'id': h['id']}
            find = lambda *ts: next((p for p in pls if p['type'] in ts), None)
            raw = None
            for _ in range(6):
                m = r.choice(MUTS)
                sa, ke, no, tsi = find(R.P_SA), find(R.P_KE), find(R.P_NONCE), find(R.P_TSi, R.P_TSr)
                if m == 'sa_spi_len' and sa and sa['proposals']:
                    sa['proposals'][r.randrange(len(sa['proposals']))]['spi'] = rb(r.choice([0, 1, 3, 5, 7, 8, 9, 16, 255]))
                elif m == 'decoy_then_bad_spi' and sa and sa['proposals'] and sa['proposals'][0]['proto'] != R.PROTO_IKE:
                    # several proposals: a well-formed first one nobody can accept (other protocol / unsupported integrity), then the acceptable
                    # one with an SPI of a forbidden size - what is checked on the first proposal says nothing about the one that is chosen
                    good = sa['proposals'][0]
                    decoy = copy.deepcopy(good)
                    if r.random() < 0.5:
                        decoy['proto'] = R.PROTO_AH if good['proto'] == R.PROTO_ESP else R.PROTO_ESP
                    else:
                        for t in decoy['transforms']:
                            if t['type'] == R.T_INTEG:
                                t['id'] = 5
                    decoy['spi'] = rb(4)
                    good['spi'] = rb(r.choice([0, 1, 3, 5, 8, 16]))
                    decoy['num'], good['num'] = 1, 2
                    sa['proposals'] = [decoy, good]
                elif m == 'ke_len' and ke:
                    ke['data'] = r.choice([b'', ke['data'][:-1], ke['data'] + b'\0', ke['data'][:1], ke['data'] * 2])
                elif m == 'ke_value' and ke:
                    ke['data'] = r.choice([b'\0' * len(ke['data']), b'\xff' * len(ke['data']), b'\0' * (len(ke['data']) - 1) + b'\1'])
                elif m == 'nonce_len' and no:
                    no['data'] = rb(r.choice([0, 1, 15, 257, 2000]))
                elif m == 'ts_inverted' and tsi and tsi['selectors']:
                    sel = r.choice(tsi['selectors'])
                    if r.random() < 0.5:
                        sel['saddr'], sel['eaddr'] = b'\xff' * len(sel['saddr']), b'\0' * len(sel['saddr'])
                    else:
                        sel['sport'], sel['eport'] = 65535, 0
                elif m == 'ts_odd' and tsi and tsi['selectors']:
                    sel = r.choice(tsi['selectors'])
                    how = r.choice(['type', 'addrlen', 'proto'])
                    if how == 'type':
                        sel['ts_type'] = r.choice([0, 9, 255, 8 if sel['ts_type'] == 7 else 7])
                    elif how == 'addrlen':
                        n = r.choice([0, 3, 5, 15, 17])
                        sel['saddr'], sel['eaddr'] = rb(n), rb(n)
                    else:
                        sel['proto'] = r.choice([1, 58, 255])
                elif m == 'ts_empty' and tsi:
                    tsi['selectors'] = []
                elif m in ('delete_spi_size', 'delete_unknown', 'add_delete'):
                    d = find(R.P_DELETE)
                    if d is None:
                        if m != 'add_delete' or h['exch'] != R.INFORMATIONAL:
                            continue
                        d = {'type': R.P_DELETE, 'proto': r.choice([1, 2, 3, 0, 9]), 'spis': [rb(4) for _ in range(r.randint(0, 3))]}
                        if d['proto'] == 1 and r.random() < 0.5:
                            d['spis'] = []
                        pls.append(d)
                    elif m == 'delete_spi_size':
                        d['spi_size'] = r.choice([0, 1, 3, 5, 8, 255])
                    else:
                        d['spis'] = [rb(4) for _ in range(r.randint(1, 40))]
                        d['proto'] = r.choice([d['proto'], 1, 2, 3, 0])
                elif m == 'notify_spi':
                    n = find(R.P_NOTIFY)
                    if n is None:
                        continue
                    n['spi'] = rb(r.choice([0, 1, 3, 5, 8, 16]))
                    n['proto'] = r.choice([n['proto'], 0, 1, 2, 3, 200])
                elif m == 'notify_data':
                    pls.insert(r.randrange(len(pls) + 1), {'type': R.P_NOTIFY, 'proto': r.choice([0, 1, 3]), 'spi': b'',
                                                          'ntype': r.choice([1, 4, 7, 9, 11, 14, 17, 24, 34, 35, 36, 38, 39, 43, 44, 16390, 16391, 16393, 16394, 16404, 65535]),
                                                          'data': rb(r.choice([0, 1, 2, 3, 32]))})
                elif m == 'add_rekey_notify':
                    pls.insert(0, {'type': R.P_NOTIFY, 'proto': r.choice([3, 2, 1, 0]), 'spi': rb(r.choice([4, 4, 8, 0])), 'ntype': R.N_REKEY_SA, 'data': b''})
                elif m == 'dup_payload' and pls:
                    i = r.randrange(len(pls))
                    pls.insert(i, copy.deepcopy(pls[i]))
                elif m == 'drop_payload' and pls:
                    pls.pop(r.randrange(len(pls)))
                elif m == 'proposal_odd' and sa and sa['proposals']:
                    pr = r.choice(sa['proposals'])
                    how = r.choice(['num', 'proto', 'no_transforms', 'unknown_type', 'unknown_id', 'many', 'attr'])
                    if how == 'num':
                        pr['num'] = r.choice([0, 2, 255])
                    elif how == 'proto':
                        pr['proto'] = r.choice([0, 1, 2, 3, 4, 255])
                    elif how == 'no_transforms':
                        pr['transforms'] = []
                    elif how == 'unknown_type':
                        r.choice(pr['transforms'])['type'] = r.choice([0, 6, 7, 255])
                    elif how == 'unknown_id':
                        r.choice(pr['transforms'])['id'] = r.choice([0, 1, 999, 65535])
                    elif how == 'many':
                        pr['transforms'] = (pr['transforms'] * 40)[:200]
                    else:
                        t = r.choice(pr['transforms'])
                        t['attrs'] = [(14, r.choice([0, 1, 64, 129, 65535]))] if r.random() < 0.5 else [(r.choice([1, 14, 15]), rb(r.choice([0, 1, 7])))]
                elif m == 'id_odd':
                    i = find(R.P_IDi, R.P_IDr)
                    if i is None:
                        continue
                    i['id_type'] = r.choice([0, 1, 2, 3, 5, 9, 11, 200])
                    i['data'] = r.choice([b'', i['data'], rb(3), rb(17), b'\xff\xfe' * 4])
                elif m == 'auth_odd':
                    a = find(R.P_AUTH)
                    if a is None:
                        continue
                    a['method'] = r.choice([0, 1, 2, 3, 9, 14, 255])
                    a['data'] = r.choice([b'', a['data'][:-1], a['data'] + b'\0', rb(20)])
                elif m == 'unknown_critical':
                    pls.insert(r.randrange(len(pls) + 1), {'type': r.choice([1, 32, 49, 53, 200, 255]), 'data': rb(r.choice([0, 4, 40])), 'critical': r.random() < 0.5})
                elif m == 'swap_exchange':
                    hd['exch'] = r.choice([e for e in (35, 36, 37, 34, 38, 0) if e != h['exch']])
                elif m in ('raw_flip', 'raw_trunc'):
                    try:
                        inner = bytearray(R.enc_chain(pls))
                    except Exception:
                        continue
                    if not inner:
                        continue
                    if m == 'raw_flip':
                        for _ in range(r.randint(1, 4)):
                            # bias towards length / count / size octets: flips in the first 8 octets of a payload are the structural ones
                            inner[r.randrange(len(inner))] ^= 1 << r.randrange(8)
                    else:
                        inner = inner[:r.randrange(len(inner))]
                    raw = (pls[0]['type'] if pls else 0, bytes(inner))
                else:
                    continue
                break
            else:
                return None
            a, e = (s.keys['ai'], s.keys['ei']) if h['I'] else (s.keys['ar'], s.keys['er'])
            try:
                if raw is not None:
                    new = _seal_raw(hd, raw[0], raw[1], s.suite, a, e, rb(16))
                else:
                    new = R.sk_seal(hd, pls, s.suite, a, e, rb(16))
            except Exception:
                return None
            count('byz.auth_malformed')
            count('byz.auth_malformed.' + m)
            count('byz.auth_malformed.' + ('response' if h['R'] else 'request'))
            return [(new, 0.0)]
        rule.label = 'byz.auth_malformed'
        return rule, lambda w: None

    # ------------------------------------------------------------------------------------------------------------
    if kind == 'flip_mode_request':
        # a peer asking, in a CREATE_CHILD_SA request (new CHILD_SA or rekey), for the mode the policy does not have: refused with
        # TS_UNACCEPTABLE, nothing installed
        def rule(meta, data):
            try:
                h = R.dec_header(data)
            except R.DecodeError:
                return None
            if h['R'] or h['exch'] != R.CREATE_CHILD_SA:
                return None
            opened = ip.open(data)
            if opened is None:
                return None
            _, pls, s = opened
            sa = next((p for p in pls if p['type'] == R.P_SA), None)
            if sa is None or not sa['proposals'] or sa['proposals'][0]['proto'] == R.PROTO_IKE:
                return None
            r = random.Random(f'byz:{seed}:{meta["key"]}')
            rekey = any(p['type'] == R.P_NOTIFY and p['ntype'] == R.N_REKEY_SA for p in pls)
            if r.random() < (0.3 if not rekey else 0.0):
                return None
            has = [p for p in pls if p['type'] == R.P_NOTIFY and p['ntype'] == R.N_USE_TRANSPORT_MODE]
            if has:
                pls.remove(has[0])
            else:
                pls.insert(0, {'type': R.P_NOTIFY, 'proto': 0, 'ntype': R.N_USE_TRANSPORT_MODE, 'spi': b'', 'data': b''})
            recv = world.net.node_of_addr(meta['dst'])
            state['tampered'].append({'receiver': recv.name if recv else None, 'receiver_addr': meta['dst'], 'proto': sa['proposals'][0]['proto'],
                                      'spi_init': sa['proposals'][0]['spi'], 'rekey': rekey, 'id': h['id'], 'I': h['I'], 'key': (h['spi_i'], h['spi_r']),
                                      'asks_transport': not has})
            count('byz.flip_mode_request')
            count('byz.flip_mode_request.' + ('rekey' if rekey else 'new'))
            new = ip.seal(s, {'spi_i': h['spi_i'], 'spi_r': h['spi_r'], 'exch': h['exch'], 'I': h['I'], 'R': False, 'id': h['id']}, pls, _rb(r, 16))
            return [(new, 0.0)]
        rule.label = 'byz.' + kind

        def verdict(w):
            for t in state['tampered']:
                node = w.nodes.get(t['receiver'])
                if node is None:
                    continue
                proto = PROTO_NUM.get(t['proto'])
                for k, rec in newsa_index(node).items():
                    if k[1] != proto or k[2] != t['spi_init']:
                        continue
                    # the daemon installs the mode of the protect entry it matched: if that is the mode that was asked for, the request was
                    # within its policy (configurations whose modes already differ, or overlapping entries in both modes, make the flipped
                    # mode the right one: quick tier, seed 1001073)
                    if (rec['decoded']['sa']['mode'] == 0) == t['asks_transport']:
                        count('byz.flip_mode_request.matches_policy_after_all')
                        continue
                    return ('mode_mismatching_request_installed', {'rekey': t['rekey']},
                            f'{t["receiver"]} installed a {"transport" if rec["decoded"]["sa"]["mode"] == 0 else "tunnel"}-mode SA towards SPI '
                            f'{t["spi_init"].hex()} for a CREATE_CHILD_SA {"rekey " if t["rekey"] else ""}request asking for '
                            f'{"transport" if t["asks_transport"] else "tunnel"} mode')
            return None
        return rule, verdict

    # ------------------------------------------------------------------------------------------------------------
    if kind == 'bad_reply':
        # a peer that answers CREATE_CHILD_SA / INFORMATIONAL requests with something a conforming peer may legally send but this
        # implementation never does, or with a defective reply: an error notify, a reply missing payloads, a foreign proposal
        p_hit = r0.choice([0.15, 0.4, 1.0])
        only = r0.choice([None, None, 'ike_rekey', 'child'])

        def rule(meta, data):
            try:
                h = R.dec_header(data)
            except R.DecodeError:
                return None
            if not h['R'] or h['exch'] not in (R.CREATE_CHILD_SA, R.INFORMATIONAL):
                return None
            r = random.Random(f'byz:{seed}:{meta["key"]}')
            if r.random() >= p_hit:
                return None
            opened = ip.open(data)
            if opened is None:
                return None
            _, pls, s = opened
            sa = next((p for p in pls if p['type'] == R.P_SA), None)
            is_ike = bool(sa and sa['proposals'] and sa['proposals'][0]['proto'] == R.PROTO_IKE)
            if only == 'ike_rekey' and not is_ike:
                return None
            if only == 'child' and (is_ike or sa is None):
                return None
            note = lambda nt, d=b'': {'type': R.P_NOTIFY, 'proto': 0, 'ntype': nt, 'spi': b'', 'data': d}
            if h['exch'] == R.INFORMATIONAL:
                how = r.choice(['empty', 'invalid_syntax', 'unknown_error'])
                pls = {'empty': [], 'invalid_syntax': [note(7)], 'unknown_error': [note(r.choice([44, 9000]))]}[how]
            else:
                how = r.choice(['no_proposal_chosen', 'no_additional_sas', 'ts_unacceptable', 'temporary_failure', 'invalid_syntax', 'unknown_error',
                                'drop_sa', 'drop_nonce', 'drop_ke', 'drop_ts', 'foreign_transform', 'empty', 'child_sa_not_found'])
                if how == 'no_proposal_chosen':
                    pls = [note(14)]
                elif how == 'no_additional_sas':
                    pls = [note(35)]
                elif how == 'ts_unacceptable':
                    pls = [note(38)]
                elif how == 'temporary_failure':
                    pls = [note(43)]
                elif how == 'child_sa_not_found':
                    pls = [note(44)]
                elif how == 'invalid_syntax':
                    pls = [note(7)]
                elif how == 'unknown_error':
                    pls = [note(r.choice([45, 8191]))]
                elif how == 'empty':
                    pls = []
                elif how.startswith('drop_'):
                    t = {'drop_sa': (R.P_SA,), 'drop_nonce': (R.P_NONCE,), 'drop_ke': (R.P_KE,), 'drop_ts': (R.P_TSi, R.P_TSr)}[how]
                    if not any(p['type'] in t for p in pls):
                        return None
                    pls = [p for p in pls if p['type'] not in t]
                else:
                    if sa is None:
                        return None
                    t = r.choice(sa['proposals'][0]['transforms'])
                    t['id'] = {1: 3, 2: 4, 3: 1, 4: 5, 5: 1}.get(t['type'], 1)       # 3DES / PRF_AES128_XCBC / HMAC_MD5_96 / MODP1536 / ESN
                    t['keylen'], t['attrs'] = None, []
            count('byz.bad_reply')
            count('byz.bad_reply.' + ('ike_rekey.' if is_ike else '') + how)
            new = ip.seal(s, {'spi_i': h['spi_i'], 'spi_r': h['spi_r'], 'exch': h['exch'], 'I': h['I'], 'R': True, 'id': h['id']}, pls, _rb(r, 16))
            return [(new, 0.0)]
        rule.label = 'byz.bad_reply'
        return rule, lambda w: None

    # ------------------------------------------------------------------------------------------------------------
    if kind == 'reuse_spi_request':
        p_hit = r0.choice([0.3, 0.6, 1.0])

        def rule(meta, data):
            try:
                h = R.dec_header(data)
            except R.DecodeError:
                return None
            if h['R'] or h['exch'] != R.CREATE_CHILD_SA:
                return None
            opened = ip.open(data)
            if opened is None:
                return None
            _, pls, s = opened
            sa = next((p for p in pls if p['type'] == R.P_SA), None)
            if sa is None or not sa['proposals'] or sa['proposals'][0]['proto'] == R.PROTO_IKE:
                return None
            r = random.Random(f'byz:{seed}:{meta["key"]}')
            if r.random() >= p_hit:
                return None
            sender = meta['sender']
            proto = sa['proposals'][0]['proto']
            # SPIs this sender receives on, for CHILD_SAs of the same IPsec protocol negotiated earlier with the same peer
            used = [c['spi_init'] if c['x_init'] == sender else c['spi_resp'] for c in tap.children
                    if sender in (c['x_init'], c['x_resp']) and c['proto'] == proto]
            used = [u for u in used if u != sa['proposals'][0]['spi']]
            if not used:
                return None
            spi = r.choice(used[-3:])
            for pr in sa['proposals']:
                pr['spi'] = spi
            count('byz.' + kind)
            new = ip.seal(s, {'spi_i': h['spi_i'], 'spi_r': h['spi_r'], 'exch': h['exch'], 'I': h['I'], 'R': False, 'id': h['id']}, pls, _rb(r, 16))
            return [(new, 0.0)]
        rule.label = 'byz.' + kind
        return rule, lambda w: None

    # ------------------------------------------------------------------------------------------------------------
    if kind == 'delete_other_spi':
        # a sloppy peer names a CHILD_SA it deletes by the SPI of the other direction (RFC 7296 3.11 wants the sender's inbound SPI): whatever
        # the receiver makes of it - find the CHILD_SA by either SPI, or ignore the request - kernel and tables stay in step
        def rule(meta, data):
            try:
                h = R.dec_header(data)
            except R.DecodeError:
                return None
            if h['R'] or h['exch'] != R.INFORMATIONAL:
                return None
            opened = ip.open(data)
            if opened is None:
                return None
            _, pls, s = opened
            dels = [p for p in pls if p['type'] == R.P_DELETE and p['proto'] in (R.PROTO_ESP, R.PROTO_AH) and p['spis']]
            if not dels:
                return None
            r = random.Random(f'byz:{seed}:{meta["key"]}')
            if r.random() < 0.3:
                return None
            pair = {}
            for c in tap.children:
                pair[c['spi_init']], pair[c['spi_resp']] = c['spi_resp'], c['spi_init']
            changed = False
            for p in dels:
                new_spis = [pair.get(x, x) for x in p['spis']]
                changed = changed or new_spis != p['spis']
                p['spis'] = new_spis
            if not changed:
                return None
            count('byz.' + kind)
            new = ip.seal(s, {'spi_i': h['spi_i'], 'spi_r': h['spi_r'], 'exch': h['exch'], 'I': h['I'], 'R': False, 'id': h['id']}, pls, _rb(r, 16))
            return [(new, 0.0)]
        rule.label = 'byz.' + kind
        return rule, lambda w: None

    # ------------------------------------------------------------------------------------------------------------
    if kind == 'delete_child_on_rekeyed':
        # a peer that has rekeyed the IKE_SA sends, over the OLD IKE_SA and in front of the DELETE that closes it, a DELETE for a CHILD_SA
        # (RFC 7296 2.8 only requires the IKE_SA DELETE to be the last request on the old IKE_SA).  The CHILD_SAs live in the successor by
        # then: whatever the responder makes of the request, its kernel and its tables stay in step
        state['rekeyed'] = set()

        def rule(meta, data):
            try:
                h = R.dec_header(data)
            except R.DecodeError:
                return None
            if h['exch'] not in (R.CREATE_CHILD_SA, R.INFORMATIONAL):
                return None
            opened = ip.open(data)
            if opened is None:
                return None
            _, pls, s = opened
            key = (h['spi_i'], h['spi_r'])
            if h['exch'] == R.CREATE_CHILD_SA:
                sa = next((p for p in pls if p['type'] == R.P_SA), None)
                if h['R'] and sa is not None and sa['proposals'] and sa['proposals'][0]['proto'] == R.PROTO_IKE:
                    state['rekeyed'].add(key)
                return None
            if h['R'] or key not in state['rekeyed'] or key in state['suggested']:
                return None
            if not any(p['type'] == R.P_DELETE and p['proto'] == R.PROTO_IKE for p in pls):
                return None
            r = random.Random(f'byz:{seed}:{meta["key"]}')
            sender = meta['sender']
            mine = [(c['proto'], c['spi_init'] if c['x_init'] == sender else c['spi_resp']) for c in tap.children if sender in (c['x_init'], c['x_resp'])]
            if not mine:
                return None
            proto, spi = mine[-1 - r.randrange(min(len(mine), 3))]
            state['suggested'][key] = True
            count('byz.' + kind)
            hd = {'spi_i': h['spi_i'], 'spi_r': h['spi_r'], 'exch': R.INFORMATIONAL, 'I': h['I'], 'R': False}
            first = ip.seal(s, dict(hd, id=h['id']), [{'type': R.P_DELETE, 'proto': proto, 'spi_size': 4, 'spis': [spi]}], _rb(r, 16))
            then = ip.seal(s, dict(hd, id=h['id'] + 1), pls, _rb(r, 16))
            return [(first, 0.0), (then, 0.03)]
        rule.label = 'byz.' + kind
        return rule, lambda w: None

    # ------------------------------------------------------------------------------------------------------------
    if kind == 'range_request':
        # a peer whose selectors are real ranges (legal, RFC 7296 3.13.1): addresses first..last that are no CIDR block (also ranges that
        # straddle a power-of-two boundary), ports like 0-1023 or 1024-65535.  What the kernel is told then is the smallest network holding
        # the range and never more ports than were negotiated
        def rule(meta, data):
            try:
                h = R.dec_header(data)
            except R.DecodeError:
                return None
            if h['R'] or h['exch'] not in (R.IKE_AUTH, R.CREATE_CHILD_SA):
                return None
            opened = ip.open(data)
            if opened is None:
                return None
            _, pls, s = opened
            sa = next((p for p in pls if p['type'] == R.P_SA), None)
            if sa is None or not sa['proposals'] or sa['proposals'][0]['proto'] == R.PROTO_IKE:
                return None
            if any(p['type'] == R.P_NOTIFY and p['ntype'] == R.N_REKEY_SA for p in pls):
                return None
            r = random.Random(f'byz:{seed}:{meta["key"]}')
            done = []
            for name, t in (('tsi', R.P_TSi), ('tsr', R.P_TSr)):
                p = next((p for p in pls if p['type'] == t), None)
                if p is None or not p['selectors'] or r.random() < 0.3:
                    continue
                sel = p['selectors'][-1]        # (the widest one: a pyikev2 initiator puts the selector of the triggering packet in front)
                n = len(sel['saddr'])
                a, z = int.from_bytes(sel['saddr'], 'big'), int.from_bytes(sel['eaddr'], 'big')
                how = r.choice(['addr', 'addr', 'port', 'both', 'proto'])
                if how == 'proto' and sel['proto'] == 0 and not any(d.endswith('.proto') for d in done):
                    # one selector names a protocol, the other stays "any": a packet has to be admitted by both
                    sel['proto'] = r.choice([6, 17])
                    done.append(name + '.proto')
                if how in ('addr', 'both') and z - a >= 15 and r.random() < 0.15:
                    # first address above last address, both inside the sender's selector: denotes no packet, inside nothing
                    hi = a + r.randint(8, z - a)
                    lo = a + r.randint(0, hi - a - 1)
                    sel['saddr'], sel['eaddr'] = hi.to_bytes(n, 'big'), lo.to_bytes(n, 'big')
                    done.append(name + '.addr_inverted')
                elif how in ('addr', 'both') and z - a >= 15 and a > 64 and r.random() < 0.25:
                    # a range that sticks out of the sender's own selector at the lower end and covers half of it: it overlaps the
                    # responder's (equal) policy only in part - neither inside it nor around it - though the smallest network around it is
                    lo = a - r.randint(1, 60)
                    hi = a + (z - a) // 2 + r.choice([0, 1, 5])
                    sel['saddr'], sel['eaddr'] = lo.to_bytes(n, 'big'), hi.to_bytes(n, 'big')
                    done.append(name + '.addr_overlap')
                elif how in ('addr', 'both') and z - a >= 15:
                    span = r.choice([1, 2, 3, 5, 6, 9, 12])
                    if r.random() < 0.6:
                        # across an alignment boundary of the block
                        mid = a + (z - a + 1) // r.choice([2, 4])
                        lo = mid - r.randint(1, span)
                    else:
                        lo = a + r.randint(1, min(z - a - span - 1, 4000))
                    sel['saddr'], sel['eaddr'] = lo.to_bytes(n, 'big'), (lo + span).to_bytes(n, 'big')
                    done.append(name + '.addr')
                if how in ('port', 'both') and (sel['sport'], sel['eport']) == (0, 65535) and sel['proto'] in (6, 17):
                    sel['sport'], sel['eport'] = r.choice([(0, 1023), (1024, 65535), (1000, 2000), (0, 79), (5000, 5001), (1, 65535), (65535, 0)])
                    done.append(name + '.port')
                elif how in ('port', 'both') and sel['sport'] == sel['eport'] and 0 < sel['sport'] < 65535 and r.random() < 0.5:
                    # first port above last port (65535-0 is RFC 7296's OPAQUE): whatever such a selector denotes, it is not more than the
                    # one port the policy has
                    p_ = sel['sport']
                    sel['sport'], sel['eport'] = r.choice([(65535, 0), (min(65535, p_ + 20), max(0, p_ - 20)), (p_ + 1, p_ - 1)])
                    done.append(name + '.port_inverted')
                p['selectors'] = [sel]
            if not done:
                return None
            count('byz.' + kind)
            for d in done:
                count('byz.range.' + d.split('.')[1])
            new = ip.seal(s, {'spi_i': h['spi_i'], 'spi_r': h['spi_r'], 'exch': h['exch'], 'I': h['I'], 'R': False, 'id': h['id']}, pls, _rb(r, 16))
            return [(new, 0.0)]
        rule.label = 'byz.' + kind
        return rule, lambda w: None

    # ------------------------------------------------------------------------------------------------------------
    if kind == 'narrow_rekey_request':
        # a peer that asks to rekey a CHILD_SA with selectors narrower than the ones that CHILD_SA has: whatever the responder installs
        # must lie inside what was proposed AND equal the replaced SA's selectors, which cannot both hold - it has to refuse
        def rule(meta, data):
            try:
                h = R.dec_header(data)
            except R.DecodeError:
                return None
            if h['R'] or h['exch'] != R.CREATE_CHILD_SA:
                return None
            opened = ip.open(data)
            if opened is None:
                return None
            _, pls, s = opened
            sa = next((p for p in pls if p['type'] == R.P_SA), None)
            rk = next((p for p in pls if p['type'] == R.P_NOTIFY and p['ntype'] == R.N_REKEY_SA), None)
            if sa is None or rk is None or not sa['proposals'] or sa['proposals'][0]['proto'] == R.PROTO_IKE:
                return None
            r = random.Random(f'byz:{seed}:{meta["key"]}')
            which = r.choice(['tsi', 'tsr', 'both'])
            done = False
            for name, t in (('tsi', R.P_TSi), ('tsr', R.P_TSr)):
                p = next((p for p in pls if p['type'] == t), None)
                if p is None or which not in (name, 'both'):
                    continue
                for sel in p['selectors']:
                    n = len(sel['saddr'])
                    a, z = int.from_bytes(sel['saddr'], 'big'), int.from_bytes(sel['eaddr'], 'big')
                    how = r.choice(['half', 'port', 'proto'])
                    if how == 'half' and z > a:
                        sel['eaddr'] = (a + (z - a) // 2).to_bytes(n, 'big')
                        done = True
                    elif how == 'port' and (sel['sport'], sel['eport']) == (0, 65535):
                        sel['sport'] = sel['eport'] = 443
                        done = True
                    elif how == 'proto' and sel['proto'] == 0:
                        sel['proto'] = 6
                        done = True
            if not done:
                return None
            count('byz.' + kind)
            new = ip.seal(s, {'spi_i': h['spi_i'], 'spi_r': h['spi_r'], 'exch': h['exch'], 'I': h['I'], 'R': False, 'id': h['id']}, pls, _rb(r, 16))
            recv = world.net.node_of_addr(meta['dst'])
            state['tampered'].append({'receiver': recv.name if recv else None, 'sender_addr': meta['src'], 'proto': sa['proposals'][0]['proto'],
                                      'spi_init': sa['proposals'][0]['spi'], 'which': which})
            return [(new, 0.0)]
        rule.label = 'byz.' + kind

        def verdict(w):
            for t in state['tampered']:
                node = w.nodes.get(t['receiver'])
                if node is None:
                    continue
                k = (_addr_raw(t['sender_addr']), PROTO_NUM.get(t['proto']), t['spi_init'])
                rec = newsa_index(node).get(k)
                if rec is not None:
                    return ('rekey_request_with_narrowed_selectors_installed', {'which': t['which']},
                            f'{t["receiver"]} installed an SA towards SPI {t["spi_init"].hex()} for a request to rekey a CHILD_SA whose selectors '
                            f'({t["which"]}) were narrower than those of the CHILD_SA being rekeyed: either the installed selectors exceed what was '
                            f'proposed or they differ from the replaced ones')
            return None
        return rule, verdict

    # ------------------------------------------------------------------------------------------------------------
    if kind in ('multi_proposal_request', 'ts_list_request'):
        def rule(meta, data):
            try:
                h = R.dec_header(data)
            except R.DecodeError:
                return None
            if h['R'] or h['exch'] not in ((R.IKE_AUTH, R.CREATE_CHILD_SA) if opts.get('also_ike_auth') and kind == 'multi_proposal_request' else (R.CREATE_CHILD_SA,)):
                return None
            opened = ip.open(data)
            if opened is None:
                return None
            _, pls, s = opened
            sa = next((p for p in pls if p['type'] == R.P_SA), None)
            if sa is None or not sa['proposals'] or sa['proposals'][0]['proto'] == R.PROTO_IKE:
                return None
            if any(p['type'] == R.P_NOTIFY and p['ntype'] == R.N_REKEY_SA for p in pls):
                return None
            r = random.Random(f'byz:{seed}:{meta["key"]}')
            if kind == 'multi_proposal_request':
                good = sa['proposals'][0]
                props = []
                n = r.randint(2, 4)
                pos = r.randrange(n)
                for i in range(n):
                    if i == pos:
                        p = copy.deepcopy(good)
                    else:
                        p = copy.deepcopy(good)
                        how = r.choice(['foreign', 'wrong_proto', 'dup', 'weaker', 'no_integ'])
                        if how == 'foreign':
                            for t in p['transforms']:
                                if t['type'] == R.T_INTEG:
                                    t['id'] = 5       # AES-XCBC: not supported
                        elif how == 'wrong_proto':
                            p['proto'] = R.PROTO_AH if p['proto'] == R.PROTO_ESP else R.PROTO_ESP
                        elif how == 'dup':
                            p['transforms'] = p['transforms'] + copy.deepcopy(p['transforms'][:1])
                        elif how == 'weaker':
                            for t in p['transforms']:
                                if t['type'] == R.T_ENCR:
                                    t['keylen'] = 128 if t['keylen'] == 256 else 256
                                    t['attrs'] = [(14, t['keylen'])]
                        else:
                            p['transforms'] = [t for t in p['transforms'] if t['type'] != R.T_INTEG] or p['transforms']
                    p['num'] = i + 1
                    p['spi'] = good['spi']          # one initiator, one inbound SPI, whichever proposal is taken ...
                    if i != pos and how in ('foreign', 'wrong_proto', 'no_integ') and r.random() < 0.6:
                        # ... except in proposals no conforming responder can take (RFC 7296 3.3.1: every proposal carries its own SPI)
                        p['spi'] = _rb(r, len(good['spi']))
                    props.append(p)
                sa['proposals'] = props
            else:
                for p in pls:
                    if p['type'] in (R.P_TSi, R.P_TSr) and p['selectors']:
                        base = p['selectors'][-1]
                        extra = []
                        for _ in range(r.randint(1, 3)):
                            e = copy.deepcopy(base)
                            how = r.choice(['subrange', 'port_range', 'other_family', 'disjoint'])
                            n = len(e['saddr'])
                            a, z = int.from_bytes(e['saddr'], 'big'), int.from_bytes(e['eaddr'], 'big')
                            if how == 'subrange' and z > a:
                                lo = r.randrange(a, z)
                                e['saddr'], e['eaddr'] = lo.to_bytes(n, 'big'), r.randrange(lo, z + 1).to_bytes(n, 'big')   # not a CIDR block
                            elif how == 'port_range':
                                e['sport'], e['eport'] = 1000, 2000
                            elif how == 'other_family':
                                e = {'ts_type': 8 if e['ts_type'] == 7 else 7, 'proto': e['proto'], 'sport': 0, 'eport': 65535,
                                     'saddr': b'\0' * (16 if e['ts_type'] == 7 else 4), 'eaddr': b'\xff' * (16 if e['ts_type'] == 7 else 4)}
                            else:
                                e['saddr'], e['eaddr'] = (a ^ (1 << (8 * n - 2))).to_bytes(n, 'big'), (z ^ (1 << (8 * n - 2))).to_bytes(n, 'big')
                            extra.append(e)
                        p['selectors'] = (extra + p['selectors']) if r.random() < 0.5 else (p['selectors'][:1] + extra + p['selectors'][1:])
                        if r.random() < 0.4:
                            # a real port range (RFC 7296 3.13.1) that starts at the port asked for and ends beyond it: only its first port
                            # can lie inside a single-port policy
                            for e in p['selectors']:
                                if e['sport'] == e['eport'] and 0 < e['sport'] < 65535:
                                    e['eport'] = min(65535, e['sport'] + r.choice([1, 57, 8000]))
                                    count('byz.ts_list_request.port_range_from_policy_port')
            count('byz.' + kind)
            new = ip.seal(s, {'spi_i': h['spi_i'], 'spi_r': h['spi_r'], 'exch': h['exch'], 'I': h['I'], 'R': False, 'id': h['id']}, pls, _rb(r, 16))
            return [(new, 0.0)]
        rule.label = 'byz.' + kind
        return rule, lambda w: None
    raise ValueError(kind)
