"""Hostile datagram generators (off-path forger without keys).  Every datagram is a deterministic function of
the op's explicit parameters and of what has been on the wire so far."""
import random
import struct

from . import refike as R

KINDS = ('random', 'short', 'trunc', 'flip', 'extend', 'header_only', 'unk_exch', 'struct', 'zero_len_payload',
         'delete_many', 'vendor_bin', 'init_unknown_peer', 'init_existing_spi', 'response_blue', 'cleartext_req',
         'lenfield', 'empty', 'nested')

UNKNOWN_ADDR = {4: '10.9.9.9', 6: 'fd00::99'}


def _live_headers(wire, dst_addr):
    """Headers of datagrams recently sent *to* dst_addr (gives SPIs and message ids of live IKE_SAs)."""
    out = []
    for rec in reversed(wire.sent):
        if rec['dst'] == dst_addr and rec['h'] is not None:
            out.append(rec)
            if len(out) >= 12:
                break
    return out


def _rand_bytes(r, n):
    return bytes(r.getrandbits(8) for _ in range(n))


def _payload(r, t=None):
    """A plausible payload dict for the reference encoder."""
    t = t or r.choice([R.P_SA, R.P_KE, R.P_NONCE, R.P_NOTIFY, R.P_DELETE, R.P_VENDOR, R.P_TSi, R.P_TSr, R.P_IDi,
                       R.P_AUTH, 47, 48, 37, 38, 53, 200])
    if t == R.P_SA:
        props = []
        for i in range(r.randint(1, 3)):
            trs = [{'type': r.choice([1, 2, 3, 4, 5, 9]), 'id': r.choice([2, 5, 12, 14, 19, 0, 99]),
                    'keylen': r.choice([None, 128, 256, 7])} for _ in range(r.randint(1, 5))]
            props.append({'num': i + 1, 'proto': r.choice([1, 2, 3, 0, 9]), 'spi': _rand_bytes(r, r.choice([0, 4, 8, 3])),
                          'transforms': trs})
        return {'type': t, 'proposals': props}
    if t == R.P_KE:
        return {'type': t, 'group': r.choice([14, 19, 20, 21, 1, 31]), 'data': _rand_bytes(r, r.choice([0, 1, 64, 65, 256]))}
    if t == R.P_NONCE:
        return {'type': t, 'data': _rand_bytes(r, r.choice([0, 8, 16, 32, 256, 257]))}
    if t == R.P_NOTIFY:
        return {'type': t, 'proto': r.choice([0, 1, 2, 3]), 'ntype': r.choice([1, 7, 14, 17, 24, 38, 43, 44, 16390, 16391, 16393, 40000]),
                'spi': _rand_bytes(r, r.choice([0, 0, 4, 8])), 'data': _rand_bytes(r, r.choice([0, 2, 32, 5]))}
    if t == R.P_DELETE:
        ss = r.choice([0, 4, 8])
        n = r.choice([0, 1, 2, 5]) if ss else 0          # SPI size 0 (IKE_SA delete) carries no SPIs
        return {'type': t, 'proto': r.choice([1, 2, 3]), 'spi_size': ss, 'spis': [_rand_bytes(r, ss) for _ in range(n)]}
    if t == R.P_VENDOR:
        return {'type': t, 'data': r.choice([b'strongSwan', _rand_bytes(r, 16), b'\xff\xfe\x80', b''])}
    if t in (R.P_TSi, R.P_TSr):
        sels = []
        for _ in range(r.randint(0, 3)):
            six = r.random() < 0.3
            n = 16 if six else 4
            sels.append({'ts_type': 8 if six else 7, 'proto': r.choice([0, 6, 17, 1]), 'sport': r.choice([0, 80, 65535]),
                         'eport': r.choice([65535, 80, 0]), 'saddr': _rand_bytes(r, n), 'eaddr': _rand_bytes(r, n)})
        return {'type': t, 'selectors': sels}
    if t in (R.P_IDi, R.P_IDr):
        return {'type': t, 'id_type': r.choice([1, 2, 3, 5, 9, 11, 77]), 'data': r.choice([b'\x0a\0\0\1', b'a.b', b'\xff\xfe', b'', _rand_bytes(r, 5)])}
    if t == R.P_AUTH:
        return {'type': t, 'method': r.choice([1, 2, 3, 9]), 'data': _rand_bytes(r, r.choice([0, 20, 32, 128]))}
    return {'type': t, 'data': _rand_bytes(r, r.choice([0, 1, 4, 40])), 'critical': r.random() < 0.3}


def structured(r, spi_i, spi_r, exch=None, flags=None, mid=None):
    """A cleartext message from the payload grammar, then (sometimes) damaged length / next-payload fields."""
    pls = [_payload(r) for _ in range(r.randint(0, 5))]
    body = bytearray(R.enc_chain(pls))
    first = pls[0]['type'] if pls else 0
    # damage generic payload headers
    if pls and r.random() < 0.6:
        o = 0
        offs = []
        while o + 4 <= len(body):
            ln = struct.unpack('>H', body[o + 2:o + 4])[0]
            offs.append((o, ln))
            if ln < 4:
                break
            o += ln
        o, ln = r.choice(offs)
        which = r.random()
        if which < 0.6:
            newlen = r.choice([0, 1, 2, 3, 4, 5, max(0, ln - 1), ln + 1, 0xFFFF])
            body[o + 2:o + 4] = struct.pack('>H', newlen)
        elif which < 0.85:
            body[o] = r.choice([0, 46, 33, 1, 200, 255, 49])
        else:
            body[o + 1] = r.choice([0x80, 0xFF, 0x01])
    if r.random() < 0.15:
        first = r.choice([0, 46, 200, 1, 255])
    exch = exch if exch is not None else r.choice([34, 35, 36, 37, 0, 38, 255])
    flags = flags if flags is not None else r.choice([0x00, 0x08, 0x20, 0x28, 0x10, 0x38, 0xFF, 0x01])
    mid = mid if mid is not None else r.choice([0, 1, 2, 0xFFFFFFFF])
    total = 28 + len(body)
    if r.random() < 0.2:
        total = r.choice([0, 27, total - 1, total + 1, 0xFFFFFFFF])
    ver = 0x20 if r.random() < 0.85 else r.choice([0x10, 0x21, 0x30, 0x00, 0xFF])
    return struct.pack('>8s8sBBBBLL', spi_i, spi_r, first, ver, exch, flags, mid, total) + bytes(body)


def nested(r, spi_i, spi_r, exch, flags, mid):
    """SA / TS / DELETE payloads whose *inner* length and count fields are damaged."""
    kind = r.choice(['sa', 'ts', 'delete', 'notify', 'transform', 'attribute', 'attribute'])
    if kind == 'sa':
        inner = bytearray(R.enc_sa([{'num': 1, 'proto': 1, 'spi': b'', 'transforms': [
            {'type': 1, 'id': 12, 'keylen': 128}, {'type': 2, 'id': 5}, {'type': 3, 'id': 12}, {'type': 4, 'id': 19}]}]))
        pos = r.choice([2, 3, 6, 7, 10, 11, 4, 5])
        inner[pos] = r.choice([0, 1, 2, 3, 4, 5, 255, inner[pos] ^ 1])
        if r.random() < 0.3:
            inner = inner[:r.randrange(1, len(inner))]
        t = R.P_SA
    elif kind == 'transform':
        inner = bytearray(R.enc_sa([{'num': 1, 'proto': 3, 'spi': b'\1\2\3\4', 'transforms': [
            {'type': 1, 'id': 12, 'attrs': [(14, 256), (14, 128), (3, b'xyz')]}, {'type': 3, 'id': 12}, {'type': 5, 'id': 0}]}]))
        pos = r.randrange(8, len(inner))
        inner[pos] = r.choice([0, 1, 3, 4, 255])
        t = R.P_SA
    elif kind == 'attribute':
        # transform attributes in TV (AF set) and TLV (AF clear) form with every interesting length
        def attr():
            af = r.random() < 0.5
            at = r.choice([14, 14, 1, 3, 0, 0x7FFF])
            ln = r.choice([0, 1, 2, 3, 4, 5, 8, 0xFFFF, 128, 256])
            if af:
                return struct.pack('>HH', at | 0x8000, ln)
            body = _rand_bytes(r, r.choice([0, ln if ln < 64 else 4, max(0, (ln if ln < 64 else 4) - 1), 4]))
            return struct.pack('>HH', at, ln) + body
        trs = b''
        n_tr = r.randint(1, 3)
        for i in range(n_tr):
            t = struct.pack('>BBH', r.choice([1, 2, 3, 4]), 0, r.choice([12, 5, 14, 19])) + b''.join(attr() for _ in range(r.randint(1, 3)))
            trs += struct.pack('>BBH', 0 if i == n_tr - 1 else 3, 0, len(t) + 4) + t
        prop = struct.pack('>BBBB', 1, r.choice([1, 3]), 0, n_tr) + trs
        inner = bytearray(struct.pack('>BBH', 0, 0, len(prop) + 4) + prop)
        t = R.P_SA
    elif kind == 'ts':
        inner = bytearray(R.enc_ts([{'ts_type': 7, 'proto': 6, 'sport': 0, 'eport': 65535, 'saddr': b'\x0a\0\0\1', 'eaddr': b'\x0a\0\0\xff'}]))
        pos = r.choice([0, 4, 6, 7])
        inner[pos] = r.choice([0, 1, 2, 8, 9, 15, 16, 17, 255])
        t = r.choice([R.P_TSi, R.P_TSr])
    elif kind == 'delete':
        inner = bytearray(struct.pack('>BBH', r.choice([1, 2, 3]), r.choice([0, 4, 8, 255]), r.choice([0, 1, 2, 65535])) +
                          _rand_bytes(r, r.choice([0, 4, 8, 12])))
        t = R.P_DELETE
    else:
        inner = bytearray(struct.pack('>BBH', 3, r.choice([0, 4, 8, 255]), 16393) + _rand_bytes(r, r.choice([0, 3, 4, 8])))
        t = R.P_NOTIFY
    body = struct.pack('>BBH', 0, 0, 4 + len(inner)) + bytes(inner)
    return struct.pack('>8s8sBBBBLL', spi_i, spi_r, t, 0x20, exch, flags, mid, 28 + len(body)) + body


def make(op, wire, dst_addr, peer_addr, family=4):
    """Returns (datagram, source address)."""
    r = random.Random(f'hostile:{op.get("seed", 0)}')
    kind = op['kind']
    live = _live_headers(wire, dst_addr)
    src = peer_addr if op.get('spoof', True) else UNKNOWN_ADDR[family]
    if live:
        rec = live[op.get('pick', 0) % len(live)]
        auth, h = rec['data'], rec['h']
    else:
        auth, h = None, None
    spi_i = h['spi_i'] if h else _rand_bytes(r, 8)
    spi_r = h['spi_r'] if h else _rand_bytes(r, 8)
    flags = (h['flags'] if h else 0x08)
    mid = (h['id'] if h else 0) + op.get('id_delta', 0)
    mid = max(0, min(mid, 0xFFFFFFFF))
    if kind == 'random':
        return _rand_bytes(r, op.get('len', 40)), src
    if kind == 'empty':
        return b'', src
    if kind == 'short':
        base = auth or _rand_bytes(r, 40)
        return base[:op.get('len', 20) % 28], src
    if kind == 'trunc':
        base = auth or _rand_bytes(r, 80)
        return base[:op.get('pos', 30) % (len(base) + 1)], src
    if kind == 'flip':
        base = bytearray(auth or _rand_bytes(r, 80))
        base[op.get('pos', 0) % len(base)] ^= (op.get('mask', 1) & 0xFF) or 1
        return bytes(base), src
    if kind == 'extend':
        return (auth or _rand_bytes(r, 40)) + _rand_bytes(r, op.get('len', 4)), src
    if kind == 'lenfield':
        base = bytearray(auth or _rand_bytes(r, 80))
        if len(base) >= 28:
            base[24:28] = struct.pack('>L', r.choice([0, 27, 28, len(base) - 1, len(base) + 1, 0xFFFFFFFF]))
        return bytes(base), src
    if kind == 'header_only':
        return struct.pack('>8s8sBBBBLL', spi_i, spi_r, 0, 0x20, op.get('exch', 37), flags, mid, 28), src
    if kind == 'unk_exch':
        return struct.pack('>8s8sBBBBLL', spi_i, spi_r, 0, 0x20, op.get('exch', 99), flags, mid, 28), src
    if kind == 'zero_len_payload':
        # next payload = unknown type, generic header announcing length 0
        return struct.pack('>8s8sBBBBLL', spi_i, spi_r, op.get('ptype', 200), 0x20, op.get('exch', 34), flags & ~0x20, mid, 32) + \
            struct.pack('>BBH', op.get('next', 200), 0, op.get('plen', 0)), src
    if kind == 'delete_many':
        body = struct.pack('>BBH', 0, 0, 8) + struct.pack('>BBH', 3, op.get('spi_size', 0), 65535)
        return struct.pack('>8s8sBBBBLL', spi_i, spi_r, R.P_DELETE, 0x20, 37, flags, mid, 28 + len(body)) + body, src
    if kind in ('vendor_bin', 'init_unknown_peer', 'init_existing_spi'):
        pls = [{'type': R.P_SA, 'proposals': [{'num': 1, 'proto': 1, 'spi': b'', 'transforms': [
                   {'type': 1, 'id': 12, 'keylen': 256}, {'type': 1, 'id': 12, 'keylen': 128}, {'type': 3, 'id': 12},
                   {'type': 3, 'id': 14}, {'type': 3, 'id': 2}, {'type': 2, 'id': 5}, {'type': 2, 'id': 7}, {'type': 2, 'id': 2},
                   {'type': 4, 'id': 19}]}]},
               {'type': R.P_NONCE, 'data': _rand_bytes(r, 32)},
               {'type': R.P_KE, 'group': 19, 'data': R.dh_public(19, r.getrandbits(200) + 1)}]
        if kind == 'vendor_bin':
            pls.append({'type': R.P_VENDOR, 'data': b'\x88\x2f\xe5\x6d\x6f\xd2\x0d\xbc\x22\x51\x61\x3b\x2e\xbe\x5b\xeb'})
        si = spi_i if kind == 'init_existing_spi' else _rand_bytes(r, 8)
        if kind == 'init_unknown_peer':
            src = UNKNOWN_ADDR[family]
        return R.encode({'spi_i': si, 'spi_r': b'\0' * 8, 'exch': 34, 'I': True, 'R': False, 'id': 0}, pls), src
    if kind == 'response_blue':
        return R.encode({'spi_i': spi_i, 'spi_r': spi_r, 'exch': op.get('exch', 37), 'I': bool(flags & 8), 'R': True,
                         'id': mid}, [_payload(r) for _ in range(r.randint(0, 2))]), src
    if kind == 'cleartext_req':
        what = op.get('what', 'delete_ike')
        if what == 'delete_ike':
            pls, exch = [{'type': R.P_DELETE, 'proto': 1, 'spi_size': 0, 'spis': []}], 37
        elif what == 'empty':
            pls, exch = [], 37
        elif what == 'auth':
            pls, exch = [{'type': R.P_IDi, 'id_type': 2, 'data': b'mallory'}, {'type': R.P_AUTH, 'method': 2, 'data': b'\0' * 32}], 35
        else:
            pls, exch = [_payload(r, R.P_SA), _payload(r, R.P_NONCE), _payload(r, R.P_KE)], 36
        return R.encode({'spi_i': spi_i, 'spi_r': spi_r, 'exch': exch, 'I': bool(flags & 8), 'R': False, 'id': mid}, pls), src
    if kind == 'struct':
        return structured(r, spi_i, spi_r, mid=mid if r.random() < 0.5 else None,
                          flags=flags if r.random() < 0.5 else None), src
    if kind == 'nested':
        return nested(r, spi_i, spi_r, r.choice([34, 36, 37]), flags & ~0x20 if r.random() < 0.7 else flags, mid), src
    raise ValueError(kind)


def random_op(r, t, node, kinds=KINDS):
    kind = r.choice(kinds)
    op = {'t': t, 'op': 'call', 'name': 'hostile', 'node': node, 'kind': kind, 'seed': r.randrange(2 ** 31),
          'pick': r.randrange(12), 'spoof': r.random() < 0.8}
    if kind == 'random':
        op['len'] = r.choice([0, 1, 4, 27, 28, 29, 32, 40, 64, 200, 1000, 4096])
    elif kind in ('short', 'extend'):
        op['len'] = r.randrange(1, 28)
    elif kind in ('trunc', 'flip'):
        op['pos'] = r.randrange(0, 600)
        op['mask'] = 1 << r.randrange(8)
    elif kind in ('header_only', 'unk_exch'):
        op['exch'] = r.choice([34, 35, 36, 37, 0, 33, 38, 99, 255])
        op['id_delta'] = r.choice([-2, -1, 0, 1, 2])
    elif kind == 'zero_len_payload':
        op['ptype'] = r.choice([200, 49, 255, 1])
        op['plen'] = r.choice([0, 0, 1, 2, 3])
        op['exch'] = r.choice([34, 37, 36])
    elif kind == 'delete_many':
        op['spi_size'] = r.choice([0, 4, 255])
    elif kind == 'cleartext_req':
        op['what'] = r.choice(['delete_ike', 'empty', 'auth', 'rekey'])
        op['id_delta'] = r.choice([0, 0, 1, -1])
    elif kind == 'response_blue':
        op['exch'] = r.choice([34, 35, 36, 37])
        op['id_delta'] = r.choice([0, 1, -1])
    return op
