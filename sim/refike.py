"""Independent reference implementation of the parts of RFC 7296 the oracles need: wire codec (section 3),
key schedule (2.13-2.18), AUTH computation (2.15), SK payload protection (3.14).  Written from the RFC; shares
no code with /repo.  Uses struct/hmac/hashlib, AES-CBC and EC point multiplication from `cryptography`,
MODP by pow() with primes recomputed from the RFC 3526 formula."""
import hashlib
import hmac as _hmac
import struct

# --------------------------------------------------------------------------------------- constants
P_SA, P_KE, P_IDi, P_IDr, P_CERT, P_CERTREQ, P_AUTH, P_NONCE, P_NOTIFY, P_DELETE, P_VENDOR, P_TSi, P_TSr, P_SK = \
    33, 34, 35, 36, 37, 38, 39, 40, 41, 42, 43, 44, 45, 46
PNAMES = {33: 'SA', 34: 'KE', 35: 'IDi', 36: 'IDr', 37: 'CERT', 38: 'CERTREQ', 39: 'AUTH', 40: 'NONCE', 41: 'NOTIFY',
          42: 'DELETE', 43: 'VENDOR', 44: 'TSi', 45: 'TSr', 46: 'SK', 47: 'CP', 48: 'EAP'}
IKE_SA_INIT, IKE_AUTH, CREATE_CHILD_SA, INFORMATIONAL = 34, 35, 36, 37
T_ENCR, T_PRF, T_INTEG, T_DH, T_ESN = 1, 2, 3, 4, 5
PROTO_IKE, PROTO_AH, PROTO_ESP = 1, 2, 3
N_UNSUPPORTED_CRITICAL_PAYLOAD, N_INVALID_SYNTAX, N_NO_PROPOSAL_CHOSEN, N_INVALID_KE_PAYLOAD = 1, 7, 14, 17
N_AUTHENTICATION_FAILED, N_TS_UNACCEPTABLE, N_TEMPORARY_FAILURE, N_CHILD_SA_NOT_FOUND = 24, 38, 43, 44
N_NO_ADDITIONAL_SAS = 35
N_COOKIE, N_USE_TRANSPORT_MODE, N_REKEY_SA = 16390, 16391, 16393

PRF_HASH = {2: hashlib.sha1, 5: hashlib.sha256, 7: hashlib.sha512}
INTEG_HASH = {2: (hashlib.sha1, 12), 12: (hashlib.sha256, 16), 14: (hashlib.sha512, 32)}   # id -> (hash, ICV octets)
MODP_BITS = {14: 2048, 15: 3072, 16: 4096, 17: 6144, 18: 8192}
EC_BITS = {19: 256, 20: 384, 21: 521}


class DecodeError(Exception):
    pass


# --------------------------------------------------------------------------------------- codec: decode

def dec_header(data):
    if len(data) < 28:
        raise DecodeError('shorter than an IKE header')
    spi_i, spi_r, np, ver, exch, flags, mid, length = struct.unpack('>8s8sBBBBLL', bytes(data[:28]))
    return {'spi_i': spi_i, 'spi_r': spi_r, 'next': np, 'major': ver >> 4, 'minor': ver & 15, 'exch': exch,
            'flags': flags, 'I': bool(flags & 8), 'V': bool(flags & 16), 'R': bool(flags & 32), 'id': mid,
            'length': length}


def dec_chain(data, first):
    """Generic payload chain -> list of (type, critical, body bytes, reserved7).  Strict about lengths."""
    out = []
    o, t = 0, first
    while t != 0:
        if len(data) - o < 4:
            raise DecodeError(f'payload header truncated at {o}')
        nxt, crit, ln = struct.unpack('>BBH', bytes(data[o:o + 4]))
        if ln < 4 or o + ln > len(data):
            raise DecodeError(f'payload length {ln} at {o} with {len(data) - o} left')
        out.append({'type': t, 'critical': bool(crit & 0x80), 'reserved': crit & 0x7F, 'body': bytes(data[o + 4:o + ln]),
                    'next': nxt})
        o += ln
        if t == P_SK:
            break
        t = nxt
    if o != len(data):
        raise DecodeError(f'{len(data) - o} trailing octets after the payload chain')
    return out


def dec_transform(b):
    if len(b) < 4:
        raise DecodeError('transform too short')
    ttype, res, tid = struct.unpack('>BBH', b[:4])
    attrs = []
    o = 4
    while o < len(b):
        if len(b) - o < 4:
            raise DecodeError('attribute truncated')
        at, av = struct.unpack('>HH', b[o:o + 4])
        if at & 0x8000:
            attrs.append((at & 0x7FFF, av))
            o += 4
        else:
            if o + 4 + av > len(b):
                raise DecodeError('TLV attribute overruns')
            attrs.append((at, b[o + 4:o + 4 + av]))
            o += 4 + av
    keylen = next((v for a, v in attrs if a == 14 and isinstance(v, int)), None)
    return {'type': ttype, 'id': tid, 'keylen': keylen, 'attrs': attrs, 'reserved': res}


def dec_proposal(b):
    if len(b) < 4:
        raise DecodeError('proposal too short')
    num, proto, spi_size, n_tr = struct.unpack('>BBBB', b[:4])
    if 4 + spi_size > len(b):
        raise DecodeError('proposal SPI overruns')
    spi = b[4:4 + spi_size]
    o = 4 + spi_size
    trs = []
    last = None
    while o < len(b):
        if len(b) - o < 8:
            raise DecodeError('transform header truncated')
        more, res, ln = struct.unpack('>BBH', b[o:o + 4])
        if ln < 8 or o + ln > len(b):
            raise DecodeError('transform length')
        t = dec_transform(b[o + 4:o + ln])
        t['more'] = more
        trs.append(t)
        last = more
        o += ln
    if len(trs) != n_tr:
        raise DecodeError(f'{n_tr} transforms announced, {len(trs)} present')
    if trs and last != 0:
        raise DecodeError('last transform has a "more" marker')
    if any(t['more'] != 3 for t in trs[:-1]):
        raise DecodeError('"more" marker of a non-last transform is not 3')
    return {'num': num, 'proto': proto, 'spi': spi, 'transforms': trs}


def dec_sa(b):
    props = []
    o = 0
    last = None
    while o < len(b):
        if len(b) - o < 8:
            raise DecodeError('proposal header truncated')
        more, res, ln = struct.unpack('>BBH', b[o:o + 4])
        if ln < 8 or o + ln > len(b):
            raise DecodeError('proposal length')
        p = dec_proposal(b[o + 4:o + ln])
        p['more'] = more
        props.append(p)
        last = more
        o += ln
    if props and last != 0:
        raise DecodeError('last proposal has a "more" marker')
    if any(p['more'] != 2 for p in props[:-1]):
        raise DecodeError('"more" marker of a non-last proposal is not 2')
    return {'proposals': props}


def dec_ts(b):
    if len(b) < 4:
        raise DecodeError('TS too short')
    n = b[0]
    o = 4
    sels = []
    while o < len(b):
        if len(b) - o < 8:
            raise DecodeError('selector truncated')
        tstype, proto, ln, sp, ep = struct.unpack('>BBHHH', b[o:o + 8])
        alen = {7: 4, 8: 16}.get(tstype)
        if alen is None or ln != 8 + 2 * alen or o + ln > len(b):
            raise DecodeError('selector length/type')
        sels.append({'ts_type': tstype, 'proto': proto, 'sport': sp, 'eport': ep,
                     'saddr': b[o + 8:o + 8 + alen], 'eaddr': b[o + 8 + alen:o + 8 + 2 * alen]})
        o += ln
    if n != len(sels):
        raise DecodeError('selector count')
    return {'selectors': sels, 'reserved': b[1:4]}


def dec_payload(p):
    """Abstract content of one payload from dec_chain()."""
    t, b = p['type'], p['body']
    d = {'type': t, 'critical': p['critical']}
    if t == P_SA:
        d.update(dec_sa(b))
    elif t == P_KE:
        if len(b) < 4:
            raise DecodeError('KE too short')
        d['group'], d['reserved'] = struct.unpack('>HH', b[:4])
        d['data'] = b[4:]
    elif t in (P_IDi, P_IDr):
        if len(b) < 4:
            raise DecodeError('ID too short')
        d['id_type'], d['reserved'], d['data'] = b[0], b[1:4], b[4:]
    elif t == P_AUTH:
        if len(b) < 4:
            raise DecodeError('AUTH too short')
        d['method'], d['reserved'], d['data'] = b[0], b[1:4], b[4:]
    elif t == P_NONCE:
        d['data'] = b
    elif t == P_NOTIFY:
        if len(b) < 4:
            raise DecodeError('NOTIFY too short')
        d['proto'], ss, d['ntype'] = struct.unpack('>BBH', b[:4])
        if 4 + ss > len(b):
            raise DecodeError('NOTIFY SPI overruns')
        d['spi'], d['data'] = b[4:4 + ss], b[4 + ss:]
    elif t == P_DELETE:
        if len(b) < 4:
            raise DecodeError('DELETE too short')
        d['proto'], ss, n = struct.unpack('>BBH', b[:4])
        if len(b) != 4 + ss * n:
            raise DecodeError('DELETE length')
        d['spi_size'] = ss
        d['spis'] = [b[4 + i * ss:4 + (i + 1) * ss] for i in range(n)]
    elif t == P_VENDOR:
        d['data'] = b
    elif t in (P_TSi, P_TSr):
        d.update(dec_ts(b))
    elif t == P_SK:
        d['data'] = b
        d['inner_first'] = p['next']
    else:
        d['data'] = b
        d['unknown'] = True
    return d


def decode(data):
    """Cleartext view: header + decoded payloads (the SK body stays opaque)."""
    h = dec_header(data)
    if h['length'] != len(data):
        raise DecodeError(f'header length {h["length"]} != datagram {len(data)}')
    chain = dec_chain(data[28:], h['next'])
    return h, [dec_payload(p) for p in chain]


# --------------------------------------------------------------------------------------- codec: encode

def enc_transform(t):
    b = struct.pack('>BBH', t['type'], 0, t['id'])
    for a, v in t.get('attrs') or ([(14, t['keylen'])] if t.get('keylen') else []):
        if isinstance(v, int):
            b += struct.pack('>HH', a | 0x8000, v)
        else:
            b += struct.pack('>HH', a, len(v)) + v
    return b


def enc_proposal(p):
    b = struct.pack('>BBBB', p['num'], p['proto'], len(p['spi']), len(p['transforms'])) + p['spi']
    for i, t in enumerate(p['transforms']):
        tb = enc_transform(t)
        b += struct.pack('>BBH', 0 if i == len(p['transforms']) - 1 else 3, 0, len(tb) + 4) + tb
    return b


def enc_sa(props):
    b = b''
    for i, p in enumerate(props):
        pb = enc_proposal(p)
        b += struct.pack('>BBH', 0 if i == len(props) - 1 else 2, 0, len(pb) + 4) + pb
    return b


def enc_ts(sels):
    b = struct.pack('>B3s', len(sels), b'\0\0\0')
    for s in sels:
        b += struct.pack('>BBHHH', s['ts_type'], s['proto'], 8 + 2 * len(s['saddr']), s['sport'], s['eport']) + \
            s['saddr'] + s['eaddr']
    return b


def enc_body(d):
    t = d['type']
    if t == P_SA:
        return enc_sa(d['proposals'])
    if t == P_KE:
        return struct.pack('>HH', d['group'], 0) + d['data']
    if t in (P_IDi, P_IDr):
        return bytes([d['id_type']]) + b'\0\0\0' + d['data']
    if t == P_AUTH:
        return bytes([d['method']]) + b'\0\0\0' + d['data']
    if t == P_NOTIFY:
        return struct.pack('>BBH', d['proto'], len(d['spi']), d['ntype']) + d['spi'] + d['data']
    if t == P_DELETE:
        ss = d.get('spi_size', len(d['spis'][0]) if d['spis'] else 0)
        return struct.pack('>BBH', d['proto'], ss, len(d['spis'])) + b''.join(d['spis'])
    if t in (P_TSi, P_TSr):
        return enc_ts(d['selectors'])
    return d['data']


def enc_chain(payloads, last_next=0):
    b = b''
    for i, d in enumerate(payloads):
        body = d['raw'] if 'raw' in d else enc_body(d)
        nxt = payloads[i + 1]['type'] if i + 1 < len(payloads) else last_next
        if d['type'] == P_SK:
            nxt = d.get('inner_first', 0)
        ln = d.get('force_len', len(body) + 4)
        b += struct.pack('>BBH', d.get('force_next', nxt), 0x80 if d.get('critical') else 0, ln) + body
    return b


def enc_header(spi_i, spi_r, first, exch, flags, mid, total_len, major=2, minor=0):
    return struct.pack('>8s8sBBBBLL', spi_i, spi_r, first, (major << 4) | minor, exch, flags, mid, total_len)


def encode(h, payloads):
    body = enc_chain(payloads)
    first = payloads[0]['type'] if payloads else 0
    flags = (8 if h['I'] else 0) | (16 if h.get('V') else 0) | (32 if h['R'] else 0)
    return enc_header(h['spi_i'], h['spi_r'], h.get('first', first), h['exch'], h.get('flags', flags), h['id'],
                      h.get('length', 28 + len(body)), h.get('major', 2), h.get('minor', 0)) + body


# --------------------------------------------------------------------------------------- crypto

def prf(pid, key, data):
    return _hmac.new(key, data, PRF_HASH[pid]).digest()


def prf_plus(pid, key, seed, n):
    out, t, i = b'', b'', 1
    while len(out) < n:
        if i > 255:
            raise ValueError('prf+ output too long')
        t = prf(pid, key, t + seed + bytes([i]))
        out += t
        i += 1
    return out[:n]


def integ(iid, key, data):
    h, n = INTEG_HASH[iid]
    return _hmac.new(key, data, h).digest()[:n]


def integ_key_len(iid):
    return INTEG_HASH[iid][0]().digest_size


def icv_len(iid):
    return INTEG_HASH[iid][1]


def prf_len(pid):
    return PRF_HASH[pid]().digest_size


_PI_CACHE = {}


def _pi_scaled(bits):
    """floor(2**bits * pi), by Machin's formula in integer arithmetic."""
    if bits in _PI_CACHE:
        return _PI_CACHE[bits]
    guard = 64
    one = 1 << (bits + guard)

    def arctan_inv(x):
        total = term = one // x
        x2 = x * x
        n = 1
        while term:
            term //= x2
            n += 2
            total += (-(term // n)) if (n // 2) % 2 else (term // n)
        return total
    pi = 4 * (4 * arctan_inv(5) - arctan_inv(239))
    _PI_CACHE[bits] = pi >> guard
    return _PI_CACHE[bits]


_MODP_C = {2048: 124476, 3072: 1690314, 4096: 240904, 6144: 929484, 8192: 4743158}
_MODP_CACHE = {}


def modp_prime(bits):
    """RFC 3526: p = 2^n - 2^(n-64) - 1 + 2^64 * ( floor(2^(n-130) * pi) + c )."""
    if bits not in _MODP_CACHE:
        _MODP_CACHE[bits] = (1 << bits) - (1 << (bits - 64)) - 1 + (1 << 64) * (_pi_scaled(bits - 130) + _MODP_C[bits])
    return _MODP_CACHE[bits]


def dh_public(group, x):
    if group in MODP_BITS:
        bits = MODP_BITS[group]
        return pow(2, x, modp_prime(bits)).to_bytes(bits // 8, 'big')
    from cryptography.hazmat.primitives.asymmetric import ec
    curve = {19: ec.SECP256R1(), 20: ec.SECP384R1(), 21: ec.SECP521R1()}[group]
    pub = ec.derive_private_key(x, curve).public_key().public_numbers()
    n = (EC_BITS[group] + 7) // 8
    return pub.x.to_bytes(n, 'big') + pub.y.to_bytes(n, 'big')


def dh_shared(group, x, peer_public):
    """g^ir as the octet string RFC 7296 2.14 / RFC 5903 section 7 prescribe."""
    if group in MODP_BITS:
        bits = MODP_BITS[group]
        if len(peer_public) != bits // 8:
            raise ValueError('KE length')
        return pow(int.from_bytes(peer_public, 'big'), x, modp_prime(bits)).to_bytes(bits // 8, 'big')
    from cryptography.hazmat.primitives.asymmetric import ec
    curve = {19: ec.SECP256R1(), 20: ec.SECP384R1(), 21: ec.SECP521R1()}[group]
    n = (EC_BITS[group] + 7) // 8
    if len(peer_public) != 2 * n:
        raise ValueError('KE length')
    peer = ec.EllipticCurvePublicNumbers(int.from_bytes(peer_public[:n], 'big'), int.from_bytes(peer_public[n:], 'big'),
                                         curve).public_key()
    return ec.derive_private_key(x, curve).exchange(ec.ECDH(), peer)     # x coordinate, fixed width


def ke_len(group):
    return MODP_BITS[group] // 8 if group in MODP_BITS else 2 * ((EC_BITS[group] + 7) // 8)


def aes_cbc(key, iv, data, decrypt=False):
    from cryptography.hazmat.primitives.ciphers import Cipher, algorithms, modes
    c = Cipher(algorithms.AES(key), modes.CBC(iv))
    x = c.decryptor() if decrypt else c.encryptor()
    return x.update(data) + x.finalize()


class Suite:
    """Negotiated IKE suite: transform ids and key sizes."""

    def __init__(self, encr_keybits, integ_id, prf_id, dh_group):
        self.ek = encr_keybits // 8
        self.integ, self.prf, self.dh = integ_id, prf_id, dh_group
        self.ak = integ_key_len(integ_id)
        self.pk = prf_len(prf_id)
        self.icv = icv_len(integ_id)

    @classmethod
    def from_proposal(cls, p):
        g = lambda tt: next(t for t in p['transforms'] if t['type'] == tt)
        e = g(T_ENCR)
        if e['id'] != 12:
            raise ValueError('cipher')
        return cls(e['keylen'] or 128, g(T_INTEG)['id'], g(T_PRF)['id'], g(T_DH)['id'])

    def key(self):
        return (self.ek, self.integ, self.prf, self.dh)


def ike_keys(suite, ni, nr, spi_i, spi_r, shared, old_sk_d=None, old_prf=None):
    """RFC 7296 2.14 (initial) / 2.18 (rekey: SKEYSEED = prf(SK_d(old), g^ir (new) | Ni | Nr), old PRF)."""
    if old_sk_d is None:
        skeyseed = prf(suite.prf, ni + nr, shared)
    else:
        skeyseed = prf(old_prf, old_sk_d, shared + ni + nr)
    n = 3 * suite.pk + 2 * suite.ak + 2 * suite.ek
    km = prf_plus(suite.prf, skeyseed, ni + nr + spi_i + spi_r, n)
    o = 0
    out = {'skeyseed': skeyseed}
    for name, ln in (('d', suite.pk), ('ai', suite.ak), ('ar', suite.ak), ('ei', suite.ek), ('er', suite.ek),
                     ('pi', suite.pk), ('pr', suite.pk)):
        out[name] = km[o:o + ln]
        o += ln
    return out


def child_keymat(prf_id, sk_d, ni, nr, encr_keybits, integ_id, shared=None):
    """RFC 7296 2.17: KEYMAT = prf+(SK_d, [g^ir (new) |] Ni | Nr); encryption key before integrity key,
    initiator-to-responder SA first."""
    ek = (encr_keybits or 0) // 8
    ak = integ_key_len(integ_id)
    km = prf_plus(prf_id, sk_d, (shared or b'') + ni + nr, 2 * (ek + ak))
    return {'ei': km[0:ek], 'ai': km[ek:ek + ak], 'er': km[ek + ak:2 * ek + ak], 'ar': km[2 * ek + ak:2 * ek + 2 * ak]}


def sk_open(data, suite, sk_a, sk_e):
    """Verify and decrypt a protected message. Returns (header, inner chain, info) or raises DecodeError."""
    h = dec_header(data)
    if h['length'] != len(data):
        raise DecodeError('length')
    chain = dec_chain(data[28:], h['next'])
    if not chain or chain[-1]['type'] != P_SK:
        raise DecodeError('no SK payload at the end')
    if len(chain) != 1:
        e2 = DecodeError('cleartext payloads beside SK')
        e2.kind = 'cleartext_beside_sk'
        raise e2
    icv = suite.icv
    icv_ok = _hmac.compare_digest(integ(suite.integ, sk_a, data[:-icv]), data[-icv:])
    body = chain[-1]['body']
    if len(body) < 16 + 16 + icv or (len(body) - 16 - icv) % 16:
        e2 = DecodeError('SK geometry' if icv_ok else 'ICV mismatch and SK geometry')
        if not icv_ok:
            e2.kind = _icv_diagnosis(data, suite, sk_a) or 'keys'
            if e2.kind != 'keys':
                e2.args = (f'the checksum is the right HMAC under SK_a but truncated to another length than the negotiated {icv} octets',)
        raise e2
    iv, ct = body[:16], body[16:-icv]
    pt = aes_cbc(sk_e, iv, ct, decrypt=True)
    pad = pt[-1]
    inner_ok = True
    try:
        if pad + 1 > len(pt):
            raise DecodeError('pad length')
        inner = pt[:-1 - pad]
        inner_chain = dec_chain(inner, chain[-1]['next'])
    except DecodeError as ex:
        if icv_ok:
            e2 = DecodeError(f'plaintext malformed although the checksum verifies: {ex}')
            e2.kind = 'plaintext'
            raise e2
        inner_ok = False
    if not icv_ok:
        # do the encryption keys work?  then the key schedule is right and it is the checksum construction that deviates
        e2 = DecodeError('ICV mismatch' + (' (but the ciphertext decrypts to a well-formed payload chain under SK_e)' if inner_ok else ''))
        e2.kind = 'icv_only' if inner_ok else (_icv_diagnosis(data, suite, sk_a) or 'keys')
        raise e2
    return h, inner_chain, {'iv': iv, 'pad': pad, 'plain_len': len(inner), 'padding': pt[-1 - pad:-1]}


def _icv_diagnosis(data, suite, sk_a):
    """The negotiated checksum does not verify: is it nevertheless the right HMAC under the right key, cut to another length?"""
    hfun = INTEG_HASH[suite.integ][0]
    for ln in range(4, hfun().digest_size + 1):
        if ln != suite.icv and len(data) > 28 + ln and _hmac.new(sk_a, data[:-ln], hfun).digest()[:ln] == data[-ln:]:
            return 'icv_length'
    return None


def sk_seal(h, payloads, suite, sk_a, sk_e, iv, pad_extra=0, pad_fill=None, outer=None):
    """Build a protected message (reference encoder).  pad_fill: None (zeros) or a callable n -> n octets of Padding ("Padding MAY contain
    any value chosen by the sender", RFC 7296 3.14)."""
    inner = enc_chain(payloads)
    first = payloads[0]['type'] if payloads else 0
    pad = (-(len(inner) + 1)) % 16 + 16 * pad_extra
    fill = bytes(pad_fill(pad))[:pad].ljust(pad, b'\0') if pad_fill else b'\0' * pad
    pt = inner + fill + bytes([pad])
    ct = aes_cbc(sk_e, iv, pt)
    sk_body = iv + ct + b'\0' * suite.icv
    total = 28 + 4 + len(sk_body)
    flags = (8 if h['I'] else 0) | (32 if h['R'] else 0)
    if outer:
        # cleartext payloads in front of the Encrypted payload (legal: RFC 7296 3.14 only wants SK to be the last payload); the checksum
        # covers them like the rest of the message
        pre = enc_chain(list(outer), last_next=P_SK)
        total += len(pre)
        msg = bytearray(enc_header(h['spi_i'], h['spi_r'], outer[0]['type'], h['exch'], h.get('flags', flags), h['id'], total) + pre +
                        struct.pack('>BBH', first, 0, 4 + len(sk_body)) + sk_body)
        msg[-suite.icv:] = integ(suite.integ, sk_a, bytes(msg[:-suite.icv]))
        return bytes(msg)
    msg = bytearray(enc_header(h['spi_i'], h['spi_r'], P_SK, h['exch'], h.get('flags', flags), h['id'], total) +
                    struct.pack('>BBH', first, 0, 4 + len(sk_body)) + sk_body)
    msg[-suite.icv:] = integ(suite.integ, sk_a, bytes(msg[:-suite.icv]))
    return bytes(msg)


def auth_octets(msg_octets, nonce_other, prf_id, sk_p, id_body):
    """RFC 7296 2.15: RealMessage | NonceData(other side) | prf(SK_p, RestOfIDPayload)."""
    return msg_octets + nonce_other + prf(prf_id, sk_p, id_body)


def psk_auth(prf_id, psk, octets):
    return prf(prf_id, prf(prf_id, psk, b'Key Pad for IKEv2'), octets)


def id_body(p):
    return bytes([p['id_type']]) + b'\0\0\0' + p['data']
