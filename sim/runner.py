"""Seeded search driver shared by every check: parallel runs, known-findings triage, minimisation,
replay verification in a fresh interpreter, evidence file, exit codes (0 held / 1 VIOLATION / 2 harness)."""
import argparse
import concurrent.futures as cf
import copy
import faulthandler
import hashlib
import json
import multiprocessing
import os
import subprocess
import sys
import time
import traceback

VERIF = os.path.dirname(os.path.dirname(os.path.abspath(__file__)))
PY = sys.executable


# ------------------------------------------------------------------------------------ known findings

def load_findings():
    p = os.path.join(VERIF, 'known_findings.json')
    if not os.path.exists(p):
        return []
    with open(p) as f:
        return json.load(f)['findings']


def match_finding(v, findings):
    for f in findings:
        if f.get('status') != 'open' or f['property'] != v['property'] or f['class'] != v['class']:
            continue
        sig = f.get('signature', {})
        if all(v.get('signature', {}).get(k) == val for k, val in sig.items()):
            return f
    return None


def vkey(v):
    return (v['property'], v['class'], json.dumps(v.get('signature', {}), sort_keys=True))


# ------------------------------------------------------------------------------------ worker side

_CHECK = None


def _load(modname):
    global _CHECK
    if _CHECK is None or _CHECK.__name__ != modname:
        import importlib
        _CHECK = importlib.import_module(modname)
    return _CHECK


def run_one(modname, scenario):
    """Execute one scenario; returns a compact, picklable result. Never raises."""
    chk = _load(modname)
    t0 = time.time()
    try:
        res = chk.run(scenario)
        res.setdefault('violations', [])
        res.setdefault('stats', {})
        res['wall'] = time.time() - t0
        res['seed'] = scenario.get('seed')
        return res
    except BaseException as ex:   # harness trouble (incl. HarnessTimeout); never a verdict about /repo
        return {'harness_error': f'{type(ex).__name__}: {ex}', 'traceback': traceback.format_exc(),
                'seed': scenario.get('seed'), 'violations': [], 'stats': {}, 'wall': time.time() - t0}


def _worker_chunk(modname, tier, seeds, deadline):
    faulthandler.enable()
    chk = _load(modname)
    out = []
    for s in seeds:
        if time.time() > deadline:
            break
        try:
            sc = chk.generate(s, tier)
        except BaseException as ex:
            out.append({'harness_error': f'generate: {type(ex).__name__}: {ex}', 'traceback': traceback.format_exc(),
                        'seed': s, 'violations': [], 'stats': {}, 'wall': 0})
            continue
        r = run_one(modname, sc)
        if r['violations'] or r.get('harness_error'):
            r['scenario'] = r.get('scenario') or sc
        else:
            r.pop('scenario', None)
        out.append(r)
    return out


# ------------------------------------------------------------------------------------ minimisation

def _same(v, target):
    return v['property'] == target['property'] and v['class'] == target['class'] and \
        all(v.get('signature', {}).get(k) == val for k, val in target.get('signature', {}).items()
            if k in target.get('min_keys', target.get('signature', {}).keys()))


def _fails(modname, sc, target):
    r = run_one(modname, sc)
    for v in r['violations']:
        if _same(v, target):
            return v, r
    return None, r


def _ddmin(items, test, budget):
    """Classic ddmin over a list; test(list) -> bool (still failing)."""
    n = 2
    while len(items) >= 2 and time.time() < budget:
        chunk = max(1, len(items) // n)
        subsets = [items[i:i + chunk] for i in range(0, len(items), chunk)]
        reduced = False
        for i in range(len(subsets)):
            if time.time() > budget:
                break
            comp = [x for j, s in enumerate(subsets) if j != i for x in s]
            if test(comp):
                items = comp
                n = max(n - 1, 2)
                reduced = True
                break
        if not reduced:
            if n >= len(items):
                break
            n = min(len(items), n * 2)
    if len(items) == 1 and time.time() < budget and test([]):
        items = []
    return items


def minimise(modname, scenario, target, wall=90.0):
    """Shrink ops, then explicit fates, then the horizon; a candidate is kept iff the same violation class
    (and the signature keys named in min_keys) shows again."""
    budget = time.time() + wall
    sc = copy.deepcopy(scenario)
    v, r = _fails(modname, sc, target)
    if v is None:
        return sc, None
    best_v = v
    # 1. horizon right after the violating step
    t_v = v.get('t')
    if t_v is not None and sc.get('until', 0) > t_v + 0.5:
        cand = copy.deepcopy(sc)
        cand['until'] = round(t_v + 0.5, 3)
        cand['ops'] = [o for o in cand.get('ops', []) if o.get('t', 0) <= cand['until']]
        vv, _ = _fails(modname, cand, target)
        if vv is not None:
            sc, best_v = cand, vv
    # 2. ops (node starts are kept)
    fixed = [o for o in sc.get('ops', []) if o['op'] == 'start']
    var = [o for o in sc.get('ops', []) if o['op'] != 'start']

    def test_ops(sub):
        cand = copy.deepcopy(sc)
        cand['ops'] = sorted(fixed + sub, key=lambda o: o.get('t', 0))
        vv, _ = _fails(modname, cand, target)
        return vv is not None
    var = _ddmin(var, test_ops, budget)
    sc['ops'] = sorted(fixed + var, key=lambda o: o.get('t', 0))
    # 3. fates -> plain delivery
    keys = sorted(sc.get('fates', {}))

    def test_fates(sub):
        cand = copy.deepcopy(sc)
        cand['fates'] = {k: sc['fates'][k] for k in sub}
        vv, _ = _fails(modname, cand, target)
        return vv is not None
    if keys and time.time() < budget:
        keys = _ddmin(keys, test_fates, budget)
        sc['fates'] = {k: sc['fates'][k] for k in keys}
    vv, r = _fails(modname, sc, target)
    return sc, (vv or best_v)


# ------------------------------------------------------------------------------------ evidence

def write_evidence(prop, tier, seed, level, coverage, wall, violations, assumptions):
    os.makedirs(os.path.join(VERIF, 'evidence'), exist_ok=True)
    ev = {'property_id': prop, 'tier': tier, 'seed': seed, 'level': level, 'coverage': coverage,
          'assumptions': assumptions, 'wall_s': round(wall, 2), 'violations': violations}
    p = os.path.join(VERIF, 'evidence', f'{prop}.json')
    tmp = p + '.tmp'
    with open(tmp, 'w') as f:
        json.dump(ev, f, indent=1, sort_keys=True, default=str)
    os.replace(tmp, p)
    return p


def _merge_counts(dst, src):
    for k, v in (src or {}).items():
        if isinstance(v, (int, float)):
            dst[k] = dst.get(k, 0) + v


# ------------------------------------------------------------------------------------ main

def replay_file(modname, path, verbose=True):
    chk = _load(modname)
    with open(path) as f:
        doc = json.load(f)
    sc = doc['scenario']
    if verbose:
        sc = dict(sc)
        sc['keep_events'] = True
    r = run_one(modname, sc)
    if r.get('harness_error'):
        print('HARNESS-ERROR', r['harness_error'])
        print(r.get('traceback', ''))
        return 2
    want = doc.get('violation')
    hit = None
    for v in r['violations']:
        if want is None or (v['property'] == want['property'] and v['class'] == want['class']):
            hit = v
            break
    if verbose and r.get('trace'):
        for line in r['trace']:
            print(line)
    print(json.dumps({'digest': r.get('digest'), 'violations': r['violations'][:5]}, indent=1, default=str))
    if hit:
        print(f'VIOLATION property={hit["property"]} replay={path}')
        return 1
    print('replay: no violation')
    return 0


def main(modname, argv=None):
    chk = _load(modname)
    ap = argparse.ArgumentParser(prog=f'check {chk.PROP}')
    ap.add_argument('--tier', default=os.environ.get('VERIF_TIER', 'quick'), choices=['quick', 'thorough'])
    ap.add_argument('--replay')
    ap.add_argument('--runs', type=int)
    ap.add_argument('--wall', type=float)
    ap.add_argument('--jobs', type=int, default=int(os.environ.get('VERIF_JOBS', '0')) or min(16, os.cpu_count() or 4))
    ap.add_argument('--seed', type=int, default=int(os.environ.get('VERIF_SEED', '1')))
    ap.add_argument('--no-min', action='store_true')
    ap.add_argument('--quiet', action='store_true')
    a = ap.parse_args(argv)
    if a.replay:
        return replay_file(modname, a.replay, verbose=not a.quiet)

    t0 = time.time()
    budget = chk.BUDGET[a.tier]
    n_runs = a.runs or budget['runs']
    wall = a.wall or budget['wall']
    deadline = t0 + wall
    base = a.seed * 1_000_003 + (0 if a.tier == 'quick' else 500_000_000)
    skip = int(os.environ.get('VERIF_SKIP', '0'))       # soaks: start further down the same seed sequence (default 0: the registered commands)
    seeds = [base + skip + i for i in range(n_runs)]
    print(f'VERIF_SEED={a.seed} property={chk.PROP} tier={a.tier} runs<={n_runs} wall<={wall}s jobs={a.jobs}',
          flush=True)
    chunk = max(1, min(budget.get('chunk', 8), n_runs // (a.jobs * 4) or 1))
    chunks = [seeds[i:i + chunk] for i in range(0, len(seeds), chunk)]
    results = []
    harness_errors = []
    ctx = multiprocessing.get_context('fork')
    with cf.ProcessPoolExecutor(max_workers=a.jobs, mp_context=ctx) as ex:
        futs = [ex.submit(_worker_chunk, modname, a.tier, c, deadline) for c in chunks]
        try:
            for fu in cf.as_completed(futs, timeout=wall + 120):
                try:
                    results.extend(fu.result())
                except BaseException as e:
                    harness_errors.append(f'worker: {type(e).__name__}: {e}')
        except cf.TimeoutError:
            harness_errors.append('HARNESS-TIMEOUT: worker pool did not finish')
            for p in list(getattr(ex, '_processes', {}).values()):
                try:
                    p.kill()
                except Exception:
                    pass
    results.sort(key=lambda r: r.get('seed') or 0)

    findings = load_findings()
    agg = {'fault_counts': {}, 'reach': {}, 'foreign': {}}
    sigs, states = set(), set()
    sim_seconds = 0.0
    nontrivial = 0
    samples = []
    known_hits = {}
    fresh = {}
    for r in results:
        if r.get('harness_error'):
            harness_errors.append(f'seed {r.get("seed")}: {r["harness_error"]}\n{r.get("traceback", "")}')
            continue
        st = r.get('stats', {})
        _merge_counts(agg['fault_counts'], st.get('fault_counts'))
        _merge_counts(agg['reach'], st.get('reach'))
        _merge_counts(agg['foreign'], st.get('foreign'))
        sim_seconds += st.get('sim_seconds', 0.0)
        if st.get('nontrivial'):
            nontrivial += 1
            if st.get('sig'):
                sigs.add(st['sig'])
        for s in st.get('states', []):
            states.add(s)
        if st.get('sample') is not None and len(samples) < 3:
            samples.append(st['sample'])
        for v in r['violations']:
            if v['property'] != chk.PROP:
                agg['foreign'][v['property'] + ':' + v['class']] = agg['foreign'].get(v['property'] + ':' + v['class'], 0) + 1
                continue
            f = match_finding(v, findings)
            if f is not None:
                known_hits.setdefault(f['id'], [f, 0])[1] += 1
            else:
                fresh.setdefault(vkey(v), (v, r))
    evaluations = sum(1 for r in results if not r.get('harness_error'))
    wall_search = time.time() - t0

    # ---- report known findings
    for fid, (f, n) in sorted(known_hits.items()):
        print(f'KNOWN-FINDING: property={chk.PROP} {f["what"]} [{fid}, hit {n}x]')

    # ---- fresh violations: minimise, write replay, verify in a fresh interpreter
    exit_code = 0
    reported = []
    for key, (v, r) in list(fresh.items())[:3]:
        sc = r['scenario']
        target = dict(v)
        if not a.no_min:
            sc2, v2 = minimise(modname, sc, target, wall=budget.get('min_wall', 90.0))
            if v2 is not None:
                sc, v = sc2, v2
        rdir = os.environ.get('VERIF_REPLAY_DIR') or os.path.join(VERIF, 'replays')
        os.makedirs(rdir, exist_ok=True)
        h = hashlib.sha1(json.dumps(key).encode()).hexdigest()[:8]
        path = os.path.join(rdir, f'{chk.PROP}-{sc.get("seed")}-{h}.json')
        with open(path, 'w') as f:
            json.dump({'property': chk.PROP, 'violation': v, 'scenario': sc}, f, indent=1, default=str)
        env = dict(os.environ)
        env['PYTHONHASHSEED'] = '12345'
        try:
            cp = subprocess.run([PY, os.path.join(VERIF, 'check'), chk.PROP, '--replay', path, '--quiet'],
                                env=env, capture_output=True, text=True, timeout=300)
            reproduced = cp.returncode == 1 and f'VIOLATION property={chk.PROP}' in cp.stdout
        except subprocess.TimeoutExpired:
            reproduced = False
            cp = None
        if reproduced:
            print(f'VIOLATION property={chk.PROP} replay={path}')
            print(f'  class={v["class"]} signature={json.dumps(v.get("signature", {}), sort_keys=True)}')
            print(f'  detail: {str(v.get("detail"))[:600]}')
            print(f'  minimised to {len(sc.get("ops", []))} ops, {len(sc.get("fates", {}))} non-default fates')
            reported.append(v)
            exit_code = 1
        else:
            harness_errors.append(f'HARNESS-NONDETERMINISM: violation {key} did not reproduce in a fresh interpreter '
                                  f'({path}); stdout: {(cp.stdout[-400:] if cp else "timeout")}')
    if len(fresh) > 3:
        print(f'({len(fresh) - 3} further distinct violation signatures not minimised)')

    total_wall = time.time() - t0
    coverage = {
        'evaluations': max(evaluations, 0),
        'distinct_nontrivial': len(sigs),
        'rule': getattr(chk, 'RULE', 'one evaluation = one seeded simulated run; distinct = distinct interleaving '
                                     'signature among runs in which the property-relevant probe fired'),
        'samples': samples,
        'nontrivial_runs': nontrivial,
        'distinct_states': len(states),
        'seeds_per_hour': int(evaluations / max(wall_search, 1e-6) * 3600),
        'simulated_seconds': round(sim_seconds, 1),
        'fault_counts': dict(sorted(agg['fault_counts'].items())),
        'reach': dict(sorted(agg['reach'].items())),
        'foreign_observations': dict(sorted(agg['foreign'].items())),
        'known_findings_hit': {k: n for k, (f, n) in known_hits.items()},
        'components': getattr(chk, 'COMPONENTS', {}),
        'coverage_gaps': sorted(k for k in getattr(chk, 'EXPECT_REACH', []) if not agg['reach'].get(k)),
        'not_exercised': getattr(chk, 'NOT_EXERCISED', []),
        'harness_errors': len(harness_errors),
        'first_seed': seeds[0], 'seed_count_requested': n_runs,
    }
    if not os.environ.get('VERIF_NO_EVIDENCE'):      # (the sensitivity self-test runs against a patched scratch copy: that is no evidence)
        write_evidence(chk.PROP, a.tier, a.seed, getattr(chk, 'LEVEL', 'exploration'), coverage, total_wall,
                       len(reported), getattr(chk, 'ASSUMPTIONS', []))
    print(f'runs={evaluations} nontrivial={nontrivial} distinct={len(sigs)} states={len(states)} '
          f'sim_s={sim_seconds:.0f} wall={total_wall:.1f}s known={len(known_hits)} fresh={len(fresh)}')
    if coverage['coverage_gaps']:
        print('coverage gaps:', coverage['coverage_gaps'], file=sys.stderr)
    if harness_errors:
        for h in harness_errors[:5]:
            print('HARNESS-ERROR', h[:3000], file=sys.stderr)
        if exit_code == 0:
            exit_code = 2
    return exit_code
