"""Scenario execution: a scenario is explicit data (nodes, ops, fates, seeds); executing it is a pure
function of that data and the code under test."""
import copy
import ipaddress
import socket as _socket

from .world import World, BASE_LATENCY
from .kernel import K, ENOMEM, EINVAL, EEXIST, ESRCH, ENOBUFS

ERRNOS = {'ENOMEM': ENOMEM, 'EINVAL': EINVAL, 'EEXIST': EEXIST, 'ESRCH': ESRCH, 'ENOBUFS': ENOBUFS, 'EPERM': 1}


def shared_children(world, a='A', b='B'):
    """CHILD_SAs both nodes track (mirror SPI pairs), in a deterministic order:
    list of (ike_sa_a, child_a, ike_sa_b, child_b)."""
    out = []
    na, nb = world.nodes.get(a), world.nodes.get(b)
    if na is None or nb is None:
        return out
    for sa in na.ike_sas():
        for ch in sa.child_sas:
            for sb in nb.ike_sas():
                for chb in sb.child_sas:
                    if ch.inbound_spi == chb.outbound_spi and ch.outbound_spi == chb.inbound_spi:
                        out.append((sa, ch, sb, chb))
    out.sort(key=lambda x: x[1].inbound_spi)
    return out


def apply_op(world, op, ctx=None):
    kind = op['op']
    w = world
    if kind == 'start':
        w.start_node(op['node'])
        w.note('node.start', op['node'])
    elif kind == 'stop':
        w.stop_node(op['node'], 'shutdown')
    elif kind == 'crash':
        n = w.nodes[op['node']]
        if n.state == 'running':
            k = op.get('k', 0)
            if k <= 0:
                w.stop_node(op['node'], 'crash')
            else:
                w.crash_in(op['node'], k)
    elif kind == 'restart':
        n = w.nodes[op['node']]
        if n.state != 'running':
            n.crash_countdown = None
            w.start_node(op['node'])
            w.note('node.restart', op['node'])
    elif kind == 'packet':
        res, _ = w.packet(op['node'], op['flow'], op.get('extra_attrs', False))
        w.record(('packet', op['node'], res))
        w.count_fault('workload.packet.' + res)
        if ctx is not None:
            ctx.setdefault('packets', []).append((w.now, op['node'], op['flow'], res))
    elif kind == 'expire':
        # kernel expires an SA early (byte/packet limits make this legal kernel behaviour)
        n = w.nodes[op['node']]
        if op.get('shared', True):
            sh = shared_children(w, op['node'], 'B' if op['node'] == 'A' else 'A')
            if not sh:
                return
            sa, ch, _, _ = sh[op.get('which', 0) % len(sh)]
            spi = ch.inbound_spi if op.get('dir', 'in') == 'in' else ch.outbound_spi
            keys = [k for k in n.kernel.sad if k[2] == spi]
        else:
            keys = sorted(n.kernel.sad)
            if keys:
                keys = [keys[op.get('which', 0) % len(keys)]]
        if keys:
            if n.kernel.expire_now(keys[0], bool(op.get('hard', 0))):
                w.count_fault('kern.expire.' + ('hard' if op.get('hard') else 'soft'))
    elif kind == 'clockjump':
        w.nodes[op['node']].skew += op['delta']
        w.note('clock.jump', op['node'], op['delta'])
        if op.get('wake'):
            # select() may return early with nothing readable: the timers are looked at now instead of at the next 1 s tick
            w.wake(w.nodes[op['node']], ('tick',))
    elif kind == 'stall':
        n = w.nodes[op['node']]
        n.stalled_until = max(n.stalled_until, w.now + op['dur'])
        w.note('node.stall', op['node'], op['dur'])
    elif kind == 'partition':
        w.partition(op.get('a', 'A'), op.get('b', 'B'), True)
    elif kind == 'heal':
        w.partition(op.get('a', 'A'), op.get('b', 'B'), False)
    elif kind == 'status':
        res = w.status_query(op['node'])
        if ctx is not None:
            ctx.setdefault('status', []).append((w.now, op['node'], res))
    elif kind == 'kerr':
        n = w.nodes[op['node']]
        if n.state != 'running' or n.control is None:
            return          # not in its event loop yet: start-up failures are not what this fault is for
        n.kernel.inject[n.kernel.req_no + op.get('nth', 1)] = ERRNOS[op.get('errno', 'ENOMEM')]
    elif kind == 'kerr_boot':
        # the kernel refuses the nth netlink request of the incarnation that is about to start (flush, NEWPOLICY)
        n = w.nodes[op['node']]
        if n.state == 'down':
            n.kernel.inject[n.kernel.req_no + op.get('nth', 1)] = ERRNOS[op.get('errno', 'ENOMEM')]
    elif kind == 'knlfail':
        # a netlink transport fault (not a refusal by the kernel) on the nth request from now: 'send' = the request is not delivered,
        # 'recv' = it is carried out but the acknowledgement is lost
        n = w.nodes[op['node']]
        if n.state != 'running' or n.control is None:
            return
        if not hasattr(n.kernel, 'nl_fault'):
            n.kernel.nl_fault = {}
        n.kernel.nl_fault[n.kernel.req_no + op.get('nth', 1)] = op.get('how', 'send')
    elif kind == 'sendfail':
        n = w.nodes[op['node']]
        if n.state != 'running':
            return
        exc = op.get('exc', 'oserror')
        if exc == 'gaierror':
            f = lambda: _socket.gaierror(-2, 'Name or service not known')
        elif exc == 'eperm':
            f = lambda: PermissionError(1, 'Operation not permitted')
        else:
            f = lambda: OSError(101, 'Network is unreachable')
        n.sendto_fail[n.sendto_no + op.get('nth', 1)] = f
    elif kind == 'recvfail':
        n = w.nodes[op['node']]
        if n.state != 'running':
            return
        if op.get('sock', 'udp') == 'nl':
            n.recv_fail['nl'].append(lambda: OSError(105, 'No buffer space available'))
        else:
            exc = op.get('exc', 'refused')
            n.recv_fail['udp'].append((lambda: ConnectionRefusedError(111, 'Connection refused')) if exc == 'refused' else
                                      (lambda: OSError(113, 'No route to host')))
    elif kind == 'kraw':
        n = w.nodes[op['node']]
        n.kernel.raw_event(bytes.fromhex(op['hex']), op.get('what', 'raw'))
        w.count_fault('kern.raw.' + op.get('what', 'raw'))
    elif kind == 'inject':
        w.net.inject(bytes.fromhex(op['hex']), op['src'], op['dst'], op.get('delay', 0.0), op.get('label', 'inject'))
    elif kind == 'call':
        # dynamic op implemented by the check (forger etc.): ctx['handlers'][name](world, op)
        h = (ctx or {}).get('handlers', {}).get(op['name'])
        if h:
            h(w, op)
    else:
        raise ValueError(f'unknown op {kind}')


def execute(scenario, setup=None, ctx=None):
    """Build the world, attach monitors through setup(world, ctx), schedule the ops, run, tear down.
    Returns the world (already finished)."""
    w = World(scenario)
    ctx = ctx if ctx is not None else {}
    ctx['world'] = w
    try:
        if setup:
            setup(w, ctx)
        for i, op in enumerate(scenario.get('ops', [])):
            w.at(op.get('t', 0.0), (lambda o=op: apply_op(w, o, ctx)), tag='op')
        w.run(until=scenario.get('until', 60.0))
        end = ctx.get('at_end')
        if end and not w.poisoned:
            end(w, ctx)
    finally:
        w.finish()
    return w


def replayable(scenario, world):
    """The explicit form of an executed scenario: every fate that was applied becomes an explicit entry and the
    policy becomes plain delivery, so that replay consults no PRNG for the network."""
    s = copy.deepcopy(scenario)
    s['fates'] = dict(world.decisions.applied)
    s['fate_policy'] = {'mode': 'deliver', 'lat': BASE_LATENCY}
    return s
