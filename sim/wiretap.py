"""Passive wiretap: an independent third implementation (sim/refike.py) listening to every datagram the real daemons
put on the wire.  It follows each IKE_SA from IKE_SA_INIT, takes nonces / SPIs / KE values from the wire and the two DH
scalars from the DH seam, derives every key itself, verifies the MAC and padding of every protected message, decrypts
and decodes it, re-encodes it and compares octets, recomputes AUTH, derives KEYMAT for every CHILD_SA and the keys of
every rekeyed IKE_SA down the chain.  Sessions it cannot follow are marked opaque, never guessed."""
import ipaddress

from . import refike as R
from . import seams, configs


class Session:
    def __init__(self, spi_i, spi_r):
        self.spi_i, self.spi_r = spi_i, spi_r
        self.keys = None
        self.suite = None
        self.ni = self.nr = None
        self.init_req = self.init_res = None       # raw octets as they crossed the wire
        self.initiator = self.responder = None     # node names (original initiator of THIS IKE_SA)
        self.i_addr = self.r_addr = None
        self.opaque = None
        self.parent = None
        self.generation = 0
        self.auth = {}                             # 'i' / 'r' -> True/False/None
        self.ids = {}
        self.requests = {}                         # (sender_is_initiator, msg id) -> decoded record
        self.ivs = set()
        self.shared = None
        self.established = False


class Wiretap:
    def __init__(self, world, check_reencode=True):
        self.w = world
        self.sessions = {}
        self.init_reqs = {}          # spi_i -> list of (raw, header, payloads, sender, src, dst)
        self.init_ress = {}          # (spi_i, spi_r) -> list of (raw, header, payloads, sender)
        self.problems = []           # dicts: kind, detail, t, sender
        self.messages = []           # decoded records
        self.children = []           # expected CHILD_SAs
        self.counts = {}
        self.check_reencode = check_reencode
        self.secrets = []            # (label, bytes) every secret the reference derived (for C20)
        self.conf = {n: configs.read_conf(nd['conf']) for n, nd in world.scenario['nodes'].items()}
        self.addr2node = {str(a): n for n, nd in world.scenario['nodes'].items() for a in nd['addrs']}
        world.net.taps.append(self)

    # ------------------------------------------------------------------------------------------
    def _c(self, k, n=1):
        self.counts[k] = self.counts.get(k, 0) + n

    def problem(self, kind, detail, meta=None, **sig):
        self.problems.append({'kind': kind, 'detail': detail, 't': self.w.now, 'sender': (meta or {}).get('sender'), 'sig': sig})

    def secret(self, label, value):
        if value and len(value) >= 8:
            self.secrets.append((label, bytes(value)))

    @staticmethod
    def scalar_of(public):
        ent = seams.DH_SCALARS.get(bytes(public))
        return ent[2] if ent else None

    # ------------------------------------------------------------------------------------------
    def on_wire(self, meta, data):
        self._c('datagrams')
        try:
            h = R.dec_header(data)
        except R.DecodeError as ex:
            return self.problem('emitted_undecodable', f'{meta["sender"]} emitted {len(data)} octets: {ex}', meta)
        if h['length'] != len(data):
            self.problem('emitted_wrong_length', f'{meta["sender"]}: header length {h["length"]} for {len(data)} octets', meta)
            return
        if h['exch'] == R.IKE_SA_INIT:
            return self._init(meta, data, h)
        return self._protected(meta, data, h)

    # ------------------------------------------------------------------------------------------
    def _reencode_clear(self, meta, data, h, pls):
        if not self.check_reencode:
            return
        try:
            again = R.encode({'spi_i': h['spi_i'], 'spi_r': h['spi_r'], 'exch': h['exch'], 'I': h['I'], 'R': h['R'], 'V': h['V'],
                              'id': h['id'], 'major': h['major'], 'minor': h['minor']}, pls)
        except Exception as ex:
            return self.problem('reference_encoder_failed', f'{ex!r}', meta)
        self._c('reencoded_clear')
        if again != bytes(data):
            pos = next((i for i, (a, b) in enumerate(zip(again, data)) if a != b), min(len(again), len(data)))
            self.problem('encoding_differs_from_reference', f'{meta["sender"]}: cleartext {R.PNAMES.get(pls[0]["type"]) if pls else ""} message '
                         f'differs from the RFC 7296 layout at octet {pos} (emitted {bytes(data)[pos:pos + 8].hex()}, reference {again[pos:pos + 8].hex()})',
                         meta, where='clear')

    def _init(self, meta, data, h):
        try:
            chain = R.dec_chain(data[28:], h['next'])
            pls = [R.dec_payload(p) for p in chain]
        except R.DecodeError as ex:
            return self.problem('emitted_undecodable', f'{meta["sender"]} IKE_SA_INIT: {ex}', meta)
        self._reencode_clear(meta, data, h, pls)
        rec = {'t': self.w.now, 'sender': meta['sender'], 'h': h, 'payloads': pls, 'raw': bytes(data), 'session': None, 'clear': True,
               'src': meta['src'], 'dst': meta['dst']}
        self.messages.append(rec)
        for p in pls:
            if p['type'] == R.P_KE and p['group'] in list(R.MODP_BITS) + list(R.EC_BITS):
                if len(p['data']) != R.ke_len(p['group']):
                    self.problem('ke_wrong_length', f'{meta["sender"]}: KE for group {p["group"]} has {len(p["data"])} octets, '
                                 f'expected {R.ke_len(p["group"])}', meta, group=p['group'])
        if not h['R']:
            self.init_reqs.setdefault(h['spi_i'], []).append((bytes(data), h, pls, meta['sender'], meta['src'], meta['dst']))
        else:
            if any(p['type'] == R.P_SA for p in pls):
                self.init_ress.setdefault((h['spi_i'], h['spi_r']), []).append((bytes(data), h, pls, meta['sender']))

    def note_rewrite(self, meta, original, rewritten):
        """A man in the middle replaced a datagram in flight: the variants that actually reach the receiver are candidates too
        (each endpoint derives its keys from what IT sent and what IT received)."""
        self._c('rewritten_in_flight')
        for data in rewritten:
            try:
                h = R.dec_header(data)
                if h['length'] != len(data):
                    continue
                if h['exch'] != R.IKE_SA_INIT:
                    # a protected REQUEST re-sealed by the interposer: from now on it is the request of that exchange (the
                    # responder answers what it received).  Rewritten responses are judged by whoever rewrote them.
                    if not h['R'] and (h['spi_i'], h['spi_r']) in self.sessions:
                        n0 = len(self.messages)
                        self._protected(dict(meta, rewritten=True), data, h)
                        for m in self.messages[n0:]:
                            m['rewritten'] = True
                    continue
                pls = [R.dec_payload(p) for p in R.dec_chain(data[28:], h['next'])]
            except R.DecodeError:
                continue
            self.messages.append({'t': self.w.now, 'sender': meta['sender'], 'h': h, 'payloads': pls, 'raw': bytes(data), 'session': None,
                                  'clear': True, 'src': meta['src'], 'dst': meta['dst'], 'rewritten': True})
            if not h['R']:
                self.init_reqs.setdefault(h['spi_i'], []).append((bytes(data), h, pls, meta['sender'], meta['src'], meta['dst']))
            elif any(p['type'] == R.P_SA for p in pls):
                self.init_ress.setdefault((h['spi_i'], h['spi_r']), []).append((bytes(data), h, pls, meta['sender']))

    def _try_establish(self, spi_i, spi_r, probe_data, probe_from_initiator):
        """Find the (request, response) pair of IKE_SA_INIT messages whose keys open `probe_data`."""
        for res_raw, rh, rpls, rsender in reversed(self.init_ress.get((spi_i, spi_r), [])):
            sa = next(p for p in rpls if p['type'] == R.P_SA)
            try:
                suite = R.Suite.from_proposal(sa['proposals'][0])
                ke_r = next(p for p in rpls if p['type'] == R.P_KE)
                nr = next(p for p in rpls if p['type'] == R.P_NONCE)['data']
            except (StopIteration, ValueError, KeyError, IndexError):
                continue
            for req_raw, qh, qpls, qsender, qsrc, qdst in reversed(self.init_reqs.get(spi_i, [])):
                try:
                    ke_i = next(p for p in qpls if p['type'] == R.P_KE)
                    ni = next(p for p in qpls if p['type'] == R.P_NONCE)['data']
                except StopIteration:
                    continue
                if ke_i['group'] != suite.dh or ke_r['group'] != suite.dh:
                    continue
                xi, xr = self.scalar_of(ke_i['data']), self.scalar_of(ke_r['data'])
                try:
                    if xi is not None:
                        shared = R.dh_shared(suite.dh, xi, ke_r['data'])
                    elif xr is not None:
                        shared = R.dh_shared(suite.dh, xr, ke_i['data'])
                    else:
                        continue
                except Exception:
                    continue
                keys = R.ike_keys(suite, ni, nr, spi_i, spi_r, shared)
                a, e = (keys['ai'], keys['ei']) if probe_from_initiator else (keys['ar'], keys['er'])
                try:
                    R.sk_open(probe_data, suite, a, e)
                except R.DecodeError as ex:
                    if getattr(ex, 'kind', 'keys') not in ('icv_only', 'icv_length', 'plaintext'):
                        continue          # (icv_only / plaintext: the keys fit, the message construction deviates - reported later)
                s = Session(spi_i, spi_r)
                s.keys, s.suite, s.ni, s.nr, s.shared = keys, suite, ni, nr, shared
                s.init_req, s.init_res = req_raw, res_raw
                s.initiator, s.responder = qsender, rsender
                s.i_addr, s.r_addr = qsrc, qdst
                s.offer = next(p for p in qpls if p['type'] == R.P_SA)
                s.chosen = sa['proposals'][0]
                self._note_keys(s, 'ike')
                return s
        return None

    def _note_keys(self, s, label):
        self.secret(f'{label}.shared', s.shared)
        self.secret(f'{label}.skeyseed', s.keys['skeyseed'])
        for k in ('d', 'ai', 'ar', 'ei', 'er', 'pi', 'pr'):
            self.secret(f'{label}.sk_{k}', s.keys[k])

    # ------------------------------------------------------------------------------------------
    def _protected(self, meta, data, h):
        key = (h['spi_i'], h['spi_r'])
        s = self.sessions.get(key)
        sender = meta['sender']
        if s is None:
            s = self._try_establish(h['spi_i'], h['spi_r'], data, h['I'])
            if s is None:
                # maybe an unprotected error reply or a message of a session we never saw the start of
                try:
                    chain = R.dec_chain(data[28:], h['next'])
                except R.DecodeError as ex:
                    return self.problem('emitted_undecodable', f'{sender}: {ex}', meta)
                if not chain:
                    # a bare header (what an endpoint without keys can answer at most): no payload is in the clear
                    self._c('cleartext_header_only')
                    return
                if chain[-1]['type'] != R.P_SK:
                    self._c('cleartext_after_init')
                    self.problem('cleartext_message_after_ike_sa_init', f'{sender} emitted an unprotected {R.PNAMES.get(chain[0]["type"]) if chain else "empty"} '
                                 f'message of exchange {h["exch"]}', meta, exch=h['exch'])
                    return
                self._c('opaque_messages')
                s = Session(h['spi_i'], h['spi_r'])
                s.opaque = 'no matching IKE_SA_INIT pair opens it'
                self.sessions[key] = s
                others = [k for k in self.init_ress if k[0] == h['spi_i'] and k[1] != h['spi_r'] and self.init_ress[k]]
                if not self.init_ress.get(key) and others and h['exch'] == R.IKE_AUTH and h['I'] and not h['R'] and h['id'] == 1 and \
                        any(q[3] == sender for q in self.init_reqs.get(h['spi_i'], [])):
                    # the initiator answers an IKE_SA_INIT exchange with an IKE_AUTH addressed to a responder SPI that no IKE_SA_INIT response
                    # carrying an SA payload ever had (those had other SPIs): SPIr, which goes into the key derivation, is not the one of the
                    # exchange it completed (a COOKIE / INVALID_KE_PAYLOAD answer of an earlier round carried it)
                    self.problem('ike_auth_to_spi_of_no_sa_response', f'{sender}: IKE_AUTH request for {h["spi_i"].hex()}/{h["spi_r"].hex()}, but the '
                                 f'IKE_SA_INIT responses that completed an exchange for this SPIi had SPIr {[k[1].hex() for k in others]}', meta)
                if self.init_ress.get(key):
                    self.problem('cannot_open_protected_message', f'{sender}: first protected message of IKE_SA {h["spi_i"].hex()}/{h["spi_r"].hex()} '
                                 f'does not verify under the keys the reference derives from the IKE_SA_INIT exchange on the wire', meta, stage='first')
                return
            self.sessions[key] = s
            self._c('sessions')
        if s.opaque:
            self._c('opaque_messages')
            return
        from_initiator = h['I']
        a, e = (s.keys['ai'], s.keys['ei']) if from_initiator else (s.keys['ar'], s.keys['er'])
        want_sender = s.initiator if from_initiator else s.responder
        try:
            hh, inner, info = R.sk_open(data, s.suite, a, e)
        except R.DecodeError as ex:
            alt = getattr(s, 'alt_keys', None)
            if alt is not None:
                a2, e2 = (alt['ai'], alt['ei']) if from_initiator else (alt['ar'], alt['er'])
                try:
                    R.sk_open(data, s.suite, a2, e2)
                except R.DecodeError:
                    alt = None
                if alt is not None:
                    self.problem('ike_rekey_skeyseed_prf', f'{sender}: rekeyed IKE_SA {h["spi_i"].hex()[:8]} (generation {s.generation}) uses keys '
                                 f'derived with SKEYSEED = prf_NEW(SK_d old, ...); RFC 7296 2.18 prescribes the PRF of the old IKE_SA '
                                 f'(old PRF {s.parent.suite.prf}, new PRF {s.suite.prf})', meta, generation=min(s.generation, 2))
                    s.keys, s.alt_keys, s.rfc_deviation = alt, None, 'skeyseed_new_prf'
                    self._note_keys(s, f'ike.gen{s.generation}.alt')
                    return self._protected(meta, data, h)
            kind = getattr(ex, 'kind', 'keys')
            if kind in ('icv_only', 'icv_length', 'plaintext', 'cleartext_beside_sk'):
                # the keys are demonstrably right: what deviates is the construction of the protected message itself (C07)
                return self.problem('protected_message_malformed', f'{sender}: protected exchange {h["exch"]} id {h["id"]} of IKE_SA '
                                    f'{h["spi_i"].hex()[:8]}: {ex}', meta, what=kind)
            return self.problem('cannot_open_protected_message', f'{sender}: protected {R.PNAMES.get(h["next"], h["next"])} exchange {h["exch"]} id {h["id"]} '
                                f'of IKE_SA {h["spi_i"].hex()[:8]} (generation {s.generation}) fails under the reference keys: {ex}', meta,
                                stage='later', generation=min(s.generation, 2))
        self._c('opened')
        if sender != want_sender:
            self.problem('initiator_flag_wrong', f'{sender} sent I={h["I"]} on IKE_SA whose original initiator is {s.initiator}', meta)
        if any(info['padding']):
            self._c('nonzero_padding')
        if info['pad'] >= 16 + 16:
            self._c('long_padding')
        self.counts['plain_mod16_%d' % (info['plain_len'] % 16)] = self.counts.get('plain_mod16_%d' % (info['plain_len'] % 16), 0) + 1
        ivkey = (from_initiator, info['iv'])
        if ivkey in s.ivs and not any(m['raw'] == bytes(data) for m in self.messages[-200:]):
            self.problem('iv_reused', f'{sender}: IV {info["iv"].hex()} used for two different messages under one key', meta)
        s.ivs.add(ivkey)
        try:
            pls = [R.dec_payload(p) for p in inner]
        except R.DecodeError as ex:
            return self.problem('emitted_undecodable', f'{sender}: inner payloads of exchange {h["exch"]} id {h["id"]}: {ex}', meta)
        if self.check_reencode:
            again = R.enc_chain(pls)
            raw_inner = R.aes_cbc(e, info['iv'], bytes(data)[28 + 4 + 16:-s.suite.icv], decrypt=True)[:info['plain_len']]
            self._c('reencoded_inner')
            if again != raw_inner:
                pos = next((i for i, (x, y) in enumerate(zip(again, raw_inner)) if x != y), min(len(again), len(raw_inner)))
                self.problem('encoding_differs_from_reference', f'{sender}: encrypted payloads of exchange {h["exch"]} id {h["id"]} differ from the RFC 7296 '
                             f'layout at inner octet {pos} ({[R.PNAMES.get(p["type"], p["type"]) for p in pls]})', meta, where='inner')
            elif not meta.get('rewritten') and sender in self.w.nodes:
                # ... and the whole datagram is what the reference encoder makes of the same content, IV and keys (padding to the next block
                # boundary, zero-filled; Payload Length and header Length accordingly)
                try:
                    whole = R.sk_seal({'spi_i': h['spi_i'], 'spi_r': h['spi_r'], 'exch': h['exch'], 'I': h['I'], 'R': h['R'], 'id': h['id']}, pls,
                                      s.suite, a, e, info['iv'])
                except Exception:
                    whole = None
                self._c('resealed_whole')
                if whole is not None and whole != bytes(data):
                    self.problem('encoding_differs_from_reference', f'{sender}: protected exchange {h["exch"]} id {h["id"]} has {len(data)} octets (Pad Length '
                                 f'{info["pad"]} for {info["plain_len"]} octets of payloads); the reference encoder makes {len(whole)} octets of the same '
                                 f'content, IV and keys', meta, where='sealed')
        rec = {'t': self.w.now, 'sender': sender, 'h': h, 'payloads': pls, 'raw': bytes(data), 'session': s, 'clear': False, 'info': info,
               'src': meta['src'], 'dst': meta['dst']}
        self.messages.append(rec)
        if not h['R']:
            s.requests[(from_initiator, h['id'])] = rec
            if h['exch'] == R.IKE_AUTH:
                self._auth(s, rec, 'i')
        else:
            req = s.requests.get((not from_initiator, h['id']))
            rec['request'] = req
            if h['exch'] == R.IKE_AUTH:
                self._auth(s, rec, 'r')
                if req is not None:
                    self._child(s, req, rec, initial=True)
            elif h['exch'] == R.CREATE_CHILD_SA and req is not None:
                sa_q = next((p for p in req['payloads'] if p['type'] == R.P_SA), None)
                if sa_q is not None and sa_q['proposals'] and sa_q['proposals'][0]['proto'] == R.PROTO_IKE:
                    self._rekey_ike(s, req, rec)
                else:
                    self._child(s, req, rec, initial=False)

    # ------------------------------------------------------------------------------------------
    def _cred(self, node, peer_addr, my_addr):
        c = self.conf.get(node, {}).get((ipaddress.ip_address(my_addr), ipaddress.ip_address(peer_addr)))
        return c

    def _auth(self, s, rec, role):
        """Recompute AUTH of the sender of `rec` from the octets that crossed the wire (RFC 7296 2.15)."""
        pls = rec['payloads']
        idp = next((p for p in pls if p['type'] == (R.P_IDi if role == 'i' else R.P_IDr)), None)
        au = next((p for p in pls if p['type'] == R.P_AUTH), None)
        if idp is None or au is None:
            s.auth[role] = None
            return
        s.ids[role] = (idp['id_type'], idp['data'])
        msg = s.init_req if role == 'i' else s.init_res
        nonce_other = s.nr if role == 'i' else s.ni
        sk_p = s.keys['pi'] if role == 'i' else s.keys['pr']
        octets = R.auth_octets(msg, nonce_other, s.suite.prf, sk_p, R.id_body(idp))
        # credentials: what the *verifier* has configured for this peer
        verifier = s.responder if role == 'i' else s.initiator
        v_my, v_peer = (s.r_addr, s.i_addr) if role == 'i' else (s.i_addr, s.r_addr)
        conn = self._cred(verifier, v_peer, v_my)
        ok = None
        if conn is not None:
            pa = conn['peer_auth']
            if au['method'] == 2 and pa['psk'] is not None:
                ok = R.psk_auth(s.suite.prf, pa['psk'], octets) == au['data']
            elif au['method'] == 1 and pa['pubkey']:
                ok = self._rsa_verify(pa['pubkey'], au['data'], octets)
            else:
                ok = False
            if (idp['id_type'], idp['data']) != (pa['id_type'], pa['id_data']):
                ok = False
        s.auth[role] = ok
        self._c('auth_checked')
        if ok is False:
            self._c('auth_reference_mismatch')

    @staticmethod
    def _rsa_verify(pem, sig, octets):
        from cryptography.hazmat.primitives import serialization, hashes
        from cryptography.hazmat.primitives.asymmetric import padding
        from cryptography.exceptions import InvalidSignature
        try:
            serialization.load_pem_public_key(pem.encode()).verify(sig, octets, padding.PKCS1v15(), hashes.SHA256())
            return True
        except (InvalidSignature, ValueError):
            return False

    # ------------------------------------------------------------------------------------------
    @staticmethod
    def _errors(pls):
        return [p['ntype'] for p in pls if p['type'] == R.P_NOTIFY and p['ntype'] < 16384]

    def _child(self, s, req, res, initial):
        if self._errors(res['payloads']):
            return
        sa_q = next((p for p in req['payloads'] if p['type'] == R.P_SA), None)
        sa_r = next((p for p in res['payloads'] if p['type'] == R.P_SA), None)
        if sa_q is None or sa_r is None or not sa_r['proposals']:
            return
        chosen = sa_r['proposals'][0]
        if initial:
            ni, nr = s.ni, s.nr
            s.established = True
        else:
            try:
                ni = next(p for p in req['payloads'] if p['type'] == R.P_NONCE)['data']
                nr = next(p for p in res['payloads'] if p['type'] == R.P_NONCE)['data']
            except StopIteration:
                return
        shared = None
        ke_q = next((p for p in req['payloads'] if p['type'] == R.P_KE), None)
        ke_r = next((p for p in res['payloads'] if p['type'] == R.P_KE), None)
        has_dh = any(t['type'] == R.T_DH and t['id'] != 0 for t in chosen['transforms'])
        if has_dh and not initial:
            if ke_q is None or ke_r is None:
                return self.problem('child_pfs_without_ke', 'DH transform chosen but KE payload missing', None)
            xq, xr = self.scalar_of(ke_q['data']), self.scalar_of(ke_r['data'])
            try:
                shared = R.dh_shared(ke_r['group'], xq, ke_r['data']) if xq is not None else R.dh_shared(ke_q['group'], xr, ke_q['data'])
            except Exception:
                self._c('opaque_children')
                return
            self.secret('child.shared', shared)
        encr = next((t for t in chosen['transforms'] if t['type'] == R.T_ENCR), None)
        integ = next((t for t in chosen['transforms'] if t['type'] == R.T_INTEG), None)
        if integ is None or integ['id'] not in R.INTEG_HASH:
            return
        km = R.child_keymat(s.suite.prf, s.keys['d'], ni, nr, (encr['keylen'] or 128) if encr else 0, integ['id'], shared)
        for k in ('ei', 'ai', 'er', 'ar'):
            self.secret('child.' + k, km[k])
        req_from_initiator = req['h']['I']
        x_init = s.initiator if req_from_initiator else s.responder        # initiator of THIS exchange
        x_resp = s.responder if req_from_initiator else s.initiator
        x_init_addr, x_resp_addr = (s.i_addr, s.r_addr) if req_from_initiator else (s.r_addr, s.i_addr)
        tsi = next((p for p in res['payloads'] if p['type'] == R.P_TSi), None)
        tsr = next((p for p in res['payloads'] if p['type'] == R.P_TSr), None)
        transport_q = any(p['type'] == R.P_NOTIFY and p['ntype'] == R.N_USE_TRANSPORT_MODE for p in req['payloads'])
        transport_r = any(p['type'] == R.P_NOTIFY and p['ntype'] == R.N_USE_TRANSPORT_MODE for p in res['payloads'])
        rekey = next((p for p in req['payloads'] if p['type'] == R.P_NOTIFY and p['ntype'] == R.N_REKEY_SA), None)
        self.children.append({
            't': self.w.now, 'session': s, 'initial': initial, 'pfs': shared is not None, 'rekey_of': rekey['spi'] if rekey else None,
            'x_init': x_init, 'x_resp': x_resp, 'x_init_addr': x_init_addr, 'x_resp_addr': x_resp_addr,
            'spi_init': next((p['spi'] for p in sa_q['proposals'] if p['num'] == chosen['num']), sa_q['proposals'][0]['spi']),
            'spi_resp': chosen['spi'], 'proto': chosen['proto'],
            'encr_bits': (encr['keylen'] or 128) if encr else 0, 'integ': integ['id'], 'transport': transport_q and transport_r,
            'transport_q': transport_q, 'transport_r': transport_r,
            'tsi': tsi['selectors'] if tsi else [], 'tsr': tsr['selectors'] if tsr else [],
            'tsi_offer': next((p['selectors'] for p in req['payloads'] if p['type'] == R.P_TSi), []),
            'tsr_offer': next((p['selectors'] for p in req['payloads'] if p['type'] == R.P_TSr), []),
            'offer': sa_q['proposals'], 'chosen': chosen, 'keymat': km, 'req': req, 'res': res})
        self._c('children')
        if shared is not None:
            self._c('children_pfs')

    def _rekey_ike(self, s, req, res):
        if self._errors(res['payloads']):
            return
        try:
            sa_q = next(p for p in req['payloads'] if p['type'] == R.P_SA)
            sa_r = next(p for p in res['payloads'] if p['type'] == R.P_SA)
            ni = next(p for p in req['payloads'] if p['type'] == R.P_NONCE)['data']
            nr = next(p for p in res['payloads'] if p['type'] == R.P_NONCE)['data']
            ke_q = next(p for p in req['payloads'] if p['type'] == R.P_KE)
            ke_r = next(p for p in res['payloads'] if p['type'] == R.P_KE)
            suite = R.Suite.from_proposal(sa_r['proposals'][0])
        except (StopIteration, ValueError, IndexError):
            return
        new_i, new_r = sa_q['proposals'][0]['spi'], sa_r['proposals'][0]['spi']
        xq, xr = self.scalar_of(ke_q['data']), self.scalar_of(ke_r['data'])
        n = Session(new_i, new_r)
        n.parent, n.generation = s, s.generation + 1
        req_from_initiator = req['h']['I']
        n.initiator, n.responder = (s.initiator, s.responder) if req_from_initiator else (s.responder, s.initiator)
        n.i_addr, n.r_addr = (s.i_addr, s.r_addr) if req_from_initiator else (s.r_addr, s.i_addr)
        n.offer, n.chosen = sa_q, sa_r['proposals'][0]
        n.ni, n.nr = ni, nr
        try:
            shared = R.dh_shared(ke_r['group'], xq, ke_r['data']) if xq is not None else R.dh_shared(ke_q['group'], xr, ke_q['data'])
        except Exception:
            n.opaque = 'DH scalars unknown'
            self.sessions[(new_i, new_r)] = n
            return
        n.shared, n.suite = shared, suite
        n.keys = R.ike_keys(suite, ni, nr, new_i, new_r, shared, old_sk_d=s.keys['d'], old_prf=s.suite.prf)
        if suite.prf != s.suite.prf:
            # RFC 7296 2.18: SKEYSEED of the new IKE_SA is computed with the OLD IKE_SA's PRF.  Keep the other reading too, so
            # that a daemon using the new PRF is reported once (ike_rekey_skeyseed_prf) and can still be followed.
            n.alt_keys = R.ike_keys(suite, ni, nr, new_i, new_r, shared, old_sk_d=s.keys['d'], old_prf=suite.prf)
            self._c('ike_rekeys_prf_changed')
        n.established = True
        self.sessions[(new_i, new_r)] = n
        self._note_keys(n, f'ike.gen{n.generation}')
        self._c('ike_rekeys')
        self.counts['max_generation'] = max(self.counts.get('max_generation', 0), n.generation)


# --------------------------------------------------------------------------------------------------
# helpers shared by the oracles that compare the kernel with what the wire negotiated

def ts_set(sel):
    """A selector as a set description: (family, proto, port range, address range)."""
    fam = 4 if sel['ts_type'] == 7 else 6
    return (fam, sel['proto'], sel['sport'], sel['eport'], int.from_bytes(sel['saddr'], 'big'), int.from_bytes(sel['eaddr'], 'big'))


def ts_subset(a, b):
    fa, pa, s1, e1, a1, z1 = ts_set(a)
    fb, pb, s2, e2, a2, z2 = ts_set(b)
    return fa == fb and (pb == 0 or pa == pb) and s2 <= s1 and e1 <= e2 and a2 <= a1 and z1 <= z2
