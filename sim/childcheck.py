"""Comparison of what the kernels were told (XFRM_MSG_NEWSA, decoded with the kernel layout) with what the wire
negotiated (wiretap) - shared by C01 (mirror images, key direction), C04 (reference KEYMAT), C11 (algorithms),
C12 (selectors, mode), C14 (intended parameters)."""
import ipaddress

from .kernel import K, _addr_raw, _addr, sel_nets
from . import configs, refike as R

PROTO_NUM = {R.PROTO_ESP: K['IPPROTO_ESP'], R.PROTO_AH: K['IPPROTO_AH']}


def newsa_index(node):
    """(daddr_raw, proto, spi) -> decoded NEWSA request that the kernel accepted (latest wins)."""
    idx = {}
    for r in node.kernel.requests:
        d = r.get('decoded')
        if r['type'] == K['XFRM_MSG_NEWSA'] and not r['errno'] and d and d.get('kind') == 'newsa':
            sa = d['sa']
            idx[(sa['id']['daddr_raw'], sa['id']['proto'], sa['id']['spi'])] = r
    return idx


def alg(rec, code):
    a = rec['decoded']['attrs'].get(code)
    if a is None or not isinstance(a, dict):
        return None
    return (a['name'], a['key_len_bits'], a['key'])


def quad(world, ch, idx):
    """The four NEWSA records of one negotiated CHILD_SA: (initiator out, responder in, initiator in, responder out)."""
    proto = PROTO_NUM.get(ch['proto'])
    if proto is None:
        return None
    k_resp = (_addr_raw(ch['x_resp_addr']), proto, ch['spi_resp'])
    k_init = (_addr_raw(ch['x_init_addr']), proto, ch['spi_init'])
    ii, ir = idx.get(ch['x_init'], {}), idx.get(ch['x_resp'], {})      # a reference peer has no kernel
    return ii.get(k_resp), ir.get(k_resp), ii.get(k_init), ir.get(k_init)


def sel_tuple(sel):
    return (sel['family'], sel['saddr_raw'], sel['daddr_raw'], sel['prefixlen_s'], sel['prefixlen_d'], sel['sport'], sel['sport_mask'],
            sel['dport'], sel['dport_mask'], sel['proto'])


def sel_reversed(sel):
    return (sel['family'], sel['daddr_raw'], sel['saddr_raw'], sel['prefixlen_d'], sel['prefixlen_s'], sel['dport'], sel['dport_mask'],
            sel['sport'], sel['sport_mask'], sel['proto'])


def sel_str(sel):
    n = sel_nets(sel)
    return f'{n[0]}:{sel["sport"]}/{sel["sport_mask"]:#x} -> {n[1]}:{sel["dport"]}/{sel["dport_mask"]:#x} proto {sel["proto"]}' if n else str(sel)


def mirror_diffs(a, b):
    """Fields in which two NEWSA records (one per endpoint, same (daddr, proto, spi)) differ; lifetimes excluded."""
    out = []
    sa, sb = a['decoded']['sa'], b['decoded']['sa']
    for f in ('family', 'mode', 'saddr_raw'):
        if sa[f] != sb[f]:
            out.append(f)
    if sel_tuple(sa['sel']) != sel_tuple(sb['sel']):
        out.append(f'selector ({sel_str(sa["sel"])} vs {sel_str(sb["sel"])})')
    if alg(a, K['XFRMA_ALG_CRYPT']) != alg(b, K['XFRMA_ALG_CRYPT']):
        out.append('encryption algorithm/key')
    if alg(a, K['XFRMA_ALG_AUTH']) != alg(b, K['XFRMA_ALG_AUTH']):
        out.append('integrity algorithm/key')
    return out


def ts_to_kernel(sel):
    """(network, port, mask, proto) a traffic selector denotes when it is a CIDR block x {one port | all ports}; else None."""
    fam = 4 if sel['ts_type'] == 7 else 6
    a, z = int.from_bytes(sel['saddr'], 'big'), int.from_bytes(sel['eaddr'], 'big')
    bits = 32 if fam == 4 else 128
    size = z - a + 1
    if size <= 0 or size & (size - 1) or a % size:
        return None
    plen = bits - (size.bit_length() - 1)
    net = ipaddress.ip_network((a, plen)) if fam == 4 else ipaddress.IPv6Network((a, plen))
    if (sel['sport'], sel['eport']) == (0, 65535):
        port, mask = 0, 0
    elif sel['sport'] == sel['eport']:
        port, mask = sel['sport'], 0xFFFF
    else:
        return None
    return net, port, mask, sel['proto']


def ts_cover(sel):
    """What a kernel selector can say at best for any traffic selector: (smallest network that holds the address range, (first, last) port,
    protocol).  For a CIDR block x {one port | all ports} this is what ts_to_kernel() gives."""
    fam = 4 if sel['ts_type'] == 7 else 6
    bits = 32 if fam == 4 else 128
    a, z = int.from_bytes(sel['saddr'], 'big'), int.from_bytes(sel['eaddr'], 'big')
    host = (a ^ z).bit_length()
    base = (a >> host) << host
    net = ipaddress.ip_network((base, bits - host)) if fam == 4 else ipaddress.IPv6Network((base, bits - host))
    return net, (sel['sport'], sel['eport']), sel['proto']


def kernel_half_vs_cover(net, port, mask, cover):
    """None when one half (network, port, mask) of a kernel selector is right for a traffic selector given as ts_cover(): the network is the
    smallest one that holds the whole range (anything smaller leaves negotiated addresses unprotected, anything larger may leave the policy),
    the ports are all ports when all were negotiated, else one port out of the negotiated range (a kernel selector cannot say a range; never
    more than was negotiated).  Else the name of the field that is off."""
    cnet, (lo, hi), _ = cover
    if net != cnet:
        return 'net'
    if (lo, hi) == (0, 65535):
        return None if (port, mask) == (0, 0) else 'port'
    if mask != 0xFFFF or not lo <= port <= hi:
        return 'port'
    return None

