"""Scenario families shared by the checks (PAIR = two real daemons) and the coverage monitor."""
import hashlib
import random

from . import configs
from .observe import parse_header, EXCH
from .world import BASE_LATENCY

FAULT_KINDS = ('drop', 'dup', 'delay', 'reorder')


def net_policy(r, kinds, intensity=1.0):
    """A fate policy with the given fault kinds enabled at low rates (most runs must make progress)."""
    p = {'mode': 'random', 'lat_range': [0.005, 0.05]}
    if 'reorder' in kinds:
        p['lat_range'] = [0.005, r.choice([0.2, 0.6, 1.5])]
    if 'drop' in kinds:
        p['p_drop'] = round(r.choice([0.03, 0.08, 0.15, 0.25]) * intensity, 3)
    if 'dup' in kinds:
        p['p_dup'] = round(r.choice([0.05, 0.1, 0.2]) * intensity, 3)
        p['max_dup'] = r.choice([2, 3, 4])
    if 'delay' in kinds:
        p['p_long'] = round(r.choice([0.03, 0.08]) * intensity, 3)
        p['long_range'] = [2.0, r.choice([5.0, 12.0, 25.0])]
    if 'corrupt' in kinds:
        p['p_corrupt'] = round(r.choice([0.03, 0.08]) * intensity, 3)
    return p


def pair_scenario(seed, prop, o=None):
    """Two daemons A and B with a compatible configuration pair, traffic that raises ACQUIREs, natural
    expiries from short lifetimes, optional forced triggers and faults.  Pure function of (seed, o)."""
    o = dict(o or {})
    r = random.Random(f'{prop}:{seed}')
    ca, cb, meta = configs.make_pair(r, o.get('conf'))
    T = o.get('duration') or r.choice([30, 60, 120])
    ops = [{'t': 0.0, 'op': 'start', 'node': 'A'},
           {'t': round(r.uniform(0, 0.9), 3) if o.get('phase', True) else 0.0, 'op': 'start', 'node': 'B'}]
    ra, rb = configs.read_conf(ca), configs.read_conf(cb)
    conn_a, conn_b = next(iter(ra.values())), next(iter(rb.values()))
    n_pk = o.get('packets', r.randint(1, 5))
    both = o.get('both_initiate', r.random() < 0.35)
    t = 1.0
    for i in range(n_pk):
        who = 'A' if not both or r.random() < 0.6 else 'B'
        conn = conn_a if who == 'A' else conn_b
        ent_i = r.randrange(len(conn['protect']))
        flow = configs.flow_for_entry(r, conn['my_addr'], conn['peer_addr'], conn['protect'][ent_i])
        if i > 0:
            t += r.choice([0.0, 0.005, 0.02, 0.5, 2.0, 5.0, T / 6])
        ops.append({'t': round(min(t, T * 0.8), 3), 'op': 'packet', 'node': who, 'flow': flow, 'entry': ent_i})
    for _ in range(o.get('forced', 0) and r.randint(0, o['forced'])):
        kind = r.choice(o.get('forced_kinds', ['expire_soft', 'expire_hard', 'jump_rekey', 'jump_dpd']))
        who = r.choice('AB')
        tt = round(r.uniform(2.0, T * 0.8), 3)
        if kind == 'expire_soft':
            ops.append({'t': tt, 'op': 'expire', 'node': who, 'which': r.randrange(4), 'dir': r.choice(['in', 'out']), 'hard': 0})
        elif kind == 'expire_hard':
            ops.append({'t': tt, 'op': 'expire', 'node': who, 'which': r.randrange(4), 'dir': r.choice(['in', 'out']), 'hard': 1})
        elif kind == 'jump_rekey':
            ops.append({'t': tt, 'op': 'clockjump', 'node': who, 'delta': conn_a['lifetime'] + 6})
        elif kind == 'jump_dpd':
            ops.append({'t': tt, 'op': 'clockjump', 'node': who, 'delta': conn_a['dpd'] + 1})
    kinds = o.get('faults')
    if kinds is None:
        pool = o.get('fault_pool', FAULT_KINDS)
        kinds = [k for k in pool if r.random() < 0.5] if r.random() < 0.85 else []
    policy = net_policy(r, kinds, o.get('intensity', 1.0)) if kinds else {'mode': 'random', 'lat_range': [0.005, 0.05]}
    if o.get('partition') and r.random() < o['partition']:
        t0 = round(r.uniform(1.0, T * 0.6), 3)
        ops.append({'t': t0, 'op': 'partition'})
        ops.append({'t': round(t0 + r.choice([1.0, 5.0, 15.0, 40.0]), 3), 'op': 'heal'})
        kinds = list(kinds) + ['partition']
    if o.get('stall') and r.random() < o['stall']:
        ops.append({'t': round(r.uniform(1.0, T * 0.7), 3), 'op': 'stall', 'node': r.choice('AB'),
                    'dur': r.choice([1.5, 3.0, 7.0])})
        kinds = list(kinds) + ['stall']
    ops.sort(key=lambda x: x['t'])
    quiet = o.get('quiet_tail', 0)
    sc = {'property': prop, 'seed': seed, 'family': 'pair',
          'nodes': {'A': {'addrs': [meta['a_addr']], 'conf': ca}, 'B': {'addrs': [meta['b_addr']], 'conf': cb}},
          'sys_seed': r.randrange(2 ** 31), 'net_seed': r.randrange(2 ** 31),
          'fate_policy': policy, 'fates': {}, 'ops': ops, 'until': float(T + quiet), 'quiet_from': float(T),
          'meta': dict(meta, faults=sorted(kinds), T=T, both=both), 'debug_log': bool(o.get('debug_log', False)),
          'max_steps': o.get('max_steps', 20000)}
    return sc


class QuietTail:
    """After scenario['quiet_from'] the network is lossless at base latency (the final drain)."""

    def __init__(self, world):
        self.world = world
        self.orig = world.decisions.fate
        world.decisions.fate = self.fate
        qf = world.scenario.get('quiet_from')
        if qf is not None:
            world.at(qf, self.stop_faults, tag='op')

    def stop_faults(self):
        """Faults stop here: pending injected errnos, send failures, partitions and stalls are cancelled."""
        for n in self.world.nodes.values():
            n.kernel.inject.clear()
            getattr(n.kernel, 'nl_fault', {}).clear()
            n.sendto_fail.clear()
            n.recv_fail['udp'].clear()
            n.recv_fail['nl'].clear()
            n.crash_countdown = None
            n.stalled_until = min(n.stalled_until, self.world.now)
        self.world.net.partitioned.clear()

    def fate(self, key, length):
        w = self.world
        qf = w.scenario.get('quiet_from')
        if qf is not None and w.now >= qf:
            # also for explicit fates: minimisation removes operations, which shifts datagram ordinals, and a recorded loss
            # must not slide into the fault-free tail (a replay of an unminimised run has only base-latency deliveries there)
            return {'fate': 'deliver', 'lat': [BASE_LATENCY]}
        return self.orig(key, length)


class Coverage:
    """State fingerprints and the interleaving signature of a run."""

    def __init__(self, world, wire=None):
        self.world = world
        self.states = set()
        self.seq = hashlib.sha256()
        self.pairs = {}         # (local state, incoming exchange kind) -> count
        self.n = 0
        world.monitors.append(self)
        self._pending = None

    def before_delivery(self, node, data, src, dst, meta):
        h = parse_header(data)
        kind = (EXCH.get(h['exch'], str(h['exch'])), 'res' if h['R'] else 'req') if h else ('short', '')
        self._pending = kind
        if h:
            lspi = h['spi_r'] if h['I'] else h['spi_i']
            for sa in node.ike_sas():
                if sa.my_spi == lspi:
                    k = f'{sa.state.name}<{kind[0]}.{kind[1]}'
                    self.pairs[k] = self.pairs.get(k, 0) + 1
                    break

    def after_step(self, node, cause):
        w = self.world
        ck = cause[0] if isinstance(cause, tuple) else cause
        fp = []
        for n in w.nodes.values():
            junk = n.table_junk()
            if junk and not getattr(w, '_junk_reported', False):
                # whatever the check is about: a table entry that is no IKE_SA wedges every sweep (C17) and falsifies the table (C16)
                w._junk_reported = True
                w.violation('C17', 'ike_sa_table_corrupted', {'entry': type(junk[0]).__name__},
                            f'{n.name}: the IKE_SA table holds an entry that is no IKE_SA ({junk[0]!r}) after a {ck} step')
            fp.append(tuple(sorted((sa.is_initiator, int(sa.state), sa.my_msg_id % 4, sa.peer_msg_id % 4,
                                    len(sa.child_sas), len(sa.pending_events)) for sa in n.ike_sas())))
        fp = (tuple(fp), min(w.net.in_flight, 6), ck)
        self.states.add(hashlib.md5(repr(fp).encode()).hexdigest()[:12])
        item = (ck, node.name, self._pending if ck == 'dgram' else None)
        self.seq.update(repr(item).encode())
        self._pending = None
        self.n += 1

    def signature(self):
        return self.seq.hexdigest()[:16]


def base_stats(world, cov, extra=None):
    st = {'fault_counts': dict(world.fault_counts), 'sim_seconds': world.now, 'sig': cov.signature(),
          'states': sorted(cov.states)[:400], 'reach': dict(cov.pairs)}
    if extra:
        st.update(extra)
    return st


# ------------------------------------------------------------------------------------ reference peer batches

def to_refpeer(sc, r, knobs=None):
    """Turn a PAIR scenario into one where node B is replaced by the active reference responder (sim/refpeer.py) living at B's address
    with B's configuration.  Everything B would have started itself is removed (the reference peer never starts an exchange)."""
    cb = sc['nodes'].pop('B')
    sc['ops'] = [op for op in sc['ops'] if op.get('node') != 'B']
    sc['refpeer'] = {'seed': r.randrange(2 ** 31), 'conf': cb['conf'], 'addr': cb['addrs'][0], 'knobs': dict(knobs or {})}
    sc['meta']['batch'] = 'refpeer'
    sc['meta']['both'] = False
    return sc


def attach_refpeer(w, scenario):
    from . import configs
    from .refpeer import RefPeer
    rp = scenario['refpeer']
    conn = next(iter(configs.read_conf(rp['conf']).values()))
    return RefPeer(w, rp['addr'], conn, rp['seed'], rp.get('knobs'))


class PeerView:
    """What the judges written for the wiretap need, served from the reference peer's own records."""

    def __init__(self, peer):
        self.children = peer.children
        self.messages = []
        self.problems = []
        self.sessions = {}
        self.counts = peer.counts


def refpeer_nodes(scenario):
    """scenario['nodes'] plus the reference peer under its name, for judges that read configurations by node name."""
    nodes = dict(scenario['nodes'])
    nodes['R'] = {'conf': scenario['refpeer']['conf'], 'addrs': [scenario['refpeer']['addr']]}
    return nodes
