"""C01 - peers derive the same keys and install mirror-image IPsec SAs.

PAIR + wiretap + both kernel models over the configuration swarm (every ENCR key length, INTEG, PRF, DH group, mismatching
preference orders, ESP / AH, transport / tunnel, IPv4 / IPv6, PSK / RSA) and over histories: initial exchanges (also under
cookie pressure and after an INVALID_KE_PAYLOAD retry), additional CHILD_SAs, CHILD_SA rekeys with and without PFS,
IKE_SA rekeys over several generations.  Main batch lossless; a second batch adds loss / duplication / reordering and
judges whatever did complete."""
import random

from sim import workload, configs, refike as R
from sim.childcheck import newsa_index, quad, mirror_diffs, sel_tuple, sel_reversed, sel_str, alg, PROTO_NUM
from sim.kernel import K, _addr_raw
from sim.monitors import data_plane_probe, reverse_flow
from sim.observe import WireLog
from sim.scenario import execute, replayable
from sim.wiretap import Wiretap

PROP = 'C01'
LEVEL = 'exploration'
BUDGET = {'quick': {'runs': 700, 'wall': 52, 'chunk': 6, 'min_wall': 60},
          'thorough': {'runs': 200000, 'wall': 1200, 'chunk': 12, 'min_wall': 150}}
RULE = ('one evaluation = one simulated run of two real daemons with a seeded compatible configuration pair and a history of '
        'negotiations; non-trivial = at least 2 CHILD_SA negotiations completed and were compared on both kernels; distinct = distinct '
        '(IKE suite lists, child suite, protocol, mode, family, auth method, number of rekey generations, PFS used)')
COMPONENTS = {'real': ['ikesa.py (key material, ChildSa construction)', 'xfrm.py (create_child_sa / create_sa)', 'crypto.py', 'message.py',
                       'ikesacontroller.py', 'netlink.py', 'configuration.py'],
              'stub': ['kernel model (decodes NEWSA with the C-derived layout)', 'reference IKEv2 wiretap (own key schedule)', 'clock', 'sockets',
                       'DH scalars (seeded, library constructors)']}
ASSUMPTIONS = ['IKE key material of the daemons is read from IkeSa.ike_sa_keyring for the both-sides comparison; the comparison with the '
               'reference needs no internal name (the wiretap opens every protected datagram with its own keys)',
               'lifetimes are excluded from the mirror (each side adds its own jitter); CHILD_SAs present on one side only are C10/C09 business']
EXPECT_REACH = ['children_compared', 'ike_keyrings_compared', 'ike_rekey_generations', 'children_pfs', 'child_rekeys', 'dataplane_probes',
                'suite.aes128', 'suite.aes256', 'suite.sha1', 'suite.sha256', 'suite.sha512', 'proto.esp', 'proto.ah', 'mode.transport',
                'mode.tunnel', 'family.4', 'family.6', 'auth.psk', 'auth.rsa', 'init_invalid_ke_retry', 'init_cookie_retry']


class KeyringMonitor:
    """Both daemons and the reference hold the same seven SK_* for every IKE_SA."""

    def __init__(self, world, tap):
        self.w, self.tap = world, tap
        self.seen = {}           # (spi_i, spi_r) -> {node: keyring tuple}
        self.done = set()
        self.compared = 0
        world.monitors.append(self)

    def after_step(self, node, cause):
        if self.w.poisoned:
            return
        for sa in node.ike_sas():
            kr = sa.ike_sa_keyring
            if kr is None or (id(sa), node.name) in self.done or int(sa.state) < 10:
                continue          # only negotiations that completed (IKE_AUTH verified on this side / rekey done)
            self.done.add((id(sa), node.name))
            spis = (sa.my_spi, sa.peer_spi) if sa.is_initiator else (sa.peer_spi, sa.my_spi)
            tup = tuple(bytes(getattr(kr, f)) for f in ('sk_d', 'sk_ai', 'sk_ar', 'sk_ei', 'sk_er', 'sk_pi', 'sk_pr'))
            ent = self.seen.setdefault(spis, {})
            ent[node.name] = tup
            s = self.tap.sessions.get(spis)
            names = ('sk_d', 'sk_ai', 'sk_ar', 'sk_ei', 'sk_er', 'sk_pi', 'sk_pr')
            if len(ent) == 2:
                a, b = list(ent.values())
                self.compared += 1
                if a != b:
                    bad = [n for n, x, y in zip(names, a, b) if x != y]
                    self.w.violation(PROP, 'peers_hold_different_ike_keys', {'keys': '+'.join(bad)},
                                     f'IKE_SA {spis[0].hex()}/{spis[1].hex()}: the two endpoints differ in {bad}')
                    self.w.poisoned = True
                    return


def judge_children(w, tap, reach):
    idx = {n: newsa_index(node) for n, node in w.nodes.items()}
    reused = set()
    if w.scenario.get('byz', {}).get('kind') == 'reuse_spi_request':
        # an SPI named by more than one negotiation (or asked of a kernel more than once) identifies no NEWSA request: those CHILD_SAs are
        # left to the clause on listed pairs below
        seen = {}
        for ch in tap.children:
            for x in (ch['spi_init'], ch['spi_resp']):
                seen[x] = seen.get(x, 0) + 1
        for node in w.nodes.values():
            cnt = {}
            for r_ in node.kernel.requests:
                d = r_.get('decoded')
                if r_['type'] == K['XFRM_MSG_NEWSA'] and d and d.get('kind') == 'newsa':
                    cnt[d['sa']['id']['spi']] = cnt.get(d['sa']['id']['spi'], 0) + 1
            reused |= {x for x, n in cnt.items() if n > 1}
        reused |= {x for x, n in seen.items() if n > 1}
    for ch in tap.children:
        if ch['spi_init'] in reused or ch['spi_resp'] in reused:
            reach['children_with_reused_spi_skipped'] = reach.get('children_with_reused_spi_skipped', 0) + 1
            continue
        q = quad(w, ch, idx)
        if q is not None and q[0] is not None and q[1] is not None and q[3] is not None and q[2] is None and not ch.get('rewritten'):
            # the exchange initiator installed its outbound half (towards the SPI the response named) and the responder both of its halves,
            # but nothing at the initiator carries the SPI its own request announced: the inbound half it did install is no mirror image
            inbound = sorted(k[2].hex() for k, rec in idx[ch['x_init']].items() if rec['t'] == q[0]['t'] and abs(rec['no'] - q[0]['no']) == 1 and k[0] == _addr_raw(ch['x_init_addr']))
            if inbound:
                return w.violation(PROP, 'kernel_sas_not_mirror_images', {'kind': 'initial' if ch['initial'] else ('rekey' if ch['rekey_of'] else 'additional'),
                                                                          'pfs': ch['pfs'], 'direction': 'responder->initiator', 'field': 'spi'},
                                   f'CHILD_SA {ch["spi_init"].hex()}/{ch["spi_resp"].hex()}: {ch["x_resp"]} sends towards SPI {ch["spi_init"].hex()}, the one the '
                                   f'request it answered announced, but {ch["x_init"]} installed its inbound SA with SPI {inbound} in the same step')
        if q is not None and q[0] is not None and q[1] is not None and q[2] is not None and q[3] is None:
            # the mirror case: the exchange responder installed its inbound half, and in the same step an outbound SA towards the initiator
            # that does not carry the SPI of the proposal it chose
            outbound = sorted(k[2].hex() for k, rec in idx[ch['x_resp']].items() if rec['t'] == q[1]['t'] and abs(rec['no'] - q[1]['no']) == 1
                              and k[0] == _addr_raw(ch['x_init_addr']))
            if outbound:
                return w.violation(PROP, 'kernel_sas_not_mirror_images', {'kind': 'initial' if ch['initial'] else ('rekey' if ch['rekey_of'] else 'additional'),
                                                                          'pfs': ch['pfs'], 'direction': 'responder->initiator', 'field': 'spi'},
                                   f'CHILD_SA {ch["spi_init"].hex()}/{ch["spi_resp"].hex()}: {ch["x_init"]} receives on SPI {ch["spi_init"].hex()} (the SPI of the '
                                   f'proposal that was chosen), but {ch["x_resp"]} installed its outbound SA with SPI {outbound} in the same step')
        if q is None or any(x is None for x in q):
            reach['children_one_sided_or_uninstalled'] = reach.get('children_one_sided_or_uninstalled', 0) + 1
            continue
        io, ri, ii, ro = q
        reach['children_compared'] = reach.get('children_compared', 0) + 1
        if ch['rekey_of']:
            reach['child_rekeys'] = reach.get('child_rekeys', 0) + 1
        tag = {'kind': 'initial' if ch['initial'] else ('rekey' if ch['rekey_of'] else 'additional'), 'pfs': ch['pfs']}
        for name, a, b in (('initiator->responder', io, ri), ('responder->initiator', ii, ro)):
            d = mirror_diffs(a, b)
            if d:
                return w.violation(PROP, 'kernel_sas_not_mirror_images', dict(tag, direction=name, field=d[0].split(' ')[0]),
                                   f'CHILD_SA {ch["spi_init"].hex()}/{ch["spi_resp"].hex()} ({tag}): the {name} SA installed by '
                                   f'{ch["x_init"]} and by {ch["x_resp"]} differ in {d}')
        so, si = io['decoded']['sa'], ii['decoded']['sa']
        if sel_tuple(so['sel']) != sel_reversed(si['sel']):
            return w.violation(PROP, 'selectors_not_reversed', tag, f'CHILD_SA {ch["spi_init"].hex()}: outbound selector {sel_str(so["sel"])} is '
                                                                    f'not the reversal of the inbound one {sel_str(si["sel"])}')
        if so['saddr_raw'] != _addr_raw(ch['x_init_addr']) or si['saddr_raw'] != _addr_raw(ch['x_resp_addr']):
            return w.violation(PROP, 'tunnel_addresses_wrong', tag, f'CHILD_SA {ch["spi_init"].hex()}: SA source addresses do not match the '
                                                                    f'endpoints of the exchange')
        km = ch['keymat']
        want_ir = (km['ei'], km['ai'])
        want_ri = (km['er'], km['ar'])

        def keys(rec):
            c, a = alg(rec, K['XFRMA_ALG_CRYPT']), alg(rec, K['XFRMA_ALG_AUTH'])
            return (c[2] if c else b'', a[2] if a else b'')
        if keys(io) != want_ir or keys(ii) != want_ri:
            swapped = keys(io) == want_ri and keys(ii) == want_ir
            return w.violation(PROP, 'keys_not_those_of_the_direction', dict(tag, swapped=swapped),
                               f'CHILD_SA {ch["spi_init"].hex()}/{ch["spi_resp"].hex()} ({tag}): the SA towards the exchange responder must carry '
                               f'the initiator-to-responder KEYMAT slice (encryption key first); '
                               f'{"the two directions are swapped" if swapped else "keys differ from the reference KEYMAT"}')
    return None


def generate(seed, tier):
    r = random.Random(f'C01gen:{seed}')
    lossy = r.random() < 0.25
    slow = r.random() < (0.15 if tier == 'quick' else 0.3)
    o = {'conf': {'profile': r.choice(['fast', 'fast', 'mid']), 'entries': 3, 'slow_dh': slow, 'mixed_family': 0.1}, 'both_initiate': r.random() < 0.3,
         'packets': r.randint(2, 6), 'duration': r.choice([30, 60, 100]), 'forced': 3, 'forced_kinds': ['expire_soft', 'jump_rekey'],
         'faults': ([k for k in ('drop', 'dup', 'reorder') if r.random() < 0.5] or ['drop']) if lossy else []}
    if r.random() < 0.15:
        # PFS everywhere with MODP groups only, preference lists that differ (INVALID_KE_PAYLOAD retries) and a short IKE lifetime on both
        # ends (IKE_SA rekeys colliding with CHILD_SA exchanges, answered TEMPORARY_FAILURE): retry paths with history behind them
        o['conf'].update(pfs=True, modp_only=True, single=False, ike_lifetime=r.choice([8, 12, 20]), slow_dh=False)
        o['both_initiate'] = True
        o['forced'] = 5
    refpeer = not lossy and r.random() < 0.1
    if refpeer:
        # the other end is the active reference responder (conforming third party: INVALID_KE_PAYLOAD also on an IKE_SA rekey, keeping the
        # IKE_SA; own preference order; nonces of 16..256 octets): "both hold identical IKE_SA key material" is then a statement about the
        # daemon and an independent implementation
        o['conf'].update(auth='psk', ike_lifetime=r.choice([6, 10, 16]), slow_dh=False, modp_only=r.random() < 0.5, single=False)
        o['both_initiate'] = False
    sc = workload.pair_scenario(seed, PROP, o)
    sc['meta']['batch'] = 'lossy' if lossy else 'lossless'
    if r.random() < 0.12:
        # the two ends disagree on the mode of a host-to-host entry (tunnel here, transport there; same selectors): whatever comes of the
        # negotiation - it has to be refused - no pair of SAs that differ in mode may come of it
        ca_, cb_ = sc['nodes']['A']['conf']['to-b'], sc['nodes']['B']['conf']['to-a']
        for pa in ca_['protect']:
            if pa.get('my_subnet') or pa.get('peer_subnet'):
                continue
            for pb in cb_['protect']:
                if pb.get('mode') == pa.get('mode') and not pb.get('my_subnet') and not pb.get('peer_subnet') and pb.get('my_port') == pa.get('peer_port') \
                        and pb.get('peer_port') == pa.get('my_port') and pb.get('ip_proto') == pa.get('ip_proto'):
                    side = r.choice([pa, pb])
                    side['mode'] = 'transport' if side.get('mode') == 'tunnel' else 'tunnel'
                    sc['meta']['mode_drift'] = True
                    break
    if refpeer:
        workload.to_refpeer(sc, r, {'invalid_ke_on_ike_rekey': True})
        return sc
    if not lossy and r.random() < 0.2:
        # two IKE_SAs between the same peers (both ends initiate), and an outage that swallows the first transmission of a CREATE_CHILD_SA
        # request; before its retransmission the same endpoint has something to negotiate on the sibling IKE_SA (its CHILD_SAs were made
        # together and expire together): what is retransmitted must still be the request of this negotiation
        sc['sibling_window'] = {'fires': r.randint(1, 3), 'delay': r.choice([0.1, 0.4, 0.9, 1.4]), 'lose_second': r.random() < 0.6,
                                'trigger': r.choice(['expire_soft', 'expire_soft', 'packet'])}
        sc['meta']['batch'] = 'siblings'
    if r.random() < 0.2:
        sc['controller_attrs'] = {'B': {'cookie_threshold': 0}, 'A': {'cookie_threshold': 0}}
        sc['meta']['cookie_pressure'] = True
    if not lossy and 'sibling_window' not in sc and r.random() < 0.2:
        # a peer that offers several proposals (each with its own SPI where no conforming responder can take it): the SAs installed are those
        # of the proposal that was chosen; or a peer that proposes an SPI it already uses with us (the kernel refuses the duplicate): the SAs of
        # the CHILD_SA that owns the SPI stay mirror images
        kind = r.choice(['multi_proposal_request', 'reuse_spi_request'])
        sc['byz'] = {'kind': kind, 'seed': r.randrange(2 ** 31)}
        sc['meta']['byz'] = kind
    return sc


def run(scenario):
    ctx = {}

    def setup(w, ctx):
        ctx['wire'] = WireLog(w)
        ctx['cov'] = workload.Coverage(w)
        ctx['tap'] = Wiretap(w)
        ctx['kr'] = KeyringMonitor(w, ctx['tap'])
        ctx['packets'] = []
        if scenario.get('refpeer'):
            ctx['peer'] = workload.attach_refpeer(w, scenario)
        if scenario.get('byz'):
            from sim import byz
            from sim.interpose import Interposer
            ip = ctx['ip'] = Interposer(w, ctx['tap'])
            rule, _ = byz.make(scenario['byz']['kind'], scenario['byz']['seed'], w, ip, ctx['tap'], ctx.setdefault('reach', {}))
            ip.rules.append(rule)
        sw = scenario.get('sibling_window')
        if sw:
            from sim.observe import parse_header

            class SiblingWindow:
                def __init__(self):
                    self.seen, self.fires, self.armed = set(), 0, {}

                def on_wire(self, meta, data):
                    h = parse_header(data)
                    if h is None or h['exch'] != 36 or h['R'] or w.now >= scenario.get('quiet_from', 1e9):
                        return
                    k = (meta['sender'], h['spi_i'], h['spi_r'], h['id'])
                    if k in self.seen:
                        return
                    self.seen.add(k)
                    x = meta['sender']
                    node = w.nodes[x]
                    if self.armed.get(x, -1.0) >= w.now:
                        self.armed[x] = -1.0
                        if sw['lose_second']:
                            w.decisions.explicit[meta['key']] = {'fate': 'drop'}
                        return
                    mine = h['spi_i'] if h['I'] else h['spi_r']
                    others = [sa for sa in node.ike_sas() if sa.my_spi != mine and sa.state.name == 'ESTABLISHED' and sa.child_sas]
                    if self.fires >= sw['fires'] or not others:
                        return
                    self.fires += 1
                    ctx.setdefault('reach', {})['sibling_window_opened'] = self.fires
                    w.decisions.explicit[meta['key']] = {'fate': 'drop'}
                    self.armed[x] = w.now + 1.95
                    spi = bytes(others[0].child_sas[0].inbound_spi)

                    def trig():
                        if node.state != 'running':
                            return
                        if sw['trigger'] == 'packet' and ctx.get('packets'):
                            mineflows = [p[2] for p in ctx['packets'] if p[1] == x]
                            if mineflows:
                                w.packet(x, mineflows[0])
                                return
                        keys = [k_ for k_ in node.kernel.sad if k_[2] == spi]
                        if keys:
                            node.kernel.expire_now(keys[0], False)
                    w.after(sw['delay'], trig, 'sibling_window.trigger')
            w.net.taps.append(SiblingWindow())

    def at_end(w, ctx):
        tap = ctx['tap']
        reach = ctx.setdefault('reach', {})
        if scenario.get('refpeer'):
            peer = ctx['peer']
            reach['batch.refpeer'] = 1
            names = ('d', 'ai', 'ar', 'ei', 'er', 'pi', 'pr')
            for spis, ent in ctx['kr'].seen.items():
                s_ = peer.sessions.get(spis[1])
                if s_ is None or s_.spi_i != spis[0] or 'A' not in ent:
                    continue
                reach['ike_keyrings_compared'] = reach.get('ike_keyrings_compared', 0) + 1
                if peer._generation(s_):
                    reach['ike_rekey_generations'] = max(reach.get('ike_rekey_generations', 0), peer._generation(s_))
                ref = tuple(s_.keys[n_] for n_ in names)
                if ent['A'] != ref:
                    bad = ['sk_' + n_ for n_, x_, y_ in zip(names, ent['A'], ref) if x_ != y_]
                    return w.violation(PROP, 'peers_hold_different_ike_keys', {'keys': '+'.join(bad), 'peer': 'reference', 'generation': peer._generation(s_)},
                                       f'IKE_SA {spis[0].hex()}/{spis[1].hex()} (rekey generation {peer._generation(s_)}): the daemon and the reference '
                                       f'responder, which answered every exchange of it, differ in {bad}')
            idx = newsa_index(w.nodes['A'])
            a_addr = scenario['meta']['a_addr']
            for ch in peer.children:
                proto = PROTO_NUM.get(ch['proto'])
                km = ch['keymat']
                for key, want, who in (((_addr_raw(peer.addr), proto, ch['spi_resp']), (km['ei'], km['ai']), 'outbound'),
                                       ((_addr_raw(a_addr), proto, ch['spi_init']), (km['er'], km['ar']), 'inbound')):
                    rec = idx.get(key)
                    if rec is None:
                        continue
                    c_, a_ = alg(rec, K['XFRMA_ALG_CRYPT']), alg(rec, K['XFRMA_ALG_AUTH'])
                    reach['children_compared'] = reach.get('children_compared', 0) + 1
                    if ((c_[2] if c_ else b''), (a_[2] if a_ else b'')) != want:
                        return w.violation(PROP, 'keys_not_those_of_the_direction', {'kind': 'initial' if ch['initial'] else ('rekey' if ch['rekey_of'] else 'additional'),
                                                                                   'pfs': ch['pfs'], 'swapped': False, 'peer': 'reference'},
                                           f'CHILD_SA {ch["spi_init"].hex()}/{ch["spi_resp"].hex()} granted by the reference responder: the daemon\'s {who} SA does '
                                           f'not carry the KEYMAT slice of its direction')
            return
        for p in tap.problems:
            if p['kind'] in ('cannot_open_protected_message', 'ike_rekey_skeyseed_prf'):
                # conformance with the RFC key schedule is C04's statement; here it only limits what can be judged below
                w.violation('C04', p['kind'], p['sig'], p['detail'])
        if judge_children(w, tap, reach) is not None:
            return
        # a CHILD_SA both daemons still list: none of its four kernel SAs has been deleted by the daemon that installed it (the peer's kernel
        # would hold the other half of a pair that is no more)
        if all(n.state == 'running' and not n.exited for n in w.nodes.values()) and len(w.nodes) == 2:
            listed = {}
            for name, node in w.nodes.items():
                for sa in node.ike_sas():
                    for c in sa.child_sas:
                        proto = 50 if c.proposal.protocol_id.name == 'ESP' else 51
                        listed.setdefault(frozenset((bytes(c.inbound_spi), bytes(c.outbound_spi))), {})[name] = (sa, c, proto)
            for pair, ends in listed.items():
                if len(ends) != 2:
                    continue
                for name, (sa, c, proto) in ends.items():
                    led = w.nodes[name].kernel.ledger
                    for direction, key in (('outbound', (_addr_raw(str(sa.peer_addr)), proto, bytes(c.outbound_spi))),
                                           ('inbound', (_addr_raw(str(sa.my_addr)), proto, bytes(c.inbound_spi)))):
                        last = next((e for e in reversed(led) if e[0] in ('add', 'del') and e[1] == key), None)
                        reach['listed_pairs_checked'] = reach.get('listed_pairs_checked', 0) + 1
                        if last is not None and last[0] == 'del':
                            return w.violation(PROP, 'kernel_sas_not_mirror_images', {'kind': 'listed', 'direction': direction, 'field': 'deleted_by_daemon'},
                                               f'both daemons list CHILD_SA {c.inbound_spi.hex()}/{c.outbound_spi.hex()} (as seen by {name}), but {name} '
                                               f'deleted its {direction} SA (SPI {key[2].hex()}) from its kernel at t={last[2]:.2f} (netlink request '
                                               f'{last[3]}): the peer holds the other half of a pair that is no more')
        # data plane: every flow of the workload that finds an outbound SA must be accepted by the peer kernel, both directions
        for (t, node, flow, res) in ctx.get('packets', []):
            peer = 'B' if node == 'A' else 'A'
            for a, b, f in ((node, peer, flow), (peer, node, reverse_flow(flow))):
                if w.nodes[a].state != 'running' or w.nodes[b].state != 'running':
                    continue
                ka, kb = w.nodes[a].kernel, w.nodes[b].kernel
                if sum(1 for p in ka.spd if p['dir'] == K['XFRM_POLICY_OUT'] and ka._sel_match(p['sel'], f)) > 1 or \
                        sum(1 for p in kb.spd if p['dir'] == K['XFRM_POLICY_IN'] and kb._sel_match(p['sel'], f)) > 1:
                    # overlapping protect entries of equal priority: which policy the kernel applies is a tie the configuration leaves open
                    # (and the two ends may list their entries in different orders); thorough soak, seed 501007439
                    reach['dataplane_ambiguous_flow_skipped'] = reach.get('dataplane_ambiguous_flow_skipped', 0) + 1
                    continue
                ok, why = data_plane_probe(w, a, b, f)
                if why in ('no outbound SA', 'no outbound policy', 'no SA for (daddr, proto, spi)'):
                    continue          # nothing (or only one side) installed right now: not a statement about mirror images
                reach['dataplane_probes'] = reach.get('dataplane_probes', 0) + 1
                if not ok:
                    return w.violation(PROP, 'data_plane_mismatch', {'reason': why}, f'packet {f} leaves {a} protected but {b} rejects it: {why}')
    ctx['at_end'] = at_end
    w = execute(scenario, setup, ctx)
    tap = ctx['tap']
    reach = ctx.get('reach', {})
    reach['ike_keyrings_compared'] = ctx['kr'].compared
    reach['ike_rekey_generations'] = tap.counts.get('max_generation', 0)
    reach['children_pfs'] = tap.counts.get('children_pfs', 0)
    reach['sessions'] = tap.counts.get('sessions', 0)
    reach['opaque_messages'] = tap.counts.get('opaque_messages', 0)
    ca = next(iter(scenario['nodes']['A']['conf'].values()))
    for x in set(ca.get('encr', [])):
        reach['suite.' + x] = 1
    for x in set(ca.get('integ', [])) | set(ca.get('prf', [])):
        reach['suite.' + x] = 1
    for x in ca.get('dh', []):
        reach['dh.' + str(configs.DH[str(x)])] = 1
    for p in ca['protect']:
        reach['proto.' + p.get('ipsec_proto', 'esp')] = 1
        reach['mode.' + p.get('mode', 'tunnel')] = 1
    reach['family.%d' % scenario['meta']['family']] = 1
    reach['auth.' + scenario['meta']['auth']] = 1
    for l in w.logs:
        if 'INVALID_KE_PAYLOAD notification received' in l[3]:
            reach['init_invalid_ke_retry'] = reach.get('init_invalid_ke_retry', 0) + 1
        elif 'COOKIE notification received' in l[3]:
            reach['init_cookie_retry'] = reach.get('init_cookie_retry', 0) + 1
    st = workload.base_stats(w, ctx['cov'], {'reach': reach, 'nontrivial': reach.get('children_compared', 0) >= 2})
    import hashlib
    chosen = sorted({(c['proto'], c['encr_bits'], c['integ'], c['transport'], c['pfs'], bool(c['rekey_of'])) for c in tap.children})
    st['sig'] = hashlib.sha256(repr((configs.suite_signature(scenario['nodes']['A']['conf']), configs.suite_signature((scenario.get('refpeer') or scenario['nodes'].get('B'))['conf']),
                                     chosen, scenario['meta']['family'], scenario['meta']['auth'],
                                     tap.counts.get('max_generation', 0))).encode()).hexdigest()[:16]
    if scenario.get('seed', 0) % 59 == 0 or w.violations:
        st['sample'] = {'seed': scenario.get('seed'), 'meta': scenario.get('meta'), 'conf_A': {k: ca.get(k) for k in ('encr', 'integ', 'prf', 'dh')},
                        'children': [(c['x_init'], c['spi_init'].hex(), c['spi_resp'].hex(), c['proto'], c['encr_bits'], c['integ'], c['pfs']) for c in tap.children][:8],
                        'reach': {k: v for k, v in reach.items()}, 'wiretap_counts': tap.counts}
    res = {'violations': w.violations, 'stats': st, 'digest': w.hexdigest()}
    if any(v['property'] == PROP for v in w.violations):
        res['scenario'] = replayable(scenario, w)
    if scenario.get('keep_events'):
        res['trace'] = w.events[-200:] + [f'LOG {l}' for l in w.logs[-60:]] + [f'TAP {p}' for p in tap.problems[:10]]
    return res
