"""C02 - no IKE_SA is established without a valid AUTH over the real exchange.

Three scenario families over the suite / credential swarm:
(a) MITM: every copy of one of the first four messages is rewritten in flight (header fields, payload insertion / removal /
    duplication / reordering, proposal downgrade or replacement, nonce / KE / SPI substitution, COOKIE or INVALID_KE_PAYLOAD
    injection, unknown non-critical payload, reserved octets; for IKE_AUTH - opened and re-sealed with the session keys -
    identity replacement, AUTH reflection / corruption / replacement by a PSK guess);
(b) credential mismatch between the two configurations (wrong PSK, wrong RSA key, PSK vs RSA, identity type or data);
(c) plain runs of every suite, in which the wiretap recomputes both AUTH payloads from the octets that crossed the wire."""
import copy
import ipaddress
import random
import struct

from sim import workload, configs, testkeys, refike as R
from sim.childcheck import newsa_index
from sim.interpose import Interposer
from sim.observe import WireLog, parse_header, sha
from sim.scenario import execute, replayable
from sim.wiretap import Wiretap

PROP = 'C02'
LEVEL = 'exploration'
BUDGET = {'quick': {'runs': 1600, 'wall': 52, 'chunk': 12, 'min_wall': 60},
          'thorough': {'runs': 400000, 'wall': 1200, 'chunk': 24, 'min_wall': 150}}
RULE = ('one evaluation = one simulated initial exchange (IKE_SA_INIT + IKE_AUTH) between two real daemons, rewritten by a MITM, run with '
        'mismatching credentials, or plain; non-trivial = the rewritten / mismatching message reached its receiver, or both AUTH payloads '
        'were recomputed; distinct = distinct (family, message, mutation, suite, auth method, outcome)')
COMPONENTS = {'real': ['ikesa.py (_generate_auth_payload, _verify_auth_payload, identity checks, IKE_SA_INIT octets retained for AUTH, response '
                       'proposal validation)', 'crypto.py (prf, RSA)', 'message.py', 'configuration.py'],
              'stub': ['MITM (sim/interpose.py: cleartext rewriting; IKE_AUTH opened / re-sealed with the wiretap session keys)', 'wiretap AUTH '
                       'recomputation (RFC 7296 2.15) from wire octets', 'credential swarm']}
ASSUMPTIONS = ['a MITM holding the SK_e/SK_a of the session stands for one that substituted both KE values; it never holds a PSK or RSA private key',
               'meaning of a message = its reference decoding ignoring reserved octets and unknown non-critical payloads; meaning-neutral rewrites '
               'may end either way, but an endpoint that establishes must have authenticated over octets it really sent or received']
EXPECT_REACH = ['family.mitm', 'family.cred', 'family.plain', 'mitm.msg1', 'mitm.msg2', 'mitm.msg3', 'mitm.msg4', 'rewrite_delivered',
                'meaning_changed', 'meaning_neutral', 'established_both', 'auth_recomputed', 'failed_as_required', 'auth.psk', 'auth.rsa']
INIT_MUT = ('flag_reserved', 'version_minor', 'msgid', 'exch', 'insert_unknown', 'insert_unknown_first', 'dup_payload', 'remove_vendor', 'reorder',
            'downgrade', 'foreign_proposal', 'reorder_transforms', 'nonce', 'nonce_len', 'ke', 'ke_group', 'spi_i', 'spi_r', 'inject_cookie',
            'inject_invalid_ke', 'reserved_octet', 'extra_notify', 'strip_ke')
AUTH_MUT = ('id_data', 'id_type', 'auth_corrupt', 'auth_truncate', 'auth_extend', 'auth_reflect', 'auth_guess_psk', 'auth_method', 'swap_id_payload_type', 'drop_auth',
            'skip_auth_create_child', 'skip_auth_create_child', 'skip_auth_rekey_ike', 'skip_auth_informational', 'auth_bad_child_refused', 'auth_bad_child_refused')
KNOWN = set(range(33, 47)) - {37, 38}


def meaning(data):
    """Reference decoding with reserved octets and unknown non-critical payloads ignored; None if undecodable."""
    try:
        h = R.dec_header(data)
        chain = R.dec_chain(data[28:], h['next'])
    except R.DecodeError:
        return None
    pls = []
    for p in chain:
        if p['type'] not in KNOWN and not p['critical']:
            continue
        pls.append((p['type'], p['critical'], p['body'] if p['type'] not in (R.P_KE, R.P_IDi, R.P_IDr, R.P_AUTH, R.P_TSi, R.P_TSr)
                    else _strip_reserved(p['type'], p['body'])))
    return (h['spi_i'], h['spi_r'], h['major'], h['exch'], h['I'], h['R'], h['id'], tuple(pls))


def _strip_reserved(t, b):
    if t == R.P_KE and len(b) >= 4:
        return b[:2] + b[4:]
    if t in (R.P_IDi, R.P_IDr, R.P_AUTH, R.P_TSi, R.P_TSr) and len(b) >= 4:
        return b[:1] + b[4:]
    return b


def mutate_init(kind, r, data):
    """Rewrite one IKE_SA_INIT datagram. Returns new octets (or None: not applicable to this message)."""
    try:
        h = R.dec_header(data)
        pls = [R.dec_payload(p) for p in R.dec_chain(data[28:], h['next'])]
    except R.DecodeError:
        return None
    b = bytearray(data)
    rb = lambda n: bytes(r.getrandbits(8) for _ in range(n))
    hd = {'spi_i': h['spi_i'], 'spi_r': h['spi_r'], 'exch': h['exch'], 'I': h['I'], 'R': h['R'], 'id': h['id']}
    unk = lambda: {'type': r.choice([37, 38, 47, 200]), 'data': rb(r.choice([0, 5, 20])), 'critical': False}
    sa = next((p for p in pls if p['type'] == R.P_SA), None)
    if kind == 'flag_reserved':
        b[19] |= r.choice([0x01, 0x02, 0x04, 0x40, 0x80])
        return bytes(b)
    if kind == 'version_minor':
        b[17] = (b[17] & 0xF0) | r.choice([1, 7])
        return bytes(b)
    if kind == 'msgid':
        b[20:24] = struct.pack('>L', r.choice([1, 2]))
        return bytes(b)
    if kind == 'exch':
        b[18] = r.choice([35, 36, 37])
        return bytes(b)
    if kind == 'reserved_octet':
        # the RESERVED octet of the first generic payload header, or of the KE / SA sub-structures
        pos = r.choice([29, 28 + 4 + 1])
        if pos < len(b):
            b[pos] |= r.choice([0x01, 0x10, 0x7f])
        return bytes(b)
    if kind == 'insert_unknown':
        pls.insert(r.randrange(1, len(pls) + 1), unk())
    elif kind == 'insert_unknown_first':
        pls.insert(0, unk())
    elif kind == 'dup_payload':
        i = r.randrange(len(pls))
        pls.insert(i, copy.deepcopy(pls[i]))
    elif kind == 'remove_vendor':
        if not any(p['type'] == R.P_VENDOR for p in pls):
            return None
        pls = [p for p in pls if p['type'] != R.P_VENDOR]
    elif kind == 'reorder':
        if len(pls) < 2:
            return None
        i = r.randrange(len(pls) - 1)
        pls[i], pls[i + 1] = pls[i + 1], pls[i]
    elif kind in ('downgrade', 'foreign_proposal', 'reorder_transforms'):
        if sa is None:
            return None
        trs = sa['proposals'][0]['transforms']
        if kind == 'downgrade':
            # keep one transform per type: the LAST offered of each (typically the weakest preference)
            by = {}
            for t in trs:
                by[t['type']] = t
            if len(by) == len(trs):
                return None
            sa['proposals'][0]['transforms'] = list(by.values())
        elif kind == 'foreign_proposal':
            t = r.choice(trs)
            t['id'] = {1: 12, 2: r.choice([2, 5, 7]), 3: r.choice([2, 12, 14]), 4: r.choice([14, 19, 20, 21])}.get(t['type'], t['id'])
            if t['type'] == 1:
                t['keylen'] = 128 if t.get('keylen') == 256 else 256
                t['attrs'] = [(14, t['keylen'])]
        else:
            if len(trs) < 2:
                return None
            r.shuffle(trs)
    elif kind in ('nonce', 'nonce_len'):
        n = next((p for p in pls if p['type'] == R.P_NONCE), None)
        if n is None:
            return None
        n['data'] = rb(len(n['data'])) if kind == 'nonce' else n['data'] + rb(r.choice([1, 16]))
    elif kind in ('ke', 'ke_group', 'strip_ke'):
        ke = next((p for p in pls if p['type'] == R.P_KE), None)
        if ke is None:
            return None
        if kind == 'ke':
            ke['data'] = R.dh_public(ke['group'], r.getrandbits(190) + 2) if ke['group'] in R.EC_BITS or ke['group'] in R.MODP_BITS else rb(len(ke['data']))
        elif kind == 'ke_group':
            ke['group'] = r.choice([g for g in (14, 19, 20, 21) if g != ke['group']])
        else:
            pls = [p for p in pls if p['type'] != R.P_KE]
    elif kind == 'spi_i':
        hd['spi_i'] = rb(8)
    elif kind == 'spi_r':
        if not h['R']:
            return None
        hd['spi_r'] = rb(8)
    elif kind == 'inject_cookie':
        pls.insert(0, {'type': R.P_NOTIFY, 'proto': 0, 'ntype': R.N_COOKIE, 'spi': b'', 'data': rb(32)})
    elif kind == 'inject_invalid_ke':
        if not h['R']:
            return None
        pls = [{'type': R.P_NOTIFY, 'proto': 0, 'ntype': R.N_INVALID_KE_PAYLOAD, 'spi': b'', 'data': struct.pack('>H', r.choice([14, 19, 20, 21, 2]))}]
    elif kind == 'extra_notify':
        pls.append({'type': R.P_NOTIFY, 'proto': 0, 'ntype': r.choice([16388, 16389, 16430, 40000]), 'spi': b'', 'data': rb(20)})
    else:
        return None
    try:
        return R.encode(hd, pls)
    except Exception:
        return None


def generate(seed, tier):
    r = random.Random(f'C02gen:{seed}')
    family = r.choice(['mitm', 'mitm', 'mitm', 'cred', 'plain'])
    byzpeer = r.random() < 0.07
    keyless = not byzpeer and r.random() < 0.06
    o = {'conf': {'profile': 'slow', 'entries': 1, 'slow_dh': r.random() < 0.1}, 'faults': [], 'duration': 9, 'packets': 1, 'both_initiate': False, 'phase': False}
    if byzpeer:
        family = 'byzpeer'
        o['conf'].update(auth='psk', single=r.random() < 0.5)
    sc = workload.pair_scenario(seed, PROP, o)
    sc['meta']['family_kind'] = family
    if keyless and sc['meta']['family'] == 4:
        # a peer with no credential at all: it completes IKE_SA_INIT with the daemon (so it has the SK_* keys), never sends IKE_AUTH,
        # answers whatever the daemon asks of the half-open IKE_SA and then asks for a CHILD_SA: never established, nothing installed
        q_addr = '10.0.0.3'
        cb_ = sc['nodes']['B']['conf']
        base = copy.deepcopy(cb_['to-a'])
        base['peer_addr'] = q_addr
        base['dpd'] = r.choice([2, 3, 5])
        base['protect'] = [{'index': 900, 'mode': 'transport', 'ip_proto': 'tcp', 'peer_port': 7}]
        cb_['to-q'] = base
        sc['keyless'] = {'addr': q_addr, 'seed': r.randrange(2 ** 31), 'then': r.choice(['wait_for_probe', 'wait_for_probe', 'ask_at_once', 'informational_at_once'])}
        sc['meta']['family_kind'] = family = 'keyless'
        if r.random() < 0.5:
            # ... or the other way round: the daemon is the initiator (traffic towards that peer), the peer answers IKE_SA_INIT as a
            # conforming responder would and the IKE_AUTH request with something that is protected but proves nothing
            sc['keyless']['role'] = 'responder'
            sc['keyless']['then'] = r.choice(['informational_empty', 'auth_empty', 'auth_no_auth', 'auth_garbage', 'child_response', 'notify_only'])
            conn_q = next(c for c in configs.read_conf(cb_).values() if str(c['peer_addr']) == q_addr)
            for t_ in (1.2, r.choice([4.0, 6.5, 9.0])):
                sc['ops'].append({'t': t_, 'op': 'packet', 'node': 'B', 'entry': 0,
                                  'flow': configs.flow_for_entry(r, conn_q['my_addr'], conn_q['peer_addr'], conn_q['protect'][0])})
        else:
            sc['ops'].append({'t': 1.2, 'op': 'call', 'name': 'keyless_start'})
        sc['ops'].sort(key=lambda x: x['t'])
        sc['until'] = sc['quiet_from'] = 16.0
        return sc
    if byzpeer:
        # the configured peer itself (it holds the PSK) answers IKE_SA_INIT with a proposal that lists a never-offered ENCR transform in
        # front of an offered one and keys the IKE_SA with it: "whenever both sides are established they agree on offered and chosen proposals"
        workload.to_refpeer(sc, r, {'byz_foreign_first': True, 'cookie': False})
        sc['meta']['family_kind'] = 'byzpeer'
        return sc
    ca, cb = sc['nodes']['A']['conf']['to-b'], sc['nodes']['B']['conf']['to-a']
    if (family == 'plain' and r.random() < 0.35) or (family == 'mitm' and r.random() < 0.15):
        # the responder always demands a cookie: the exchange that is authenticated is the one with the COOKIE in front
        sc['controller_attrs'] = {'B': {'cookie_threshold': 0}}
        sc['meta']['cookie_mode'] = True
    if family == 'mitm':
        msg = r.choice([1, 1, 2, 2, 3, 4])
        kind = r.choice(INIT_MUT) if msg <= 2 else r.choice(AUTH_MUT)
        sc['mitm'] = {'msg': msg, 'kind': kind, 'seed': r.randrange(2 ** 31)}
    elif family == 'cred':
        how = r.choice(['psk', 'psk_other_side', 'rsa_key', 'method', 'id_data', 'id_type', 'id_type_same_data', 'id_type_same_data', 'id_other_conn',
                        'id_near', 'id_near'])
        side, other = (cb, ca) if r.random() < 0.5 else (ca, cb)
        auth = sc['meta']['auth']
        if how in ('psk', 'psk_other_side'):
            if auth != 'psk':
                how = 'rsa_key'
            else:
                side['peer_auth']['psk'] = side['peer_auth']['psk'][:-1] + ('x' if side['peer_auth']['psk'][-1] != 'x' else 'y')
        if how == 'rsa_key':
            if auth != 'rsa':
                side['peer_auth']['psk'] = side['peer_auth']['psk'] + '!'
            else:
                # the verifier holds another public key than the one matching the peer's private key
                side['peer_auth']['pubkey'] = testkeys.KEY1_PUB if side['peer_auth'].get('pubkey') == testkeys.KEY2_PUB else testkeys.KEY2_PUB
        elif how == 'method':
            if auth == 'psk':
                side['peer_auth'] = {k: v for k, v in side['peer_auth'].items() if k != 'psk'}
                side['peer_auth']['pubkey'] = testkeys.KEY1_PUB
            else:
                side['peer_auth'] = {k: v for k, v in side['peer_auth'].items() if k != 'pubkey'}
                side['peer_auth']['psk'] = 'a-psk-nobody-uses-1234'
        elif how == 'id_data':
            side['peer_auth']['id'] = 'mallory.example.org' if sc['meta']['idkind'] != 'fqdn' else 'alicf.example.org'
        elif how == 'id_type':
            side['peer_auth']['id'] = 'someone@example.org' if sc['meta']['idkind'] != 'email' else 'alice.example.org'
        elif how == 'id_type_same_data':
            # the peer presents an identity whose octets equal the configured ones but whose type differs:
            # FQDN "abcd" against ID_IPV4_ADDR 97.98.99.100 (= b"abcd"); it holds the right credential, so AUTH itself verifies
            other['my_auth']['id'] = 'abcd'
            side['peer_auth']['id'] = '97.98.99.100'
        elif how == 'id_near':
            # the peer (which holds the right credential) presents an identity of the configured type that is almost the configured one:
            # another letter case, an address whose octets are the upper / lower case counterparts (0x41 / 0x61), one more trailing octet
            a_, b_ = r.choice([('gw-East.Example.ORG', 'gw-east.example.org'), ('BOB@example.org', 'bob@example.org'), ('192.168.0.97', '192.168.0.65'),
                               ('10.65.66.67', '10.97.98.99'), ('gw.example.org.', 'gw.example.org'), ('fd00::4142', 'fd00::6162')])
            if r.random() < 0.5:
                a_, b_ = b_, a_
            other['my_auth']['id'] = a_
            side['peer_auth']['id'] = b_
        elif how == 'id_other_conn':
            side['peer_auth']['id'] = side['my_auth'].get('id', 'me.example.org') + '.other'
        sc['cred'] = how
    return sc


def run(scenario):
    ctx = {'delivered': {}, 'est': {}}
    fam = scenario['meta']['family_kind']
    mit = scenario.get('mitm')

    def setup(w, ctx):
        wire = ctx['wire'] = WireLog(w)
        ctx['cov'] = workload.Coverage(w)
        tap = ctx['tap'] = Wiretap(w, check_reencode=False)
        ip = ctx['ip'] = Interposer(w, tap)
        ctx['rewritten'] = []          # (receiver, original, new, changed_meaning)

        kl = scenario.get('keyless')
        if kl:
            from checks.c18 import build_init

            class Keyless:
                """Initiator without credentials (reference key schedule, sim/refike.py)."""
                def __init__(self):
                    self.r = random.Random(f'keyless:{kl["seed"]}')
                    self.conn = next(c for c in configs.read_conf(scenario['nodes']['B']['conf']).values() if str(c['peer_addr']) == kl['addr'])
                    self.spi_i = bytes(self.r.getrandbits(8) for _ in range(8))
                    self.ni = bytes(self.r.getrandbits(8) for _ in range(32))
                    self.x = self.r.getrandbits(200) + 2
                    self.keys = self.suite = self.spi_r = None
                    self.next_id = 1
                    self.asked = False
                    self.log = []
                    w.externals[kl['addr']] = self

                def start(self, w_, op):
                    w.net.inject(build_init(self.conn, self.spi_i, self.ni, self.x), kl['addr'], str(self.conn['my_addr']), 0.005, 'keyless')

                def _iv(self):
                    return bytes(self.r.getrandbits(8) for _ in range(16))

                def _send(self, exch, mid, pls, response=False):
                    d = R.sk_seal({'spi_i': self.spi_i, 'spi_r': self.spi_r, 'exch': exch, 'I': True, 'R': response, 'id': mid}, pls, self.suite,
                                  self.keys['ai'], self.keys['ei'], self._iv())
                    w.net.inject(d, kl['addr'], str(self.conn['my_addr']), 0.005, 'keyless')

                def ask(self):
                    if self.asked or self.keys is None:
                        return
                    self.asked = True
                    e = self.conn['protect'][0]
                    q, b = ipaddress.ip_address(kl['addr']).packed, self.conn['my_addr'].packed
                    trs = [{'type': 1, 'id': e['encr'][0][0], 'keylen': e['encr'][0][1]}, {'type': 3, 'id': e['integ'][0]}, {'type': 5, 'id': 0}]
                    ts = lambda t, a, lo, hi: {'type': t, 'selectors': [{'ts_type': 7, 'proto': 6, 'sport': lo, 'eport': hi, 'saddr': a, 'eaddr': a}]}
                    pls = [{'type': R.P_NOTIFY, 'proto': 0, 'ntype': R.N_USE_TRANSPORT_MODE, 'spi': b'', 'data': b''},
                           {'type': R.P_SA, 'proposals': [{'num': 1, 'proto': 3, 'spi': bytes(self.r.getrandbits(8) for _ in range(4)), 'transforms': trs}]},
                           {'type': R.P_NONCE, 'data': bytes(self.r.getrandbits(8) for _ in range(32))},
                           ts(R.P_TSi, q, 7, 7), ts(R.P_TSr, b, 0, 65535)]
                    self.log.append('asked for a CHILD_SA')
                    self._send(R.CREATE_CHILD_SA, self.next_id, pls)
                    self.next_id += 1

                def _respond(self, exch, mid, pls):
                    d = R.sk_seal({'spi_i': self.spi_i, 'spi_r': self.spi_r, 'exch': exch, 'I': False, 'R': True, 'id': mid}, pls, self.suite,
                                  self.keys['ar'], self.keys['er'], self._iv())
                    w.net.inject(d, kl['addr'], str(self.conn['my_addr']), 0.005, 'keyless')

                def as_responder(self, data, h):
                    first = lambda prop: [next(t for t in prop['transforms'] if t['type'] == ty) for ty in sorted({t['type'] for t in prop['transforms']})]
                    if h['exch'] == 34 and not h['R'] and h['id'] == 0:
                        try:
                            pls = [R.dec_payload(p) for p in R.dec_chain(bytes(data)[28:], h['next'])]
                            sa = next(p for p in pls if p['type'] == R.P_SA)
                            ke = next(p for p in pls if p['type'] == R.P_KE)
                            ni = next(p for p in pls if p['type'] == R.P_NONCE)['data']
                            prop = dict(sa['proposals'][0], transforms=first(sa['proposals'][0]))
                            suite = R.Suite.from_proposal(prop)
                            if suite.dh != ke['group']:
                                return
                            if self.keys is None:
                                self.spi_i, self.spi_r, self.suite = h['spi_i'], bytes(self.r.getrandbits(8) for _ in range(8)), suite
                                self.keys = R.ike_keys(suite, ni, self.ni, self.spi_i, self.spi_r, R.dh_shared(suite.dh, self.x, ke['data']))
                                self.init_res = R.encode({'spi_i': self.spi_i, 'spi_r': self.spi_r, 'exch': 34, 'I': False, 'R': True, 'id': 0},
                                                         [{'type': R.P_SA, 'proposals': [prop]}, {'type': R.P_KE, 'group': suite.dh, 'data': R.dh_public(suite.dh, self.x)},
                                                          {'type': R.P_NONCE, 'data': self.ni}])
                                self.log.append('answered IKE_SA_INIT as a conforming responder')
                            if h['spi_i'] == self.spi_i:
                                w.net.inject(self.init_res, kl['addr'], str(self.conn['my_addr']), 0.005, 'keyless')
                        except Exception:
                            return
                        return
                    if self.keys is None or h['R'] or (h['spi_i'], h['spi_r']) != (self.spi_i, self.spi_r):
                        return
                    try:
                        _, chain, _ = R.sk_open(bytes(data), self.suite, self.keys['ai'], self.keys['ei'])
                        pls = [R.dec_payload(p) for p in chain]
                    except R.DecodeError:
                        return
                    then = kl['then']
                    sa = next((p for p in pls if p['type'] == R.P_SA), None)
                    tsi = next((p for p in pls if p['type'] == R.P_TSi), None)
                    tsr = next((p for p in pls if p['type'] == R.P_TSr), None)
                    child = []
                    if sa and tsi and tsr:
                        prop = dict(sa['proposals'][0], transforms=first(sa['proposals'][0]), spi=bytes(self.r.getrandbits(8) for _ in range(4)))
                        child = [p for p in pls if p['type'] == R.P_NOTIFY and p['ntype'] == R.N_USE_TRANSPORT_MODE] + \
                                [{'type': R.P_SA, 'proposals': [prop]}, {'type': R.P_TSi, 'selectors': tsi['selectors'][-1:]}, {'type': R.P_TSr, 'selectors': tsr['selectors'][-1:]}]
                    nonce = [{'type': R.P_NONCE, 'data': bytes(self.r.getrandbits(8) for _ in range(32))}]
                    idr = [{'type': R.P_IDr, 'id_type': 2, 'data': b'q@nowhere.example'}]
                    if h['exch'] == 35 and h['id'] == 1:
                        self.asked = True
                        self.log.append(f'answered the IKE_AUTH request with {then}')
                        if then == 'informational_empty':
                            self._respond(R.INFORMATIONAL, 1, [])
                        elif then == 'auth_empty':
                            self._respond(35, 1, [])
                        elif then == 'auth_no_auth':
                            self._respond(35, 1, idr + child)
                        elif then == 'auth_garbage':
                            self._respond(35, 1, idr + [{'type': R.P_AUTH, 'method': 2, 'data': bytes(self.r.getrandbits(8) for _ in range(R.prf_len(self.suite.prf)))}] + child)
                        elif then == 'child_response':
                            self._respond(R.CREATE_CHILD_SA, 1, child[:2] + nonce + child[2:] if len(child) == 4 else child[:1] + nonce + child[1:])
                        else:
                            self._respond(35, 1, [{'type': R.P_NOTIFY, 'proto': 0, 'ntype': 16384, 'spi': b'', 'data': b''}])
                    elif h['exch'] == R.CREATE_CHILD_SA and child:
                        self.log.append('answered a CREATE_CHILD_SA request')
                        self._respond(R.CREATE_CHILD_SA, h['id'], child[:-2] + nonce + child[-2:])
                    else:
                        self.log.append(f'answered request {h["exch"]} id {h["id"]}')
                        self._respond(h['exch'], h['id'], [])

                def on_datagram(self, data, src, dst):
                    try:
                        h = R.dec_header(bytes(data))
                    except R.DecodeError:
                        return
                    if kl.get('role') == 'responder':
                        return self.as_responder(data, h)
                    if h['exch'] == 34 and h['R'] and self.keys is None:
                        try:
                            pls = [R.dec_payload(p) for p in R.dec_chain(bytes(data)[28:], h['next'])]
                            sa = next(p for p in pls if p['type'] == R.P_SA)
                            ke = next(p for p in pls if p['type'] == R.P_KE)
                            nr = next(p for p in pls if p['type'] == R.P_NONCE)['data']
                            self.suite = R.Suite.from_proposal(sa['proposals'][0])
                            self.spi_r = h['spi_r']
                            self.keys = R.ike_keys(self.suite, self.ni, nr, self.spi_i, self.spi_r, R.dh_shared(self.suite.dh, self.x, ke['data']))
                        except Exception:
                            return
                        self.log.append('IKE_SA_INIT done')
                        if kl['then'] == 'ask_at_once':
                            w.after(0.3, self.ask, 'keyless.ask')
                        elif kl['then'] == 'informational_at_once':
                            self._send(R.INFORMATIONAL, self.next_id, [])
                            self.next_id += 1
                            w.after(0.5, self.ask, 'keyless.ask')
                        return
                    if self.keys is None or h['R'] or (h['spi_i'], h['spi_r']) != (self.spi_i, self.spi_r):
                        return
                    try:
                        R.sk_open(bytes(data), self.suite, self.keys['ar'], self.keys['er'])
                    except R.DecodeError:
                        return
                    # a request of the daemon on the half-open IKE_SA (a liveness probe ...): answer it, empty, and ask for a CHILD_SA
                    self.log.append(f'answered request {h["exch"]} id {h["id"]}')
                    self._send(h['exch'], h['id'], [], response=True)
                    w.after(0.3, self.ask, 'keyless.ask')
            ctx['keyless'] = Keyless()
            ctx['handlers'] = dict(ctx.get('handlers', {}), keyless_start=ctx['keyless'].start)

        class Deliveries:
            def before_delivery(self, node, data, src, dst, meta):
                ctx['delivered'].setdefault(node.name, []).append(bytes(data))
                ctx.setdefault('delivered_at', {}).setdefault(node.name, []).append((w.now, bytes(data)))

            def after_step(self, node, cause):
                for sa in node.ike_sas():
                    if int(sa.state) >= 10 and id(sa) not in ctx['est']:
                        ctx['est'][id(sa)] = {'node': node.name, 'spi_i': sa.my_spi if sa.is_initiator else sa.peer_spi,
                                              'spi_r': sa.peer_spi if sa.is_initiator else sa.my_spi, 'initiator': bool(sa.is_initiator),
                                              'req': bytes(sa.ike_sa_init_req_data or b''), 'res': bytes(sa.ike_sa_init_res_data or b''), 't': w.now}
        w.monitors.append(Deliveries())
        if scenario.get('refpeer'):
            ctx['peer'] = workload.attach_refpeer(w, scenario)
        if not mit:
            return
        rr = random.Random(f'mitm:{mit["seed"]}')
        state = {'peer_auth': {}}

        def rule(meta, data):
            h = parse_header(data)
            if h is None:
                return None
            n = mit['msg']
            if n <= 2:
                if h['exch'] != 34 or h['R'] != (n == 2):
                    return None
                new = mutate_init(mit['kind'], random.Random(f'{mit["seed"]}:{sha(data)}'), data)
            else:
                if h['exch'] != 35 or h['R'] != (n == 4):
                    if h['exch'] == 35:
                        opened = ip.open(data)
                        if opened:
                            au = next((p for p in opened[1] if p['type'] == R.P_AUTH), None)
                            if au:
                                state['peer_auth'][h['R']] = au
                    return None
                opened = ip.open(data)
                if opened is None:
                    return None
                hh, pls, s = opened
                r2 = random.Random(f'{mit["seed"]}:{sha(data)}')
                kind = mit['kind']
                idp = next((p for p in pls if p['type'] in (R.P_IDi, R.P_IDr)), None)
                au = next((p for p in pls if p['type'] == R.P_AUTH), None)
                if kind.startswith('skip_auth'):
                    # a peer that holds the session keys but no credential: instead of IKE_AUTH it sends the exchange that follows it
                    # (towards the responder: its request 1; towards the initiator: the responder's own request 0)
                    keep = [p for p in pls if p['type'] in (R.P_SA, R.P_TSi, R.P_TSr) or (p['type'] == R.P_NOTIFY and p['ntype'] == 16391)]
                    nonce = {'type': R.P_NONCE, 'data': bytes(r2.getrandbits(8) for _ in range(32))}
                    exch = 36
                    if kind == 'skip_auth_create_child':
                        if not any(p['type'] == R.P_SA for p in keep):
                            return None
                        body = [keep[0], nonce] + keep[1:]
                    elif kind == 'skip_auth_rekey_ike':
                        if getattr(s, 'offer', None) is None:
                            return None
                        sa = copy.deepcopy(s.offer)
                        for pr in sa['proposals']:
                            pr['spi'] = bytes(r2.getrandbits(8) for _ in range(8))
                        grp = next((t['id'] for t in sa['proposals'][0]['transforms'] if t['type'] == 4), 14)
                        body = [sa, nonce, {'type': R.P_KE, 'group': grp, 'data': R.dh_public(grp, r2.getrandbits(190) + 2)}]
                    else:
                        exch, body = 37, [{'type': R.P_NOTIFY, 'proto': 0, 'ntype': 16384, 'spi': b'', 'data': b''}]
                    hd = {'spi_i': hh['spi_i'], 'spi_r': hh['spi_r'], 'exch': exch, 'I': hh['I'], 'R': False, 'id': 0 if hh['R'] else 1}
                    new = ip.seal(s, hd, body, bytes(r2.getrandbits(8) for _ in range(16)))
                    recv = w.net.node_of_addr(meta['dst'])
                    ctx['rewritten'].append((recv.name if recv else None, bytes(data), new, True))
                    return [(new, 0.0)]
                if idp is None or au is None:
                    return None
                if kind == 'id_data':
                    idp['data'] = idp['data'][:-1] + bytes([idp['data'][-1] ^ 1]) if idp['data'] else b'x'
                elif kind == 'id_type':
                    idp['id_type'] = {1: 5, 2: 3, 3: 2, 5: 1}.get(idp['id_type'], 2)
                elif kind == 'auth_corrupt':
                    d = bytearray(au['data'])
                    d[r2.randrange(len(d))] ^= 1 << r2.randrange(8)
                    au['data'] = bytes(d)
                elif kind == 'auth_truncate':
                    # a prefix of the right value (down to nothing at all) is not the right value
                    au['data'] = au['data'][:r2.choice([0, 0, 1, len(au['data']) // 2, len(au['data']) - 1])]
                elif kind == 'auth_extend':
                    au['data'] = au['data'] + bytes(r2.getrandbits(8) for _ in range(r2.choice([1, 4, 32])))
                elif kind == 'auth_reflect':
                    other = state['peer_auth'].get(not h['R'])
                    if other is None:
                        # reflect this side's own AUTH back later is impossible for msg3; use a recomputation with swapped SK_p instead
                        octets = R.auth_octets(s.init_req if not h['R'] else s.init_res, s.nr if not h['R'] else s.ni, s.suite.prf,
                                               s.keys['pr'] if not h['R'] else s.keys['pi'], R.id_body(idp))
                        au['data'] = R.psk_auth(s.suite.prf, b'guess', octets) if au['method'] == 2 else au['data'][::-1]
                    else:
                        au['data'], au['method'] = other['data'], other['method']
                elif kind == 'auth_guess_psk':
                    octets = R.auth_octets(s.init_req if not h['R'] else s.init_res, s.nr if not h['R'] else s.ni, s.suite.prf,
                                           s.keys['pi'] if not h['R'] else s.keys['pr'], R.id_body(idp))
                    au['method'], au['data'] = 2, R.psk_auth(s.suite.prf, r2.choice([b'', b'password', b'psk-', b'Key Pad for IKEv2']), octets)
                elif kind == 'auth_method':
                    au['method'] = 1 if au['method'] == 2 else 2
                elif kind == 'swap_id_payload_type':
                    idp['type'] = R.P_IDr if idp['type'] == R.P_IDi else R.P_IDi
                elif kind == 'drop_auth':
                    pls.remove(au)
                elif kind == 'auth_bad_child_refused':
                    # an IKE_AUTH message whose AUTH does not verify AND that refuses (or does not carry) the piggy-backed CHILD_SA: the
                    # refusal of the CHILD_SA must not be looked at before the peer is authenticated
                    d = bytearray(au['data'])
                    d[r2.randrange(len(d))] ^= 1 << r2.randrange(8)
                    au['data'] = bytes(d)
                    pls[:] = [p for p in pls if p['type'] not in (R.P_SA, R.P_TSi, R.P_TSr) and not (p['type'] == R.P_NOTIFY and p['ntype'] == 16391)]
                    if h['R']:
                        pls.insert(r2.choice([0, len(pls)]), {'type': R.P_NOTIFY, 'proto': 0, 'ntype': r2.choice([R.N_NO_PROPOSAL_CHOSEN, R.N_TS_UNACCEPTABLE]),
                                                             'spi': b'', 'data': b''})
                new = ip.seal(s, {'spi_i': hh['spi_i'], 'spi_r': hh['spi_r'], 'exch': 35, 'I': hh['I'], 'R': hh['R'], 'id': hh['id']}, pls,
                              bytes(r2.getrandbits(8) for _ in range(16)))
            if new is None or new == bytes(data):
                return None
            recv = w.net.node_of_addr(meta['dst'])
            changed = (meaning(new) != meaning(data)) if n <= 2 else True
            ctx['rewritten'].append((recv.name if recv else None, bytes(data), new, changed))
            return [(new, 0.0)]
        rule.label = f'msg{mit["msg"]}.{mit["kind"]}'
        ip.rules.append(rule)

    def at_end(w, ctx):
        tap = ctx['tap']
        reach = ctx.setdefault('reach', {})
        V = lambda cls, sig, detail: w.violation(PROP, cls, sig, detail)
        reach['family.' + fam] = 1
        reach['auth.' + scenario['meta']['auth']] = 1
        est = list(ctx['est'].values())
        if scenario.get('refpeer'):
            peer = ctx['peer']
            for k_, v_ in peer.counts.items():
                reach['refpeer.' + k_] = v_
            for e in est:
                s_ = peer.sessions.get(e['spi_r'])
                if s_ is not None and s_.foreign:
                    return V('established_on_proposal_not_offered', {},
                             f'{e["node"]} marked IKE_SA {e["spi_i"].hex()}/{e["spi_r"].hex()} established although the (authenticated) responder chose - and keyed '
                             f'the IKE_SA with - an ENCR transform the initiator never offered, listed in front of an offered one')
            if peer.counts.get('byz_foreign_first') and not est:
                reach['failed_as_required'] = reach.get('failed_as_required', 0) + 1
            return
        if scenario.get('keyless'):
            kl_, peer_ = scenario['keyless'], ctx['keyless']
            reach['keyless.' + kl_['then']] = 1
            reach['keyless.init_done'] = int(peer_.keys is not None)
            reach['keyless.asked'] = int(peer_.asked)
            node = w.nodes['B']
            bad = [sa for sa in node.ike_sas() if str(sa.peer_addr) == kl_['addr'] and int(sa.state) >= 10]
            everest = [e for e in est if e['spi_i'] == peer_.spi_i and (kl_.get('role') != 'responder' or e['spi_r'] == peer_.spi_r)]
            if kl_.get('role') == 'responder':
                reach['keyless.responder'] = 1
            if bad or everest:
                return V('established_without_auth', {'then': kl_['then']},
                         f'B holds / held an established IKE_SA with {kl_["addr"]}, a peer that never sent an AUTH payload (it {"; ".join(peer_.log)})')
            from sim.kernel import _addr_raw as _ar
            inst = [k for k in newsa_index(node) if k[0] == _ar(kl_['addr'])]
            if inst:
                return V('ipsec_sa_installed_without_auth', {'then': kl_['then']},
                         f'B installed {len(inst)} IPsec SA(s) towards {kl_["addr"]}, a peer that never sent an AUTH payload (it {"; ".join(peer_.log)})')
            return
        idx = {n: newsa_index(node) for n, node in w.nodes.items()}
        sent = {n: [e['data'] for e in ctx['wire'].by_sender.get(n, [])] for n in w.nodes}
        # ---- whoever established: the IKE_SA_INIT octets it authenticated over are octets it really sent / received
        for e in est:
            n = e['node']
            got_req = sent[n] if e['initiator'] else ctx['delivered'].get(n, [])
            got_res = ctx['delivered'].get(n, []) if e['initiator'] else sent[n]
            role = 'initiator' if e['initiator'] else 'responder'
            if e['req'] and e['req'] not in got_req:
                return V('auth_over_octets_never_on_the_wire', {'role': role, 'message': 'request'},
                         f'{n} ({role}) established IKE_SA {e["spi_i"].hex()} having authenticated over an IKE_SA_INIT request of {len(e["req"])} '
                         f'octets that it never {"sent" if e["initiator"] else "received"} (the datagrams it {"sent" if e["initiator"] else "received"} '
                         f'have lengths {[len(x) for x in got_req if len(x) > 28 and x[18] == 34][:4]})')
            if e['res'] and e['res'] not in got_res:
                return V('auth_over_octets_never_on_the_wire', {'role': role, 'message': 'response'},
                         f'{n} ({role}) established IKE_SA {e["spi_i"].hex()} having authenticated over an IKE_SA_INIT response of {len(e["res"])} '
                         f'octets that it never {"received" if e["initiator"] else "sent"}')
        # ---- ... and, for the initiator, the request is the one its exchange completed with: the last IKE_SA_INIT request it sent for that SPI
        #      before the response it authenticated over reached it (after a COOKIE / INVALID_KE_PAYLOAD retry: the retry)
        for e in est:
            if not e['initiator'] or not e['req'] or not e['res']:
                continue
            n = e['node']
            t_res = next((t_ for (t_, d_) in ctx.get('delivered_at', {}).get(n, []) if d_ == e['res']), None)
            if t_res is None:
                continue
            mine = [x for x in ctx['wire'].by_sender.get(n, []) if x['h'] is not None and x['h']['exch'] == 34 and not x['h']['R']
                    and x['h']['spi_i'] == e['spi_i'] and x['t'] <= t_res]
            reach['initiator_last_request_judged'] = reach.get('initiator_last_request_judged', 0) + 1
            if mine and mine[-1]['data'] != e['req']:
                return V('auth_over_a_request_the_exchange_did_not_complete_with', {'retries': len({x['data'] for x in mine}) - 1},
                         f'{n} (initiator) established IKE_SA {e["spi_i"].hex()} having authenticated over an IKE_SA_INIT request of {len(e["req"])} octets, '
                         f'but the request its exchange completed with - the last one it sent before the response arrived - has '
                         f'{len(mine[-1]["data"])} octets (requests sent: {[len(x["data"]) for x in mine]})')
        # ---- whoever established agrees with itself: the KE values of the exchange it authenticated are in the DH group of the proposal it
        #      chose / was told (a forged INVALID_KE_PAYLOAD must end in the group the real responder selects, not in the one the forger named)
        for e in est:
            try:
                q = [R.dec_payload(p) for p in R.dec_chain(e['req'][28:], R.dec_header(e['req'])['next'])]
                a = [R.dec_payload(p) for p in R.dec_chain(e['res'][28:], R.dec_header(e['res'])['next'])]
            except Exception:
                continue
            kq = next((p['group'] for p in q if p['type'] == R.P_KE), None)
            ka = next((p['group'] for p in a if p['type'] == R.P_KE), None)
            sa_a = next((p for p in a if p['type'] == R.P_SA), None)
            dh = next((t['id'] for t in sa_a['proposals'][0]['transforms'] if t['type'] == 4), None) if sa_a and sa_a['proposals'] else None
            if None in (kq, ka, dh):
                continue
            reach['ke_group_judged'] = reach.get('ke_group_judged', 0) + 1
            if not (kq == ka == dh):
                return V('established_on_ke_group_not_the_chosen_one', {'role': 'initiator' if e['initiator'] else 'responder'},
                         f'{e["node"]} established IKE_SA {e["spi_i"].hex()} over an IKE_SA_INIT exchange whose KE payloads are in groups {kq} / {ka} '
                         f'while the chosen proposal names DH group {dh}' + (f' (MITM: {mit["kind"]} on message {mit["msg"]})' if mit else ''))
        # ---- MITM: a meaning-changing rewrite must end in failure at the deceived side
        if mit:
            reach['mitm.msg%d' % mit['msg']] = 1
            for (recv, orig, new, changed) in ctx['rewritten']:
                reach['rewrite_delivered'] = reach.get('rewrite_delivered', 0) + 1
                reach['meaning_changed' if changed else 'meaning_neutral'] = reach.get('meaning_changed' if changed else 'meaning_neutral', 0) + 1
            deceived = {recv for (recv, orig, new, changed) in ctx['rewritten'] if changed}
            forged = {new for (recv, orig, new, changed) in ctx['rewritten'] if changed}
            for e in est:
                # for IKE_SA_INIT the endpoint is deceived only if the exchange it completed is one whose message was rewritten: after an
                # INVALID_KE_PAYLOAD / COOKIE round the initiator sends a new request, which a mutation may leave untouched (the mutated field
                # is not in it, or gets the value it already had) - thorough soak, seed 501002662
                if mit['msg'] <= 2 and (e['req'] if mit['msg'] == 1 else e['res']) not in forged:
                    continue
                if e['node'] in deceived:
                    return V('established_despite_rewritten_exchange', {'msg': mit['msg'], 'kind': mit['kind']},
                             f'{e["node"]} marked IKE_SA {e["spi_i"].hex()} established although every copy of message {mit["msg"]} it received had been '
                             f'rewritten in flight ({mit["kind"]}), changing its meaning')
            for n in deceived:
                if mit['msg'] <= 2 and any(e['node'] == n for e in est):
                    continue          # it completed an exchange (judged above): its SAs belong to that one
                if idx[n]:
                    return V('ipsec_sa_installed_despite_rewritten_exchange', {'msg': mit['msg'], 'kind': mit['kind']},
                             f'{n} installed {len(idx[n])} IPsec SAs although message {mit["msg"]} was rewritten ({mit["kind"]})')
            if deceived and not any(e['node'] in deceived for e in est):
                reach['failed_as_required'] = reach.get('failed_as_required', 0) + 1
        # ---- credential mismatch: nobody who should reject establishes; the verifier with the wrong credential never does
        if fam == 'cred':
            if len(est) >= 2:
                return V('established_despite_credential_mismatch', {'how': scenario.get('cred')},
                         f'both endpoints established although the configurations mismatch ({scenario.get("cred")})')
            if any(idx[n] for n in idx) and len(est) >= 2:
                return V('ipsec_sa_installed_despite_credential_mismatch', {'how': scenario.get('cred')}, 'SAs installed')
            if len(est) < 2:
                reach['failed_as_required'] = reach.get('failed_as_required', 0) + 1
        # ---- whenever an endpoint is established, the reference recomputation of the PEER's AUTH verifies
        for e in est:
            s = tap.sessions.get((e['spi_i'], e['spi_r']))
            if s is None or s.opaque or s.keys is None:
                continue
            role = 'r' if e['initiator'] else 'i'
            verdict = s.auth.get(role)
            if verdict is None:
                continue
            reach['auth_recomputed'] = reach.get('auth_recomputed', 0) + 1
            if verdict is False and not (mit and mit['msg'] >= 3):
                return V('established_but_reference_auth_fails', {'peer_role': role},
                         f'{e["node"]} established IKE_SA {e["spi_i"].hex()}, but the peer AUTH payload does not verify under the configured credential '
                         f'over the wire octets (RFC 7296 2.15 recomputation)')
        if len(est) >= 2:
            reach['established_both'] = 1
            a, b = est[0], est[1]
            if (a['spi_i'], a['spi_r']) == (b['spi_i'], b['spi_r']) and (a['req'], a['res']) != (b['req'], b['res']):
                return V('endpoints_disagree_on_ike_sa_init', {}, 'both established, but over different IKE_SA_INIT octets')
        if fam == 'plain' and len(est) < 2:
            return V('plain_handshake_failed', {'auth': scenario['meta']['auth']}, f'unmodified exchange with matching credentials did not establish '
                                                                                 f'on both sides ({[(e["node"]) for e in est]})')
    ctx['at_end'] = at_end
    w = execute(scenario, setup, ctx)
    reach = ctx.get('reach', {})
    nontrivial = bool(reach.get('rewrite_delivered')) or (fam == 'cred') or bool(reach.get('auth_recomputed'))
    st = workload.base_stats(w, ctx['cov'], {'reach': reach, 'nontrivial': nontrivial})
    import hashlib
    st['sig'] = hashlib.sha256(repr((fam, (mit or {}).get('msg'), (mit or {}).get('kind'), scenario.get('cred'), scenario['meta']['auth'],
                                     configs.suite_signature(scenario['nodes']['A']['conf']), len(ctx['est']))).encode()).hexdigest()[:16]
    if scenario.get('seed', 0) % 101 == 0 or w.violations:
        st['sample'] = {'seed': scenario.get('seed'), 'meta': scenario.get('meta'), 'mitm': mit, 'cred': scenario.get('cred'),
                        'established': [(e['node'], e['spi_i'].hex()) for e in ctx['est'].values()], 'reach': reach}
    res = {'violations': w.violations, 'stats': st, 'digest': w.hexdigest()}
    if w.violations:
        res['scenario'] = replayable(scenario, w)
    if scenario.get('keep_events'):
        res['trace'] = w.events[-200:] + [f'LOG {l}' for l in w.logs[-60:]]
    return res
