"""C08 - Message-ID window: a request runs at most once, replays come from cache.

PAIR of real daemons, authentic traffic only, delivery faults (drop / k-fold duplication / long delay /
reordering / partition) plus a replayer that re-injects recorded authentic datagrams later.  A reference
model of the size-1 window per (node, IKE_SA), fed from the wire, judges every delivered datagram and every
emitted one."""
import random

from sim import workload
from sim.observe import WireLog, parse_header, local_spi, snap_node, diff_snap, sha, EXCH
from sim.scenario import execute, replayable

PROP = 'C08'
LEVEL = 'exploration'
BUDGET = {'quick': {'runs': 1600, 'wall': 50, 'chunk': 10, 'min_wall': 60},
          'thorough': {'runs': 400000, 'wall': 900, 'chunk': 20, 'min_wall': 120}}
RULE = ('one evaluation = one simulated run of two real daemons (seeded configuration pair, traffic, forced '
        'triggers, delivery faults, replayer); non-trivial = at least one duplicate, stale or replayed authentic '
        'datagram reached an IKE_SA that has a window; distinct = distinct sequence of (event kind, node, exchange, '
        'request/response) over the run')
COMPONENTS = {'real': ['ikesa.py', 'ikesacontroller.py (main_loop on parked threads)', 'message.py', 'crypto.py',
                       'xfrm.py', 'netlink.py', 'configuration.py'],
              'stub': ['clock', 'select', 'UDP/control sockets', 'netlink socket + XFRM kernel model', 'os.urandom',
                       'random', 'DH private scalars', 'getaddrinfo']}
ASSUMPTIONS = ['the XFRM kernel model stands in for Linux', 'roles of rekeyed IKE_SAs are read from the daemon '
               '(their SPIs travel encrypted)', 'sampled schedules, not all schedules']
EXPECT_REACH = ['replay_of_previous_request', 'out_of_window_request', 'stale_response', 'in_window_request',
                'accepted_response']


class Model:
    __slots__ = ('expect_req', 'last_resp', 'outstanding', 'last_sent', 'answered', 'req_exch', 'last_req_sha')

    def __init__(self, expect_req=0):
        self.expect_req = expect_req
        self.last_resp = None
        self.outstanding = None
        self.last_sent = -1
        self.answered = True
        self.req_exch = None
        self.last_req_sha = None


def timers_due(node):
    now = node.clock()
    for sa in node.ike_sas():
        st = sa.state.name
        if st.endswith('_REQ_SENT') and sa.retransmit_at < now:
            return True
        if st == 'ESTABLISHED' and (sa.start_dpd_at < now or sa.rekey_ike_sa_at < now or sa.delete_ike_sa_at < now):
            return True
    return False


class WindowOracle:
    def __init__(self, world, wire):
        self.w = world
        self.wire = wire
        self.models = {}
        self.roles = {}          # (node, my_spi hex) -> is_initiator
        self.cur = None
        self.reach = {}
        self.skipped = 0
        world.monitors.append(self)

    def _r(self, k):
        self.reach[k] = self.reach.get(k, 0) + 1

    def model(self, node, spi, default_expect=0):
        k = (node, spi)
        m = self.models.get(k)
        if m is None:
            m = self.models[k] = Model(default_expect)
        return m

    def viol(self, cls, sig, detail):
        self.w.violation(PROP, cls, sig, detail)
        self.w.poisoned = True

    # ---- hooks -----------------------------------------------------------------------------
    def before_step(self, node, cause):
        if node.state != 'running' or node.exited:
            self.cur = None
            return
        heads = [(s.addr, s.queue[0]) for s in node.udp.values() if s.queue]
        kev = any(s.queue for s in node.kernel.event_socks)
        ctl = bool(node.control and node.control.pending)
        self.cur = {'node': node.name, 'heads': heads, 'snap': snap_node(node, timers=False),
                    'mixed': kev or len(heads) > 1, 'timer': timers_due(node), 'ctl': ctl}

    def after_step(self, node, cause):
        cur, self.cur = self.cur, None
        # remember roles of every IKE_SA we can see (incl. successors not yet in the table)
        for sa in node.ike_sas():
            self.roles[(node.name, sa.my_spi.hex())] = bool(sa.is_initiator)
            nsa = getattr(sa, 'new_ike_sa', None)
            if nsa is not None:
                self.roles[(node.name, nsa.my_spi.hex())] = bool(nsa.is_initiator)
        if cur is None or cur['node'] != node.name:
            return
        emitted = self.wire.emitted_in_step(node.name, self.w.steps)
        post = snap_node(node, timers=False) if node.state == 'running' and not node.exited else None
        for addr, (data, src) in cur['heads']:
            self.judge_delivery(node, cur, data, emitted, post)
            if self.w.poisoned:
                return
        self.judge_emissions(node, cur, emitted)

    # ---- receiver side ---------------------------------------------------------------------
    def judge_delivery(self, node, cur, data, emitted, post):
        if not self.wire.is_authentic(data):
            return
        h = parse_header(data)
        if h is None:
            return
        N = node.name
        same_sa = lambda e: e['h'] is not None and (e['h']['spi_i'], e['h']['spi_r']) == (h['spi_i'], h['spi_r'])
        if h['exch'] == 34 and not h['R']:
            # fresh responder IKE_SA: its window starts after the IKE_SA_INIT exchange
            for e in emitted:
                eh = e['h']
                if eh and eh['R'] and eh['exch'] == 34 and eh['spi_i'] == h['spi_i']:
                    m = self.model(N, eh['spi_r'].hex(), 1)
                    m.expect_req = 1
                    m.last_resp = e['data']
            return
        target = local_spi(h).hex()
        before = next((s for s in cur['snap']['table'] if s['my_spi'] == target), None)
        if before is None:
            return                                   # unknown SPI: C16's business
        if (h['spi_i'].hex(), h['spi_r'].hex()) != ((before['my_spi'], before['peer_spi']) if before['is_initiator']
                                                    else (before['peer_spi'], before['my_spi'])) and h['exch'] != 34:
            return                                   # not this IKE_SA's SPI pair
        if h['I'] == before['is_initiator']:
            return                                   # a node's own datagram reflected back: C03's business
        m = self.model(N, target)
        sig_base = {'exchange': EXCH.get(h['exch'], str(h['exch'])), 'role': 'initiator' if before['is_initiator'] else 'responder',
                    'state': before['state']}
        judge_unchanged = not cur['mixed'] and not cur['timer'] and post is not None
        changed = diff_snap(cur['snap'], post, ignore=('sent',)) if judge_unchanged else []
        if cur['ctl']:
            changed = [c for c in changed if not c.startswith('sent')]
        resp = [e for e in emitted if same_sa(e) and e['h']['R'] and e['h']['id'] == h['id']]
        any_reply = [e for e in emitted if same_sa(e) and e['h']['R']]
        if not h['R']:
            if h['id'] == m.expect_req:
                self._r('in_window_request')
                if len(resp) == 0:
                    # legitimately possible: the receiver cannot verify it (e.g. it answered an older IKE_SA_INIT retry and
                    # holds other keys).  Then it must not have been executed either.
                    self._r('in_window_request_dropped')
                    if changed:
                        return self.viol('request_executed_without_response', sig_base,
                                         f'{N}: request id {h["id"]} got no response but changed: {changed[:6]}')
                    return
                if len(resp) != 1:
                    return self.viol('in_window_request_answered_twice', dict(sig_base, replies=len(resp)),
                                     f'{N}: request id {h["id"]} ({sig_base}) produced {len(resp)} responses')
                m.expect_req += 1
                m.last_resp = resp[0]['data']
            elif h['id'] == m.expect_req - 1:
                self._r('replay_of_previous_request')
                if len(any_reply) != 1 or any_reply[0]['data'] != m.last_resp:
                    return self.viol('replay_not_answered_from_cache', dict(sig_base, replies=len(any_reply)),
                                     f'{N}: copy of request id {h["id"]} answered with {len(any_reply)} datagram(s); '
                                     f'expected the byte-identical stored response '
                                     f'({sha(m.last_resp or b"")} vs {[sha(e["data"]) for e in any_reply]})')
                if changed:
                    return self.viol('replayed_request_changed_state', sig_base,
                                     f'{N}: copy of request id {h["id"]} changed: {changed[:6]}')
            else:
                self._r('out_of_window_request')
                if any_reply:
                    return self.viol('out_of_window_request_answered', dict(sig_base, delta=_delta(h['id'], m.expect_req)),
                                     f'{N}: request id {h["id"]} (expected {m.expect_req}) was answered')
                if changed:
                    return self.viol('out_of_window_request_had_effect', dict(sig_base, delta=_delta(h['id'], m.expect_req)),
                                     f'{N}: request id {h["id"]} (expected {m.expect_req}) changed: {changed[:6]}')
        else:
            if m.outstanding is not None and h['id'] == m.outstanding and not m.answered:
                self._r('accepted_response')
                m.answered = True
                m.outstanding = None
            else:
                if h['exch'] == 34 and before['state'] == 'INIT_REQ_SENT':
                    self._r('duplicate_init_response_while_retrying')
                    return
                self._r('stale_response')
                mine = [e for e in emitted if same_sa(e)]
                if judge_unchanged and mine:
                    return self.viol('stale_response_triggered_send', sig_base,
                                     f'{N}: response id {h["id"]} with no matching outstanding request '
                                     f'(outstanding={m.outstanding}) made the node send {len(mine)} datagram(s)')
                if changed:
                    return self.viol('stale_response_had_effect', sig_base,
                                     f'{N}: response id {h["id"]} with no matching outstanding request changed: {changed[:6]}')
        if not judge_unchanged:
            self.skipped += 1

    # ---- sender side -----------------------------------------------------------------------
    def judge_emissions(self, node, cur, emitted):
        N = node.name
        delivered = [parse_header(d) for _, (d, _) in cur['heads']]
        for e in emitted:
            h = e['h']
            if h is None:
                return self.viol('emitted_short_datagram', {}, f'{N} emitted {len(e["data"])} octets')
            sig = {'exchange': EXCH.get(h['exch'], str(h['exch'])), 'kind': 'response' if h['R'] else 'request'}
            if (h['major'], h['minor']) != (2, 0):
                return self.viol('wrong_version', sig, f'{N} emitted version {h["major"]}.{h["minor"]}')
            if h['exch'] not in EXCH:
                return self.viol('wrong_exchange_type', sig, f'{N} emitted exchange type {h["exch"]}')
            if h['length'] != len(e['data']):
                return self.viol('wrong_length_field', sig, f'{N} emitted length {h["length"]} for {len(e["data"])} octets')
            own = (h['spi_i'] if h['I'] else h['spi_r']).hex()
            other = (h['spi_r'] if h['I'] else h['spi_i']).hex()
            if h['exch'] == 34 and h['R']:
                # the responder IKE_SA may already be gone (refused negotiation): judged from the wire alone
                if h['I'] or not any(d and d['exch'] == 34 and not d['R'] and d['spi_i'] == h['spi_i'] and d['id'] == h['id']
                                     for d in delivered):
                    return self.viol('unsolicited_or_mismatched_response', sig,
                                     f'{N} emitted an IKE_SA_INIT response (I={h["I"]}) matching no request of this step')
                continue
            role = self._role(node, own)
            if role is None:
                role_other = self._role(node, other)
                if role_other is not None:
                    return self.viol('wrong_initiator_flag', dict(sig, role='initiator' if role_other else 'responder'),
                                     f'{N} emitted I={h["I"]} on an IKE_SA where it is '
                                     f'{"initiator" if role_other else "responder"}')
                return self.viol('emitted_unknown_spis', sig, f'{N} emitted SPIs {h["spi_i"].hex()}/{h["spi_r"].hex()} '
                                                               f'that belong to none of its IKE_SAs')
            if role != h['I']:
                return self.viol('wrong_initiator_flag', dict(sig, role='initiator' if role else 'responder'),
                                 f'{N} emitted I={h["I"]} on an IKE_SA where it is {"initiator" if role else "responder"}')
            if h['exch'] == 34 and not h['R'] and any(h['spi_r']):
                # the responder's SPI is not known before its IKE_SA_INIT response has been accepted: every (re)try of the request carries 0
                # (a COOKIE / INVALID_KE_PAYLOAD answer comes from a responder IKE_SA that no longer exists)
                return self.viol('ike_sa_init_request_with_responder_spi', sig, f'{N} emitted an IKE_SA_INIT request whose responder SPI is '
                                                                               f'{h["spi_r"].hex()} instead of 0')
            peer_known = self._peer_spi(node, own)
            if peer_known is not None and peer_known != other and not (h['exch'] == 34 and not h['R']):
                return self.viol('wrong_peer_spi', sig, f'{N} emitted peer SPI {other}, IKE_SA has {peer_known}')
            m = self.model(N, own)
            if h['R']:
                reqs = [d for d in delivered if d and not d['R'] and d['id'] == h['id'] and d['exch'] == h['exch']
                        and d['spi_i'] == h['spi_i'] and (d['spi_r'] == h['spi_r'] or d['exch'] == 34)]
                if not reqs:
                    return self.viol('unsolicited_or_mismatched_response', sig,
                                     f'{N} emitted a response (id {h["id"]}, {sig["exchange"]}) matching no request '
                                     f'delivered in this step: {[(d["id"], d["exch"]) for d in delivered if d]}')
            else:
                if h['id'] == m.last_sent:
                    if h['exch'] == 34:
                        m.outstanding, m.answered = h['id'], False    # COOKIE / INVALID_KE_PAYLOAD retry reuses 0
                    elif m.answered:
                        pass   # retransmission after the answer: C13's clause, not judged here
                elif h['id'] == m.last_sent + 1:
                    if not m.answered:
                        return self.viol('two_requests_outstanding', sig,
                                         f'{N} sent request id {h["id"]} while id {m.last_sent} was unanswered')
                    m.last_sent, m.answered, m.outstanding, m.req_exch = h['id'], False, h['id'], h['exch']
                else:
                    return self.viol('request_id_not_consecutive', dict(sig, delta=_delta(h['id'], m.last_sent + 1)),
                                     f'{N} sent request id {h["id"]} after id {m.last_sent}')
                if h['exch'] == 34 and h['id'] != 0:
                    return self.viol('init_request_id_nonzero', sig, f'{N} sent IKE_SA_INIT with id {h["id"]}')

    def _role(self, node, spi_hex):
        for sa in node.ike_sas():
            if sa.my_spi.hex() == spi_hex:
                return bool(sa.is_initiator)
            nsa = getattr(sa, 'new_ike_sa', None)
            if nsa is not None and nsa.my_spi.hex() == spi_hex:
                return bool(nsa.is_initiator)
        return self.roles.get((node.name, spi_hex))

    def _peer_spi(self, node, spi_hex):
        for sa in node.ike_sas():
            if sa.my_spi.hex() == spi_hex:
                return sa.peer_spi.hex()
        return None


def _delta(got, expected):
    d = got - expected
    return 'past' if d < 0 else ('future' if d > 0 else 'equal')


# ---------------------------------------------------------------------------------------------------

def generate(seed, tier):
    r = random.Random(f'C08gen:{seed}')
    o = {'conf': {'profile': 'fast', 'entries': 2}, 'fault_pool': ('drop', 'dup', 'delay', 'reorder'),
         'forced': 4, 'partition': 0.15, 'stall': 0.1, 'duration': r.choice([20, 40, 80]),
         'packets': r.randint(1, 4), 'quiet_tail': 0}
    if r.random() < 0.5:
        o['faults'] = ['dup'] + [k for k in ('drop', 'delay', 'reorder') if r.random() < 0.4]
    sc = workload.pair_scenario(seed, PROP, o)
    if r.random() < 0.25:
        # one endpoint always demands a cookie: IKE_SA_INIT goes through the COOKIE retry (Message ID 0 again), whose answers are duplicated,
        # delayed and re-ordered like everything else
        sc['controller_attrs'] = {r.choice('AB'): {'cookie_threshold': 0}}
        sc['meta']['cookie_mode'] = True
    T = sc['until']
    for _ in range(r.randint(0, 6)):
        sc['ops'].append({'t': round(r.uniform(1.5, T), 3), 'op': 'call', 'name': 'replay', 'pick': r.randrange(10 ** 6),
                          'recent': r.random() < 0.6})
    sc['ops'].sort(key=lambda x: x['t'])
    return sc


def run(scenario):
    ctx = {}

    def setup(w, ctx):
        wire = ctx['wire'] = WireLog(w)
        ctx['cov'] = workload.Coverage(w)
        ctx['oracle'] = WindowOracle(w, wire)
        from sim.wiretap import Wiretap
        ctx['tap'] = Wiretap(w, check_reencode=False)

        class SendWindow:
            """'A response is accepted only for the single outstanding request': while an IKE_SA waits for a response, the Message ID it will
            accept is the one of the request it has on the wire (a response that was looked at and put aside must leave the window where it was)."""
            def after_step(self, node, cause):
                if w.poisoned or node.state != 'running' or node.exited:
                    return
                for sa in node.ike_sas():
                    if not sa.state.name.endswith('_REQ_SENT'):
                        continue
                    last = next((x for x in reversed(wire.by_sender.get(node.name, [])[-60:]) if x['h'] is not None and not x['h']['R']
                                 and (x['h']['spi_i'] if x['h']['I'] else x['h']['spi_r']) == sa.my_spi), None)
                    if last is None:
                        continue
                    ctx['oracle']._r('send_window_judged')
                    if last['h']['id'] != sa.my_msg_id:
                        return ctx['oracle'].viol('send_window_out_of_step', {'state': sa.state.name},
                                                  f'{node.name}: IKE_SA {sa.my_spi.hex()} is in {sa.state.name} with request id {last["h"]["id"]} on the wire, '
                                                  f'but the only response it would accept now is id {sa.my_msg_id}')
        w.monitors.append(SendWindow())

        def at_end(w, ctx):
            # roles of IKE_SAs created by rekey, judged from the wire and not from what the daemons believe: the endpoint that sent the rekey
            # request is the initiator of the new IKE_SA (RFC 7296 2.18), its SPI comes first and its messages carry the INITIATOR flag
            tap, orc = ctx['tap'], ctx['oracle']
            for e in wire.sent:
                h = e['h']
                if h is None or h['exch'] == 34 or e['sender'] not in w.nodes or w.poisoned:
                    continue
                s = tap.sessions.get((h['spi_i'], h['spi_r']))
                if s is not None and not s.opaque and s.parent is not None and s.initiator is not None:
                    orc._r('rekeyed_ike_sa_headers_judged')
                    if (e['sender'] == s.initiator) != bool(h['I']):
                        return orc.viol('wrong_initiator_flag', {'exchange': EXCH.get(h['exch'], str(h['exch'])), 'kind': 'response' if h['R'] else 'request',
                                                                 'role': 'rekeyed'},
                                        f'{e["sender"]} emitted I={h["I"]} on the IKE_SA {h["spi_i"].hex()} created by a rekey that '
                                        f'{s.initiator} initiated')
                sw = tap.sessions.get((h['spi_r'], h['spi_i']))
                if (s is None or s.opaque) and sw is not None and sw.parent is not None and not sw.opaque:
                    return orc.viol('spis_swapped_on_rekeyed_ike_sa', {'exchange': EXCH.get(h['exch'], str(h['exch']))},
                                    f'{e["sender"]} emitted SPIs {h["spi_i"].hex()}/{h["spi_r"].hex()}: the IKE_SA created by the rekey that '
                                    f'{sw.initiator} initiated has them the other way round (the rekey initiator\'s SPI comes first)')
        ctx['at_end'] = at_end

        def replay(w, op):
            lst = wire.sent
            if not lst:
                return
            if op.get('recent'):
                lst = lst[-6:]
            rec = lst[op['pick'] % len(lst)]
            w.net.inject(rec['data'], rec['src'], rec['dst'], 0.0, 'replay')
        ctx['handlers'] = {'replay': replay}
    w = execute(scenario, setup, ctx)
    orc = ctx['oracle']
    reach = dict(orc.reach)
    reach.update({'pair:' + k: v for k, v in ctx['cov'].pairs.items()})
    nontrivial = any(reach.get(k) for k in ('replay_of_previous_request', 'out_of_window_request', 'stale_response'))
    st = workload.base_stats(w, ctx['cov'], {'reach': reach, 'nontrivial': bool(nontrivial)})
    st['reach']['skipped_timer_or_mixed_step'] = orc.skipped
    st['foreign'] = {}
    for n in w.nodes.values():
        if n.death:
            st['foreign']['C17:daemon_died'] = st['foreign'].get('C17:daemon_died', 0) + 1
    if scenario.get('seed', 0) % 97 == 0 or w.violations:
        st['sample'] = {'seed': scenario.get('seed'), 'meta': scenario.get('meta'),
                        'ops': scenario['ops'][:12], 'fates_applied': dict(list(w.decisions.applied.items())[:8]),
                        'reach': orc.reach}
    res = {'violations': w.violations, 'stats': st, 'digest': w.hexdigest()}
    if w.violations:
        res['scenario'] = replayable(scenario, w)
    if scenario.get('keep_events'):
        res['trace'] = w.events[-400:] + [f'LOG {l}' for l in w.logs[-80:]]
    return res
