"""C20 - secrets appear in the log only in verbose (debug) mode.

A monitor over histories of the kinds explored for the other properties (ordinary negotiations and rekeys, collisions,
loss, authentication failures from mismatching credentials, hostile datagrams, kernel refusals, internal-error paths).
The root logger is configured as pyikev2.py configures it without -v (INFO).  The secret set is assembled OUTSIDE the
daemon: PSKs and the RSA private key from the configuration, DH scalars and every g^xy from the DH seam, SKEYSEED / SK_* of
every IKE_SA generation and every CHILD_SA KEYMAT slice from the wiretap's own key schedule, key bytes seen in NEWSA."""
import copy
import logging
import os
import random
import re

from sim import workload, hostile, configs, seams, refike as R
from sim.kernel import K
from sim.observe import WireLog
from sim.scenario import execute, replayable
from sim.wiretap import Wiretap

PROP = 'C20'
LEVEL = 'exploration'
BUDGET = {'quick': {'runs': 800, 'wall': 52, 'chunk': 8, 'min_wall': 60},
          'thorough': {'runs': 300000, 'wall': 1200, 'chunk': 16, 'min_wall': 150}}
RULE = ('one evaluation = one simulated run with the log captured; non-trivial = at least 40 records at level >= INFO were searched '
        'for at least 20 secrets; distinct = distinct (scenario flavour, auth method, set of log message templates seen)')
COMPONENTS = {'real': ['every log_* call site in ikesa.py / ikesacontroller.py / message.py / xfrm.py', 'pyikev2.py (entry-point probe: '
                       'argument parsing, logging.basicConfig level)'],
              'stub': ['capturing log handler', 'wiretap (source of the derived secrets)', 'DH seam (scalars, shared secrets)']}
ASSUMPTIONS = ['secrets shorter than 8 octets are not searched', 'a match is raw octets (latin-1), lower / upper hex or repr() of the secret '
               'inside the formatted record or inside a traceback printed by the generic-exception paths']
EXPECT_REACH = ['records_searched', 'secrets_searched', 'flavour.plain', 'flavour.authfail', 'flavour.hostile', 'flavour.kerr',
                'debug_run_finds_secrets', 'entrypoint_default_is_info', 'entrypoint_verbose_is_debug', 'auth_failures_logged',
                'internal_error_paths']


def generate(seed, tier):
    r = random.Random(f'C20gen:{seed}')
    flavour = r.choice(['plain', 'plain', 'authfail', 'hostile', 'kerr', 'kodd', 'debug', 'mismatch', 'byzpeer'])
    o = {'conf': {'profile': 'fast', 'entries': 2}, 'both_initiate': r.random() < 0.4, 'packets': r.randint(1, 4),
         'duration': r.choice([20, 40]), 'forced': 3, 'faults': [k for k in ('drop', 'dup', 'corrupt') if r.random() < 0.3]}
    sc = workload.pair_scenario(seed, PROP, o)
    sc['meta']['flavour'] = flavour
    T = sc['until']
    if flavour == 'authfail':
        cb = sc['nodes']['B']['conf']['to-a']
        how = r.choice(['psk', 'id', 'method'])
        if how == 'psk' and 'psk' in cb['peer_auth']:
            cb['peer_auth']['psk'] = 'wrong-' + cb['peer_auth']['psk']
        elif how == 'id':
            cb['peer_auth']['id'] = 'mallory.example.org'
        else:
            cb['peer_auth'] = {'id': cb['peer_auth'].get('id', 'x.example.org'), 'psk': 'some-other-secret-123'}
    elif flavour == 'hostile':
        for _ in range(r.randint(3, 10)):
            sc['ops'].append(hostile.random_op(r, round(r.uniform(0.5, T), 3), r.choice('AB')))
    elif flavour == 'kerr':
        for _ in range(r.randint(2, 6)):
            sc['ops'].append({'t': round(r.uniform(0.95, T), 3), 'op': 'kerr', 'node': r.choice('AB'), 'nth': r.randint(1, 4),
                              'errno': r.choice(['ENOMEM', 'EINVAL', 'EEXIST'])})
    elif flavour == 'kodd':
        # kernel events the daemon did not ask for: ACQUIREs of foreign policies or unknown peers, EXPIREs of unknown SPIs, truncated or
        # unknown messages - every one of them ends on a failure path that logs something
        for _ in range(r.randint(2, 6)):
            sc['ops'].append({'t': round(r.uniform(0.6, T), 3), 'op': 'call', 'name': 'kodd', 'node': r.choice('AB'),
                              'kind': r.choice(['unknown_type', 'truncated', 'acquire_unknown_peer', 'acquire_unknown_index', 'acquire_unknown_index',
                                                'expire_unknown_spi', 'zeros', 'done']), 'seed': r.randrange(2 ** 31)})
    elif flavour == 'mismatch':
        # the two administrators did not agree on everything: negotiations that end in TS_UNACCEPTABLE, NO_PROPOSAL_CHOSEN or a mode refusal
        # (failure paths that log the refusal), on IKE_AUTH and on CREATE_CHILD_SA
        ca, cb = sc['nodes']['A']['conf']['to-b'], sc['nodes']['B']['conf']['to-a']
        side = cb if r.random() < 0.7 else ca          # whose entries drift away (the other side's traffic was generated for its own entries)
        other = ca if side is cb else cb
        for i, pe in enumerate(side['protect']):
            if r.random() < 0.3 and i > 0:
                continue
            how = r.choice(['selectors', 'selectors', 'mode', 'child_suite', 'proto'])
            po = other['protect'][i] if i < len(other['protect']) else {}
            if how == 'selectors':
                if 'my_subnet' in pe:
                    pe['my_subnet'] = '192.0.2.0/24' if ':' not in pe['my_subnet'] else '2001:db8:77::/48'
                elif po.get('ip_proto', 'any') != 'any':
                    pe['ip_proto'] = 'udp' if po['ip_proto'] == 'tcp' else 'tcp'
                else:
                    how = 'mode'
            if how == 'mode':
                pe['mode'] = 'tunnel' if pe.get('mode', 'tunnel') == 'transport' else 'transport'
            elif how == 'child_suite':
                pe['integ'] = ['sha512'] if po.get('integ', ['sha1']) != ['sha512'] else ['sha1']
            elif how == 'proto':
                pe['ipsec_proto'] = 'ah' if pe.get('ipsec_proto', 'esp') == 'esp' else 'esp'
                if pe['ipsec_proto'] == 'esp':
                    pe.setdefault('encr', ['aes256'])
                else:
                    pe.pop('encr', None)
    elif flavour == 'byzpeer':
        # a peer that misbehaves inside the protocol (sim/byz.py): answers naming groups, proposals, selectors or modes that were never
        # offered, malformed authentic messages - the rarer refusal paths, each of which logs why it refuses
        sc['byz'] = {'kind': r.choice(['invalid_ke_never_offered', 'invalid_ke_never_offered', 'foreign_child_response', 'foreign_init_response',
                                       'foreign_ike_rekey_response', 'widen_response', 'flip_mode_response', 'narrow_rekey_response', 'auth_malformed',
                                       'bad_reply', 'multi_proposal_request', 'ts_list_request', 'range_request', 'reuse_spi_request']),
                     'seed': r.randrange(2 ** 31)}
        sc['meta']['byz'] = sc['byz']['kind']
    elif flavour == 'debug':
        sc['debug_log'] = True
    sc['ops'].sort(key=lambda x: x['t'])
    return sc


def secret_forms(value):
    b = bytes(value)
    out = {b.decode('latin-1'), b.hex(), b.hex().upper()}
    rp = repr(b)[2:-1]
    if len(rp) >= 8:
        out.add(rp)
    return out


def gather_secrets(w, tap, scenario):
    sec = []
    for name, nd in scenario['nodes'].items():
        for conn in nd['conf'].values():
            for side in ('my_auth', 'peer_auth'):
                a = conn[side]
                if 'psk' in a and len(a['psk']) >= 8:
                    sec.append((f'{name}.{side}.psk', a['psk'].encode()))
                if 'privkey' in a:
                    body = [l for l in a['privkey'].splitlines() if l and not l.startswith('-----')]
                    for l in body[1:4]:
                        sec.append((f'{name}.privkey.line', l.encode()))
    sec += tap.secrets
    for pub, (kind, size, x) in list(seams.DH_SCALARS.items()):
        sec.append(('dh.scalar', x.to_bytes((x.bit_length() + 7) // 8, 'big')))
    for n in w.nodes.values():
        for r in n.kernel.requests:
            d = r.get('decoded')
            if d and d.get('kind') == 'newsa':
                for code in (K['XFRMA_ALG_AUTH'], K['XFRMA_ALG_CRYPT']):
                    a = d['attrs'].get(code)
                    if isinstance(a, dict) and len(a['key']) >= 8:
                        sec.append(('kernel.key', a['key']))
    uniq = {}
    for label, v in sec:
        if len(v) >= 8:
            uniq.setdefault(bytes(v), label)
    return uniq


def entrypoint_probe(reach):
    """Run /repo/pyikev2.py itself (argument parsing, logging.basicConfig) with and without -v and look at the level it sets."""
    import runpy
    import sys
    import tempfile
    from sim.world import World, Shutdown
    M = seams.M
    sc = {'nodes': {'E': {'addrs': ['10.0.0.1'], 'conf': {}}}, 'sys_seed': 1}
    results = {}
    for verbose in (False, True):
        w = World(sc)
        node = w.nodes['E']
        node.incarnation = 1
        node.rnd = random.Random(1)
        node.state = 'running'
        seams.CUR.node = node
        root = logging.getLogger()
        saved_handlers, saved_level = list(root.handlers), root.level
        for h in saved_handlers:
            root.removeHandler(h)
        root.setLevel(logging.WARNING)

        def stop_select(*a, **k):
            raise Shutdown()
        M['ikesacontroller'].select = stop_select
        d = tempfile.mkdtemp(prefix='c20ep')
        path = os.path.join(d, 'conf.yaml')
        with open(path, 'w') as f:
            f.write('c:\n  my_addr: 10.0.0.1\n  peer_addr: 10.0.0.2\n  my_auth: {id: a.example.org, psk: entrypointsecret}\n'
                    '  peer_auth: {id: b.example.org, psk: entrypointsecret}\n  protect:\n    - {index: 1, mode: transport}\n')
        argv = sys.argv
        sys.argv = ['pyikev2.py', '-i', '10.0.0.1', '-c', path] + (['-v'] if verbose else [])
        import signal
        old_sig = signal.getsignal(signal.SIGINT)
        import contextlib
        import io
        try:
            with contextlib.redirect_stderr(io.StringIO()), contextlib.redirect_stdout(io.StringIO()):
                runpy.run_path(os.path.join(seams.REPO, 'pyikev2.py'), run_name='__main__')
        except Shutdown:
            pass
        except SystemExit:
            pass
        finally:
            results[verbose] = root.level
            logging.indent = None            # pyikev2.py sets it; later runs in this process must not inherit it
            sys.argv = argv
            try:
                signal.signal(signal.SIGINT, old_sig)
            except (ValueError, TypeError):
                pass
            for h in list(root.handlers):
                root.removeHandler(h)
            for h in saved_handlers:
                root.addHandler(h)
            root.setLevel(saved_level)
            seams.CUR.node = None
            w.finish()
            try:
                os.remove(path)
                os.rmdir(d)
            except OSError:
                pass
    if results.get(False) == logging.INFO:
        reach['entrypoint_default_is_info'] = 1
    if results.get(True) == logging.DEBUG:
        reach['entrypoint_verbose_is_debug'] = 1
    return results


def run(scenario):
    ctx = {}

    def setup(w, ctx):
        ctx['wire'] = WireLog(w)
        ctx['cov'] = workload.Coverage(w)
        ctx['tap'] = Wiretap(w, check_reencode=False)

        def do_hostile(w, op):
            node = w.nodes[op['node']]
            if node.state != 'running':
                return
            meta = w.scenario['meta']
            dst = str(node.addrs[0])
            peer = meta['a_addr'] if op['node'] == 'B' else meta['b_addr']
            data, src = hostile.make(op, ctx['wire'], dst, peer, meta['family'])
            w.net.inject(data, src, dst, 0.0, 'forge.' + op['kind'])
        if scenario.get('byz'):
            from sim import byz
            from sim.interpose import Interposer
            ip = ctx['ip'] = Interposer(w, ctx['tap'])
            ctx['byz_reach'] = {}
            rule, _ = byz.make(scenario['byz']['kind'], scenario['byz']['seed'], w, ip, ctx['tap'], ctx['byz_reach'])
            ip.rules.append(rule)
        from checks.c17 import _handlers
        ctx['reach'] = {}
        ctx['handlers'] = {'hostile': do_hostile, 'kodd': _handlers(ctx)['kodd']}
    w = execute(scenario, setup, ctx)
    tap = ctx['tap']
    flavour = scenario['meta'].get('flavour')
    reach = {'flavour.' + str(flavour): 1}
    reach.update(ctx.get('byz_reach', {}))
    secrets = gather_secrets(w, tap, scenario)
    debug = bool(scenario.get('debug_log'))
    texts = [(t, n, lvl, msg) for (t, n, lvl, msg) in w.logs if lvl >= logging.INFO]
    texts += [(t, n, logging.ERROR, text + '\n' + tb) for (t, n, text, where, tb) in w.internal_errors]
    reach['records_searched'] = len(texts)
    reach['secrets_searched'] = len(secrets)
    reach['internal_error_paths'] = len(w.internal_errors)
    reach['auth_failures_logged'] = sum(1 for x in texts if 'authentication failed' in x[3].lower() or 'AUTHENTICATION_FAILED' in x[3])
    forms = []
    for v, label in secrets.items():
        for f in secret_forms(v):
            forms.append((f, label))
    templates = set()
    hit = None
    for (t, n, lvl, msg) in texts:
        templates.add(re.sub(r'[0-9a-f]{8,}|\d+', '#', msg)[:60])
        for f, label in forms:
            if f in msg:
                hit = (t, n, lvl, label, msg)
                break
        if hit:
            break
    violations = list(w.violations)
    if debug:
        # reach probe: at DEBUG the very same matcher must find the secrets (the matcher works, the secret set is the right one)
        dbg = [m for (t, n, lvl, m) in w.logs if lvl < logging.INFO]
        found = sum(1 for f, label in forms[:400] if any(f in m for m in dbg[:3000]))
        if found:
            reach['debug_run_finds_secrets'] = found
        hit_info = hit
    if hit:
        t, n, lvl, label, msg = hit
        tmpl = re.sub(r'[0-9a-f]{8,}|\d+', '#', msg)[:50]
        violations.append({'property': PROP, 'class': 'secret_in_log_at_default_level', 'signature': {'secret': label.split('.')[0] + '.' + label.split('.')[-1],
                                                                                                     'level': logging.getLevelName(lvl)},
                           'detail': f'{n} at t={t:.2f} logged at {logging.getLevelName(lvl)} a record containing the {label}: {msg[:300]!r}',
                           't': t, 'step': 0})
    if scenario.get('seed', 0) % 40 == 0:
        try:
            entrypoint_probe(reach)
        except Exception as ex:          # the probe is a reach probe, not an oracle: a failure is reported as a gap
            reach['entrypoint_probe_error'] = 1
            reach['entrypoint_probe_error.' + type(ex).__name__] = 1
        else:
            if not reach.get('entrypoint_default_is_info'):
                violations.append({'property': PROP, 'class': 'default_log_level_not_info', 'signature': {},
                                   'detail': 'pyikev2.py without -v did not configure the root logger at INFO', 't': 0, 'step': 0})
    st = workload.base_stats(w, ctx['cov'], {'reach': reach, 'nontrivial': len(texts) >= 40 and len(secrets) >= 20})
    import hashlib
    st['sig'] = hashlib.sha256(repr((flavour, scenario['meta'].get('auth'), sorted(templates))).encode()).hexdigest()[:16]
    if scenario.get('seed', 0) % 73 == 0 or violations:
        st['sample'] = {'seed': scenario.get('seed'), 'meta': scenario.get('meta'), 'records': len(texts), 'secrets': len(secrets),
                        'secret_kinds': sorted({l for l in secrets.values()})[:30], 'templates': sorted(templates)[:12]}
    res = {'violations': violations, 'stats': st, 'digest': w.hexdigest()}
    if violations:
        res['scenario'] = replayable(scenario, w)
    if scenario.get('keep_events'):
        res['trace'] = [f'LOG {l}' for l in w.logs[-60:]]
    return res
