"""C18 - under load, no responder state or DH work without a valid cookie.

D (node B, cookie_threshold lowered to 0..3 so the regime is reached quickly) is flooded with IKE_SA_INIT requests by a
reference flooder living at two further configured peer addresses (it can read D's answers there), while the honest real
daemon P (node A) initiates under that pressure.  Every flood datagram is delivered in isolation; replies are decoded with
the independent reference codec; DH key generations on D are counted at the DH seam."""
import copy
import random
import struct

from sim import workload, configs, refike as R
from sim.monitors import data_plane_probe
from sim.observe import WireLog, parse_header, snap_node, diff_snap
from sim.scenario import execute, replayable
from checks.c08 import timers_due

PROP = 'C18'
LEVEL = 'exploration'
BUDGET = {'quick': {'runs': 900, 'wall': 52, 'chunk': 6, 'min_wall': 60},
          'thorough': {'runs': 200000, 'wall': 1200, 'chunk': 12, 'min_wall': 150}}
RULE = ('one evaluation = one simulated run: scripted cookie probes (absent / correct / corrupted / replayed with other SPI, nonce, '
        'address / several cookies) around a seeded threshold plus an honest initiation under pressure; non-trivial = the cookie regime '
        'was reached and at least 6 probe datagrams were judged; distinct = distinct (threshold, suite, probe outcome vector)')
COMPONENTS = {'real': ['ikesacontroller.dispatch_message (half-open count, threshold)', 'ikesa._process_ike_sa_negotiation_request (cookie check)',
                       'ikesa.process_ike_sa_init_response (initiator retry)', 'message.py', 'crypto.py'],
              'stub': ['flooder (reference encoder at configured peer addresses)', 'DH seam counter', 'clock', 'sockets', 'kernel model']}
ASSUMPTIONS = ['cookie_threshold is lowered through the controller attribute the repository test-suite itself sets',
               'the secret is unknown to the harness: binding is tested by equality / inequality of cookies across requests']
EXPECT_REACH = ['regime_reached', 'probe.no_cookie', 'probe.same_again', 'probe.other_spi', 'probe.other_nonce', 'probe.other_addr',
                'probe.corrupted', 'probe.no_cookie_ke_mismatch', 'probe.no_cookie_bad_proposal', 'probe.replay_other_spi', 'probe.replay_other_nonce', 'probe.replay_other_addr', 'probe.correct',
                'probe.below_threshold', 'honest_retry_checked', 'honest_retry_retransmission_checked', 'secret_rotated_after_challenge', 'honest_established']


def build_init(conn, spi_i, nonce, ke_x, cookies=(), cookie_pos=0, group=None, odd=None):
    """An IKE_SA_INIT request acceptable to the daemon whose connection (independent reading) is `conn`.
    odd='ke_mismatch': the daemon's preferred group is offered too but the KE payload is in another one (it would answer
    INVALID_KE_PAYLOAD); odd='bad_proposal': nothing acceptable is offered (it would answer NO_PROPOSAL_CHOSEN)."""
    ike = conn['ike']
    g = group or ike['dh'][0]
    trs = [{'type': 1, 'id': ike['encr'][0][0], 'keylen': ike['encr'][0][1]}, {'type': 3, 'id': ike['integ'][0]},
           {'type': 2, 'id': ike['prf'][0]}, {'type': 4, 'id': g}]
    if odd == 'ke_mismatch':
        g = next(x for x in (19, 14, 20, 15) if x != ike['dh'][0])
        trs.append({'type': 4, 'id': g})
    elif odd == 'bad_proposal':
        trs[0] = {'type': 1, 'id': 3, 'keylen': None}      # 3DES only
    pls = [{'type': R.P_SA, 'proposals': [{'num': 1, 'proto': 1, 'spi': b'', 'transforms': trs}]},
           {'type': R.P_NONCE, 'data': nonce}, {'type': R.P_KE, 'group': g, 'data': R.dh_public(g, ke_x)}]
    for i, c in enumerate(cookies):
        pls.insert(cookie_pos + i, {'type': R.P_NOTIFY, 'proto': 0, 'ntype': R.N_COOKIE, 'spi': b'', 'data': c})
    return R.encode({'spi_i': spi_i, 'spi_r': b'\0' * 8, 'exch': 34, 'I': True, 'R': False, 'id': 0}, pls)


class CookieProber:
    def __init__(self, world, wire):
        self.w, self.wire = world, wire
        self.reach = {}
        self.judged = 0
        self.vector = []

    def _r(self, k, n=1):
        self.reach[k] = self.reach.get(k, 0) + n

    def viol(self, cls, sig, detail):
        self.w.violation(PROP, cls, sig, detail)
        self.w.poisoned = True
        return None

    def half_open(self, node):
        return sum(1 for sa in node.ike_sas() if int(sa.state) < 10)

    def fire(self, node, data, src, dst):
        """Deliver one datagram in isolation; returns (replies to src, dh calls, table diff) or None if not possible now."""
        if node.state != 'running' or node.exited or node.stalled_until > self.w.now or node.has_readable() or \
                any(s.queue for s in node.kernel.event_socks):
            return None
        sock = node.udp.get(dst)
        if sock is None:
            return None
        if timers_due(node):
            self.w.release(node, ('tick',))          # let due timers fire first, so the step below shows the datagram's effect only
            if timers_due(node) or node.has_readable() or node.state != 'running':
                return None
        pre = snap_node(node, timers=False)
        dh0 = node.dh_calls
        n0 = len(self.wire.by_sender.get(node.name, []))
        sock.queue.append((data, (src, 500)))
        self.w.net._count('adv.flood')
        self.w.record(('flood', src, len(data)))
        self.w.release(node, ('flood',))
        if node.state != 'running' or node.exited:
            self.viol('daemon_died', {}, f'{node.name} died on a flood datagram: {node.death}')
            return None
        post = snap_node(node, timers=False)
        replies = [e for e in self.wire.by_sender.get(node.name, [])[n0:] if e['dst'] == src]
        return replies, node.dh_calls - dh0, diff_snap(pre, post, ignore=('sent',)), pre, post

    @staticmethod
    def cookie_of(reply):
        """The COOKIE value if the reply is *nothing but* a COOKIE notification, else None."""
        try:
            h, pls = R.decode(reply['data'])
        except R.DecodeError:
            return None
        if h['exch'] != 34 or not h['R'] or len(pls) != 1 or pls[0]['type'] != R.P_NOTIFY or pls[0]['ntype'] != R.N_COOKIE:
            return None
        return pls[0]['data']

    @staticmethod
    def is_normal(reply):
        try:
            h, pls = R.decode(reply['data'])
        except R.DecodeError:
            return False
        types = [p['type'] for p in pls]
        return h['exch'] == 34 and h['R'] and R.P_SA in types and R.P_KE in types and R.P_NONCE in types

    def probe(self, w, op):
        node = w.nodes['B']
        if node.state != 'running' or node.controller is None:
            return
        rr = random.Random(f'c18:{op["seed"]}')
        meta = w.scenario['meta']
        dst = meta['b_addr']
        conf = configs.read_conf(w.scenario['nodes']['B']['conf'])
        q, r_addr = meta['q_addr'], meta['r_addr']
        import ipaddress
        conn_q = conf[(ipaddress.ip_address(dst), ipaddress.ip_address(q))]
        conn_r = conf[(ipaddress.ip_address(dst), ipaddress.ip_address(r_addr))]
        thr = node.controller.cookie_threshold
        rb = lambda n: bytes(rr.getrandbits(8) for _ in range(n))
        x = rr.getrandbits(180) + 2

        def expect_required():
            return self.half_open(node) + 1 > thr

        # ---- below the threshold a request without a cookie is served normally (and each one adds a half-open IKE_SA)
        guard = 0
        # (the table is filled either by many initiators or by one and the same request delivered again and again: every copy leaves a
        #  half-open IKE_SA behind, so copies count like initiators)
        same = build_init(conn_q, rb(8), rb(32), x) if rr.random() < 0.4 else None
        if same is not None:
            self._r('fill.same_request_repeated')
        while not expect_required() and guard < 8:
            guard += 1
            res = self.fire(node, same if same is not None else build_init(conn_q, rb(8), rb(32), x), q, dst)
            if res is None:
                return
            replies, dh, ch, pre, post = res
            self._r('probe.below_threshold')
            self.judged += 1
            if len(replies) != 1 or not self.is_normal(replies[0]):
                return self.viol('cookie_demanded_below_threshold', {'threshold': thr},
                                 f'half-open {self.half_open(node)} (threshold {thr}): a cookie-less IKE_SA_INIT request got '
                                 f'{[self._kind(e) for e in replies]}')
        if not expect_required():
            return
        self._r('regime_reached')
        spi, nonce = rb(8), rb(rr.choice([16, 32, 64]))
        req0 = build_init(conn_q, spi, nonce, x)

        def rejected(tag, data, src, must_be=None, must_differ=None):
            res = self.fire(node, data, src, dst)
            if res is None:
                return 'skip'
            replies, dh, ch, pre, post = res
            self._r('probe.' + tag)
            self.judged += 1
            sig = {'probe': tag, 'threshold': thr}
            if dh:
                return self.viol('dh_computed_without_valid_cookie', sig, f'{tag}: {dh} Diffie-Hellman key generation(s) on D for a request '
                                                                          f'without the correct cookie')
            if ch:
                return self.viol('state_left_without_valid_cookie', sig, f'{tag}: request without the correct cookie changed {ch[:4]}')
            if len(replies) != 1:
                return self.viol('cookie_reply_count', dict(sig, replies=len(replies)), f'{tag}: {len(replies)} datagrams sent back')
            c = self.cookie_of(replies[0])
            if c is None:
                return self.viol('reply_is_not_cookie_only', sig, f'{tag}: reply is {self._kind(replies[0])}, expected nothing but N(COOKIE)')
            if must_be is not None and c != must_be:
                return self.viol('cookie_not_deterministic', sig, f'{tag}: same SPIi / nonce / address gave cookie {c.hex()} then {must_be.hex()}')
            if must_differ is not None and c == must_differ:
                return self.viol('cookie_not_bound', sig, f'{tag}: cookie unchanged ({c.hex()}) although the request differs in {tag}')
            self.vector.append(tag)
            return c
        c1 = rejected('no_cookie', req0, q)
        if c1 in (None, 'skip'):
            return
        if rejected('same_again', req0, q, must_be=c1) in (None,):
            return
        spi2, nonce2 = rb(8), rb(len(nonce))
        for tag, data, src in (('other_spi', build_init(conn_q, spi2, nonce, x), q),
                               ('other_nonce', build_init(conn_q, spi, nonce2, x), q),
                               ('nonce_zero_extended', build_init(conn_q, spi, nonce + b'\0' * rr.choice([1, 4, 16]), x), q),
                               ('other_addr', build_init(conn_r, spi, nonce, x), r_addr)):
            if rejected(tag, data, src, must_differ=c1) is None:
                return
        # the source address of an IKE_SA_INIT request proves nothing: a request that claims the address of a peer the responder has an
        # established IKE_SA with is challenged like any other
        a_addr = meta['a_addr']
        conn_a = conf.get((ipaddress.ip_address(dst), ipaddress.ip_address(a_addr)))
        if conn_a is not None and not w.scenario.get('rotate_secret'):     # (the rotate batch renews the secret at the first COOKIE sent towards A)
            if any(str(sa.peer_addr) == a_addr and 10 <= int(sa.state) < 20 for sa in node.ike_sas()):
                self._r('probe_from_address_of_established_peer')
            if rejected('known_peer_addr', build_init(conn_a, rb(8), rb(32), x), a_addr) is None:
                return
        bad = bytearray(c1)
        bad[rr.randrange(len(bad))] ^= 1 << rr.randrange(8)
        # a request the daemon would otherwise answer INVALID_KE_PAYLOAD / NO_PROPOSAL_CHOSEN: without the right cookie it must not even look
        for tag, data, src in (('no_cookie_ke_mismatch', build_init(conn_q, rb(8), nonce, x, odd='ke_mismatch'), q),
                               ('no_cookie_bad_proposal', build_init(conn_q, rb(8), nonce, x, odd='bad_proposal'), q),
                               ('corrupted_ke_mismatch', build_init(conn_q, spi, nonce, x, [bytes(bad)], odd='ke_mismatch'), q)):
            if rejected(tag, data, src) is None:
                return
        for tag, data, src in (('corrupted', build_init(conn_q, spi, nonce, x, [bytes(bad)]), q),
                               ('truncated_cookie', build_init(conn_q, spi, nonce, x, [c1[:-1]]), q),
                               ('replay_other_spi', build_init(conn_q, spi2, nonce, x, [c1]), q),
                               ('replay_other_nonce', build_init(conn_q, spi, nonce2, x, [c1]), q),
                               ('replay_other_addr', build_init(conn_r, spi, nonce, x, [c1]), r_addr),
                               ('two_wrong_cookies', build_init(conn_q, spi, nonce, x, [bytes(bad), rb(len(c1))]), q)):
            if rejected(tag, data, src) is None:
                return
        # several cookies of which one is right / cookie after the SA payload: either outcome is defensible; judged only for
        # "no DH and no state unless accepted"
        for tag, data in (('wrong_then_correct', build_init(conn_q, spi, nonce, x, [bytes(bad), c1])),
                          ('cookie_after_sa', build_init(conn_q, rb(8), nonce, x, [], 0))):
            pass
        # ---- the correct cookie, returned unchanged with the same SPI, nonce and address, is accepted
        res = self.fire(node, build_init(conn_q, spi, nonce, x, [c1]), q, dst)
        if res is None:
            return
        replies, dh, ch, pre, post = res
        self._r('probe.correct')
        self.judged += 1
        if len(replies) != 1 or not self.is_normal(replies[0]):
            return self.viol('correct_cookie_rejected', {'threshold': thr}, f'request carrying the cookie just issued for it got '
                                                                            f'{[self._kind(e) for e in replies]}')
        self.vector.append('accepted')
        # ... and that was the cookie's doing, not the SPI's or the address's: once the exchange has been let in, a request with the same SPI
        # and address that carries no cookie (a late copy of the first datagram, or a forgery with a fresh nonce) is challenged like any other
        for tag, data in (('late_copy_after_accept', req0), ('same_spi_fresh_nonce_after_accept', build_init(conn_q, spi, rb(len(nonce)), x))):
            if rejected(tag, data, q) is None:
                return

    @staticmethod
    def _kind(e):
        try:
            h, pls = R.decode(e['data'])
            return [R.PNAMES.get(p['type'], p['type']) + (f'({p["ntype"]})' if p['type'] == R.P_NOTIFY else '') for p in pls]
        except R.DecodeError as ex:
            return f'undecodable ({ex})'


def generate(seed, tier):
    r = random.Random(f'C18gen:{seed}')
    o = {'conf': {'profile': 'mid', 'entries': 1, 'family': 4}, 'faults': [], 'duration': 30, 'packets': 0, 'both_initiate': False}
    sc = workload.pair_scenario(seed, PROP, o)
    q_addr, r_addr = '10.0.0.3', '10.0.0.4'
    cb = sc['nodes']['B']['conf']
    for name, addr, idx in (('to-q', q_addr, 900), ('to-r', r_addr, 901)):
        base = copy.deepcopy(cb['to-a'])
        base['peer_addr'] = addr
        base['protect'] = [{'index': idx, 'mode': 'transport', 'ip_proto': 'tcp', 'peer_port': 7}]
        cb[name] = base
    sc['meta'].update(q_addr=q_addr, r_addr=r_addr)
    thr = r.choice([0, 1, 2, 3])
    sc['controller_attrs'] = {'B': {'cookie_threshold': thr}}
    sc['meta']['threshold'] = thr
    ra = next(iter(configs.read_conf(sc['nodes']['A']['conf']).values()))
    flow = configs.flow_for_entry(r, ra['my_addr'], ra['peer_addr'], ra['protect'][0])
    ops = sc['ops']
    t_probe = round(r.uniform(1.0, 3.0), 3)
    t_honest = round(r.choice([0.95, t_probe + 0.5, t_probe + 0.002]), 3)
    if r.random() < 0.35:
        # part of the load is the responder's own doing: its kernel asks for SAs with peers that do not answer, so the table holds half-open
        # IKE_SAs it initiated itself (they stay until the retransmission budget is used up, about 21 s)
        for addr in (q_addr, r_addr)[:r.randint(1, 2)]:
            ops.append({'t': round(t_probe - r.uniform(0.2, 0.8), 3), 'op': 'packet', 'node': 'B',
                        'flow': {'family': 2, 'saddr': sc['meta']['b_addr'], 'daddr': addr, 'proto': 6, 'sport': 40000, 'dport': 7}})
        sc['meta']['own_half_open'] = True
        if r.random() < 0.6:
            # ... or with peers that answer IKE_SA_INIT and then fall silent: those IKE_SAs wait for the IKE_AUTH response (reference
            # responders, sim/refpeer.py, muted after the first exchange)
            ca_ = sc['nodes']['A']['conf']['to-b']
            sc['mute_peers'] = [{'addr': a_, 'seed': r.randrange(2 ** 31), 'conf': {'to-b': dict(copy.deepcopy(ca_), my_addr=a_)}} for a_ in (q_addr, r_addr)]
            sc['meta']['own_half_open'] = 'auth_pending'
    ops.append({'t': t_probe, 'op': 'call', 'name': 'cookie_probe', 'seed': r.randrange(2 ** 31)})
    ops.append({'t': t_honest, 'op': 'packet', 'node': 'A', 'flow': flow})
    ops.append({'t': round(t_honest + 6.0, 3), 'op': 'call', 'name': 'honest_check'})
    if r.random() < 0.5:
        ops.append({'t': round(t_probe + r.uniform(2, 6), 3), 'op': 'call', 'name': 'cookie_probe', 'seed': r.randrange(2 ** 31)})
    sc['probe_flow'] = flow
    sc['until'] = 16.0
    sc['quiet_from'] = 16.0
    if r.random() < 0.25:
        # the responder renews its cookie secret right after challenging the honest initiator: the retry is challenged again, and the second
        # retry (this implementation stacks the new cookie in front of the old one) must be accepted
        sc['rotate_secret'] = True
        sc['meta']['rotate_secret'] = True
    elif r.random() < 0.3:
        # the honest initiator's second datagram (the cookie-bearing retry when it was challenged, else its IKE_AUTH request) is lost: it has to
        # come again, identical, from the retransmission timer (2 s later) and the exchange still completes
        sc.setdefault('fates', {})['A#2'] = {'fate': 'drop'}
        sc['meta']['retry_lost'] = True
        for o_ in ops:
            if o_.get('name') == 'honest_check':
                o_['t'] = round(t_honest + 10.0, 3)
        sc['until'] = sc['quiet_from'] = max(16.0, round(t_honest + 11.0, 3))
    ops.sort(key=lambda x: x['t'])
    return sc


def run(scenario):
    ctx = {}

    def setup(w, ctx):
        wire = ctx['wire'] = WireLog(w)
        ctx['cov'] = workload.Coverage(w)
        pr = ctx['prober'] = CookieProber(w, wire)

        class Sink:
            def __init__(self):
                self.rx = []

            def on_datagram(self, data, src, dst):
                self.rx.append((w.now, data, src))
        w.externals[scenario['meta']['q_addr']] = Sink()
        w.externals[scenario['meta']['r_addr']] = Sink()
        for mp in scenario.get('mute_peers', []):
            from sim.refpeer import RefPeer
            RefPeer(w, mp['addr'], next(iter(configs.read_conf(mp['conf']).values())), mp['seed'],
                    {'mute_after_init': True, 'cookie': False, 'latency': 0.005, 'nonce_len': 32}, name='Q' + mp['addr'][-1])
        def honest_check(w, op):
            if w.nodes['A'].state == 'running' and w.nodes['B'].state == 'running':
                ctx['honest'] = data_plane_probe(w, 'A', 'B', scenario['probe_flow'])
        ctx['handlers'] = {'cookie_probe': pr.probe, 'honest_check': honest_check}
        if scenario.get('rotate_secret'):
            class Rotator:
                done = False

                def on_wire(self, meta, data):
                    if self.done or meta['sender'] != 'B' or meta['dst'] != scenario['meta']['a_addr']:
                        return
                    try:
                        h, pls = R.decode(data)
                    except R.DecodeError:
                        return
                    if h['exch'] == 34 and h['R'] and pls and pls[0]['type'] == R.P_NOTIFY and pls[0].get('ntype') == R.N_COOKIE:
                        ctl = w.nodes['B'].controller
                        if ctl is not None:
                            self.done = True
                            rr = random.Random(f'rotate:{scenario.get("seed")}')
                            ctl.cookie_secret = bytes(rr.getrandbits(8) for _ in range(8))
                            pr._r('secret_rotated_after_challenge')
                            w.record(('rotate_secret',))
            w.net.taps.append(Rotator())

    def at_end(w, ctx):
        pr = ctx['prober']
        # ---- the honest initiator: retry = first request with the COOKIE notify inserted as first payload, then it establishes
        reqs = [e for e in ctx['wire'].by_sender.get('A', []) if e['h'] is not None and e['h']['exch'] == 34 and not e['h']['R']]
        cookies_to_a = [e for e in ctx['wire'].by_sender.get('B', []) if e['dst'] == scenario['meta']['a_addr'] and
                        pr.cookie_of(e) is not None]
        if cookies_to_a and len(reqs) >= 2:
            first = None
            for prev, nxt in zip(reqs, reqs[1:]):
                try:
                    h1, p1 = R.decode(prev['data'])
                    h2, p2 = R.decode(nxt['data'])
                except R.DecodeError:
                    continue
                if p2 and p2[0]['type'] == R.P_NOTIFY and p2[0].get('ntype') == R.N_COOKIE and not \
                        (p1 and p1[0]['type'] == R.P_NOTIFY and p1[0].get('ntype') == R.N_COOKIE):
                    first = (prev, nxt, h1, p1, h2, p2)
                    break
            if first:
                prev, nxt, h1, p1, h2, p2 = first
                pr._r('honest_retry_checked')
                c = p2[0]['data']
                want = R.encode(dict(h1, length=None) if False else {'spi_i': h1['spi_i'], 'spi_r': h1['spi_r'], 'exch': 34, 'I': True,
                                                                      'R': False, 'id': 0},
                                [{'type': R.P_NOTIFY, 'proto': p2[0]['proto'], 'ntype': R.N_COOKIE, 'spi': p2[0]['spi'], 'data': c}] +
                                [dict(p, raw=None) for p in []])
                body1 = prev['data'][28:]
                body2 = nxt['data'][28:]
                ck_len = 8 + len(c)
                expect2 = struct.pack('>BBH', prev['data'][16], 0, ck_len) + struct.pack('>BBH', 0, 0, R.N_COOKIE) + c + body1
                ok = (nxt['data'][:16] == prev['data'][:16] and nxt['data'][16] == R.P_NOTIFY and nxt['data'][17:24] == prev['data'][17:24]
                      and body2 == expect2 and c in [pr.cookie_of(e) for e in cookies_to_a])
                if not ok:
                    w.violation(PROP, 'initiator_retry_not_identical_plus_cookie', {},
                                f'A retried IKE_SA_INIT after COOKIE but the retry is not its first request with the cookie inserted first: '
                                f'first payloads {[R.PNAMES.get(p["type"]) for p in p1]}, retry {[R.PNAMES.get(p["type"]) for p in p2]}, '
                                f'lengths {len(prev["data"])} -> {len(nxt["data"])}')
                    return
                # ---- and what the retransmission timer sends afterwards is that retry again (until another COOKIE answer arrives)
                later = [e for e in reqs if e['t'] > nxt['t'] and e['h']['spi_i'] == h2['spi_i']]
                last = nxt
                for e in later:
                    if any(last['t'] <= x['t'] <= e['t'] for x in ctx['wire'].by_sender.get('B', [])
                           if x['dst'] == scenario['meta']['a_addr'] and x['h'] is not None and x['h']['exch'] == 34 and x['h']['R']):
                        # another answer (COOKIE again, INVALID_KE_PAYLOAD) made it build a new request
                        last = e
                        continue
                    pr._r('honest_retry_retransmission_checked')
                    if e['data'] != last['data']:
                        w.violation(PROP, 'retry_retransmission_differs', {},
                                    f'A retransmitted its IKE_SA_INIT request at t={e["t"]:.2f} ({len(e["data"])} octets, first payload '
                                    f'{e["data"][16]}) but the outstanding request is the cookie-bearing retry sent at t={last["t"]:.2f} '
                                    f'({len(last["data"])} octets)')
                        return
                    last = e
        if ctx.get('honest') is not None:
            ok, why = ctx['honest']
            if ok:
                pr._r('honest_established')
            elif cookies_to_a and not w.violations:
                w.violation(PROP, 'honest_initiator_not_served_under_cookie_pressure', {},
                            f'P received a COOKIE challenge and {10 if scenario["meta"].get("retry_lost") else 6} s after its initiation (one datagram of P lost at most) has no working CHILD_SA with D ({why}); A table '
                            f'{[(sa.state.name) for sa in w.nodes["A"].ike_sas()]}')
    ctx['at_end'] = at_end
    w = execute(scenario, setup, ctx)
    pr = ctx['prober']
    reach = dict(pr.reach)
    import hashlib
    st = workload.base_stats(w, ctx['cov'], {'reach': reach, 'nontrivial': bool(reach.get('regime_reached')) and pr.judged >= 6})
    st['sig'] = hashlib.sha256(repr((scenario['meta'].get('threshold'), configs.suite_signature(scenario['nodes']['B']['conf']),
                                     tuple(pr.vector), reach.get('honest_retry_checked', 0))).encode()).hexdigest()[:16]
    if scenario.get('seed', 0) % 61 == 0 or w.violations:
        st['sample'] = {'seed': scenario.get('seed'), 'meta': scenario.get('meta'), 'probe_vector': pr.vector, 'reach': reach}
    res = {'violations': w.violations, 'stats': st, 'digest': w.hexdigest()}
    if w.violations:
        res['scenario'] = replayable(scenario, w)
    if scenario.get('keep_events'):
        res['trace'] = w.events[-300:] + [f'LOG {l}' for l in w.logs[-80:]]
    return res
