"""C07 - encrypted payloads round-trip and every modification is detected.

Wiretap half: every protected datagram of every run is re-verified by the independent reference (checksum = truncated HMAC of
the negotiated algorithm over [start of IKE header .. end of ciphertext]; plaintext padded to a whole number of blocks with a
correct Pad Length octet; nothing but the Encrypted payload in the clear after IKE_SA_INIT; no IV reuse), and the receiving
daemon must parse it back to the same payload list.  Tamper half: copies of authentic protected datagrams with a byte changed,
truncated, extended, re-labelled with another IKE_SA's SPIs or reflected are delivered in isolation and the real parser must
never hand out a protected message for them."""
import random
import struct

from sim import workload, seams, refike as R
from sim.observe import WireLog, sha, parse_header, EXCH
from sim.scenario import execute, replayable
from sim.wiretap import Wiretap
from checks.c03 import Forger
from checks.c08 import timers_due

PROP = 'C07'
LEVEL = 'exploration'
BUDGET = {'quick': {'runs': 800, 'wall': 52, 'chunk': 8, 'min_wall': 60},
          'thorough': {'runs': 300000, 'wall': 1200, 'chunk': 16, 'min_wall': 150}}
RULE = ('one evaluation = one simulated run: all protected traffic re-verified by the reference and 10-40 tampered copies delivered in '
        'isolation; non-trivial = at least 20 protected datagrams verified and 5 tampered copies judged; distinct = distinct (ENCR key '
        'length, INTEG, set of plaintext-length residues mod 16, set of tamper kinds x exchange types)')
COMPONENTS = {'real': ['message.py (PayloadSK.generate / decrypt, Message.to_bytes checksum, Message.parse verification)', 'crypto.py (Cipher, Integrity)',
                       'ikesa.py (every emitted message after IKE_SA_INIT)'],
              'stub': ['reference SK verification / decryption (sim/refike.sk_open)', 'tamperer (reuses the C03 forger)', 'parse watch (call-through)']}
ASSUMPTIONS = ['"parsing fails" is read as: Message.parse raises a protocol error, or returns a message that is NOT marked protected and carries no '
               'decrypted payloads (a changed Next Payload octet in the header hides the Encrypted payload from the parser; nothing protected '
               'is handed out)', 'byte positions and bit masks are seeded samples in quick, a full sweep of positions x bits of one message '
               'per exchange type in thorough']
EXPECT_REACH = ['protected_verified', 'roundtrip_compared', 'over_padded_judged', 'tamper.flip', 'tamper.trunc', 'tamper.extend', 'tamper.cross_sa', 'tamper.reflect',
                'tamper.flags', 'mod16_all_residues', 'integ.2', 'integ.12', 'integ.14', 'encr.128', 'encr.256']
TAMPER = ('flip', 'flip', 'flip', 'trunc', 'extend', 'cross_sa', 'reflect', 'flags', 'hdr', 'hdr', 'badpad', 'badpad', 'prefix', 'prefix')


class ParseWatch:
    def __init__(self, world):
        self.w = world
        self.M = seams.M['message'].Message
        self.orig = self.M.__dict__['parse']
        self.last = {}            # sha -> (outcome, protected, [encrypted payload type ints])
        self.tampered_sha = None
        watch = self
        orig_func = self.orig.__func__

        def parse(cls, data, header_only=False, crypto=None):
            try:
                res = orig_func(cls, data, header_only, crypto)
            except BaseException as ex:
                if not header_only:
                    watch.last[sha(data)] = (type(ex).__name__, False, [], crypto is not None)
                raise
            if not header_only:
                watch.last[sha(data)] = ('ok', bool(getattr(res, 'is_protected', bool(res.encrypted_payloads))),
                                         [int(p.type) for p in res.encrypted_payloads], crypto is not None)
            return res
        self.M.parse = classmethod(parse)

    def restore(self):
        self.M.parse = self.orig


class Tamperer(Forger):
    """The C03 forger, but the verdict is about what the parser handed out."""

    def __init__(self, world, wire, ctx, watch, tap):
        super().__init__(world, wire, ctx)
        self.watch, self.tap = watch, tap

    def build(self, op, r, node, sa):
        if op['kind'] == 'prefix':
            # "extending it": octets put in FRONT of an authentic datagram (zeros as a Non-ESP marker would be, or anything else)
            spi_i, spi_r = (sa.my_spi, sa.peer_spi) if sa.is_initiator else (sa.peer_spi, sa.my_spi)
            recs = [x for x in self.wire.sent if x['dst'] == str(sa.my_addr) and x['h'] is not None and (x['h']['spi_i'], x['h']['spi_r']) == (spi_i, spi_r)
                    and x['h']['exch'] != 34]
            if not recs:
                return None
            rec = recs[-1 - (op.get('pick', 0) % min(len(recs), 4))]
            pre = r.choice([b'\0\0\0\0', b'\0\0\0\0', b'\0' * 8, b'\0', bytes(r.getrandbits(8) for _ in range(4)), b'\xff\xff\xff\xff'])
            return pre + rec['data'], f'authentic {EXCH.get(rec["h"]["exch"])} id {rec["h"]["id"]} with {len(pre)} octets ({pre.hex()}) put in front'
        if op['kind'] != 'badpad':
            return super().build(op, r, node, sa)
        # an authentic message (right keys, valid checksum) whose Pad Length octet is wrong: it claims at least as many padding octets as
        # the whole plaintext has (it counts itself, or a block more than there is): "padded ... with a correct Pad Length octet"
        spi_i, spi_r = (sa.my_spi, sa.peer_spi) if sa.is_initiator else (sa.peer_spi, sa.my_spi)
        s = self.tap.sessions.get((bytes(spi_i), bytes(spi_r)))
        if s is None or s.keys is None or s.suite is None:
            return None
        peer_I = not sa.is_initiator
        sk_a, sk_e = (s.keys['ai'], s.keys['ei']) if peer_I else (s.keys['ar'], s.keys['er'])
        inner, first = r.choice([(b'', 0), (b'', 0), (R.enc_chain([{'type': R.P_NOTIFY, 'proto': 0, 'ntype': 16384 + 20, 'spi': b'', 'data': b'\1\2\3'}]), R.P_NOTIFY)])
        pad = (-(len(inner) + 1)) % 16 + 16 * r.choice([0, 0, 1])
        n = len(inner) + pad + 1
        wrong = r.choice([n, n, n + 1, n + 15, 255])
        if wrong > 255 or wrong < n:
            wrong = n if n <= 255 else 255
        pt = inner + b'\0' * pad + bytes([wrong])
        iv = bytes(r.getrandbits(8) for _ in range(16))
        body = iv + R.aes_cbc(sk_e, iv, pt) + b'\0' * s.suite.icv
        is_res = r.random() < 0.3
        mid = (sa.my_msg_id if is_res else sa.peer_msg_id) + r.choice([0, 0, 5])
        flags = (8 if peer_I else 0) | (32 if is_res else 0)
        msg = bytearray(R.enc_header(bytes(spi_i), bytes(spi_r), R.P_SK, 37, flags, mid, 28 + 4 + len(body)) + struct.pack('>BBH', first, 0, 4 + len(body)) + body)
        msg[-s.suite.icv:] = R.integ(s.suite.integ, sk_a, bytes(msg[:-s.suite.icv]))
        return bytes(msg), f'authentic INFORMATIONAL {"response" if is_res else "request"} id {mid} whose plaintext has {n} octets and Pad Length {wrong}'

    def __call__(self, w, op):
        node = w.nodes[op['node']]
        if node.state != 'running' or node.exited or node.stalled_until > w.now or node.has_readable() or \
                any(s.queue for s in node.kernel.event_socks) or timers_due(node):
            return self._r('skip')
        cands = [sa for sa in node.ike_sas() if sa.ike_sa_keyring is not None or getattr(sa, 'peer_crypto', None) is not None]
        if not cands:
            return self._r('skip.no_sa_with_keys')
        sa = cands[op.get('sa', 0) % len(cands)]
        r = random.Random(f'tamper:{op["seed"]}')
        built = self.build(op, r, node, sa)
        if built is None:
            return self._r('skip.no_material')
        data, label = built
        if self.wire.is_authentic(data):
            return self._r('skip.became_authentic')
        h = parse_header(data)
        if h is None or h['exch'] == 34 or h['next'] is None:
            pass
        sock = node.udp.get(str(sa.my_addr))
        if sock is None:
            return
        sent_before = len(self.wire.by_sender.get(node.name, []))
        sock.queue.append((data, (str(sa.peer_addr), 500)))
        w.net._count('adv.tamper.' + op['kind'])
        w.record(('tamper', node.name, op['kind']))
        w.release(node, ('tampered', op['kind']))
        self.delivered += 1
        self._r('tamper.' + op['kind'])
        got = self.watch.last.get(sha(data))
        emitted = self.wire.by_sender.get(node.name, [])[sent_before:]
        if emitted and h is not None and h['exch'] != 34 and (got is None or got[0] != 'ok'):
            # nothing else was pending in this loop iteration (checked above): what left the node is its reaction to a datagram that is
            # not the protected message any key holder made, and that its parser never accepted
            w.violation(PROP, 'modified_datagram_treated_as_authentic', {'kind': op['kind'], 'parsed': 'never' if got is None else got[0]},
                        f'{node.name}: {label} (IKE_SA {sa.my_spi.hex()}, {sa.state.name}) was {"never run through Message.parse" if got is None else "refused by Message.parse (" + got[0] + ")"}, '
                        f'yet the endpoint reacted to it with {len(emitted)} datagram(s) of {[len(e["data"]) for e in emitted]} octets')
            w.poisoned = True
            return
        if got is None:
            return self._r('tamper_not_fully_parsed')       # dropped at the header (unknown SPI after the change ...)
        outcome, protected, enc_types, had_keys = got
        if op['kind'] == 'badpad':
            self._r('badpad_judged')
            if outcome == 'ok':
                w.violation(PROP, 'wrong_pad_length_accepted', {'state': sa.state.name}, f'{node.name}: {label} was opened without error '
                            f'(payloads {[R.PNAMES.get(t, t) for t in enc_types]}; IKE_SA {sa.my_spi.hex()}, {sa.state.name})')
                w.poisoned = True
            elif outcome != 'InvalidSyntax':
                w.violation(PROP, 'modified_datagram_not_a_protocol_error', {'kind': 'badpad', 'error': outcome}, f'{node.name}: {label} made Message.parse raise {outcome}')
                w.poisoned = True
            return
        if outcome == 'ok' and (protected or enc_types):
            w.violation(PROP, 'modified_datagram_accepted_as_protected', {'kind': op['kind'], 'state': sa.state.name},
                        f'{node.name}: {label} was parsed into a protected message with encrypted payloads '
                        f'{[R.PNAMES.get(t, t) for t in enc_types]} (IKE_SA {sa.my_spi.hex()}, {sa.state.name})')
            w.poisoned = True
        elif outcome not in ('ok', 'InvalidSyntax', 'UnsupportedCriticalPayload'):
            w.violation(PROP, 'modified_datagram_not_a_protocol_error', {'kind': op['kind'], 'error': outcome},
                        f'{node.name}: {label} made Message.parse raise {outcome}')
            w.poisoned = True
        else:
            self._r('tamper_rejected')
            if h is not None and (h['exch'] != 34 or op['kind'] == 'hdr') and had_keys and outcome == 'ok' and op['kind'] in ('flip', 'outer_flip', 'hdr'):
                # the Encrypted payload is still announced as first payload: the parser saw it and must have refused
                chain_ok = True
                try:
                    ch = R.dec_chain(data[28:], h['next'])
                    chain_ok = bool(ch) and ch[-1]['type'] == R.P_SK
                except R.DecodeError:
                    chain_ok = False
                if chain_ok and len(data) == h['length']:
                    w.violation(PROP, 'modified_datagram_parsed_without_error', {'kind': op['kind']},
                                f'{node.name}: {label} still carries a well-framed Encrypted payload, Message.parse returned normally')
                    w.poisoned = True


def generate(seed, tier):
    r = random.Random(f'C07gen:{seed}')
    o = {'conf': {'profile': 'fast', 'entries': 2}, 'faults': [], 'forced': 3, 'duration': r.choice([20, 40]), 'packets': r.randint(1, 4),
         'both_initiate': r.random() < 0.3}
    sc = workload.pair_scenario(seed, PROP, o)
    sc['knobs'] = {'nonce_edges': r.random() < 0.3}
    T = sc['until']
    for _ in range(r.randint(10, 40)):
        kind = r.choice(TAMPER)
        op = {'t': round(r.uniform(1.05, T), 3), 'op': 'call', 'name': 'tamper', 'node': r.choice('AB'), 'kind': kind, 'sa': r.randrange(4),
              'seed': r.randrange(2 ** 31), 'pick': r.randrange(8)}
        if kind in ('flip', 'trunc'):
            op['pos'] = r.randrange(0, 3000)
            op['mask'] = 1 << r.randrange(8)
        elif kind == 'extend':
            op['len'] = r.choice([1, 4, 16, 32])
            op['fix_length'] = r.random() < 0.6
        elif kind == 'flags':
            op['flags'] = r.choice([0x00, 0x08, 0x20, 0x28, 0x10, 0x18, 0x30, 0x38])
        elif kind == 'hdr':
            op['field'] = r.choice(['exch', 'exch', 'exch', 'version', 'msgid'])
            op['value'] = {'exch': r.choice([34, 34, 35, 36, 37, 38, 0, 255]), 'version': r.choice([0x21, 0x30, 0x10]), 'msgid': r.choice([1, -1, 256])}[op['field']]
        elif kind == 'cross_sa':
            op['fix_flags'] = True
            op['fix_id'] = r.random() < 0.7
            op['id_delta'] = 0
        elif kind == 'reflect':
            op['fix_flags'] = r.random() < 0.7
        sc['ops'].append(op)
    sc['ops'].sort(key=lambda x: x['t'])
    if r.random() < 0.3:
        sc['prekey_stray'] = {'seed': r.randrange(2 ** 31), 'p': r.choice([0.5, 1.0])}
    return sc


def run(scenario):
    ctx = {}

    def setup(w, ctx):
        wire = ctx['wire'] = WireLog(w)
        ctx['cov'] = workload.Coverage(w)
        tap = ctx['tap'] = Wiretap(w, check_reencode=False)
        watch = ctx['watch'] = ParseWatch(w)
        ctx['tamperer'] = Tamperer(w, wire, ctx, watch, tap)
        by_sha = {}
        ctx['same_keys'] = set()

        class KeyAgreement:
            """At delivery time: does the receiver hold, for this IKE_SA, the very integrity key the reference verified the datagram with?"""
            def before_delivery(self, node, data, src, dst, meta):
                h = parse_header(data)
                if h is None or h['exch'] == 34:
                    return
                s = tap.sessions.get((h['spi_i'], h['spi_r']))
                if s is None or s.keys is None:
                    return
                lspi = h['spi_r'] if h['I'] else h['spi_i']
                for sa in node.ike_sas():
                    if sa.my_spi == lspi and sa.peer_crypto is not None:
                        want = s.keys['ai'] if h['I'] else s.keys['ar']
                        if bytes(sa.peer_crypto.sk_a) == want:
                            ctx['same_keys'].add(sha(data))
        w.monitors.append(KeyAgreement())
        ctx['handlers'] = {'tamper': ctx['tamperer']}
        if scenario.get('prekey_stray'):
            pk = scenario['prekey_stray']

            class PreKeyStray:
                """A stray request aimed at an initiator that has no keys yet (between its IKE_SA_INIT request and the answer): whatever it
                replies goes out without protection - it must not carry a payload."""
                n = 0

                def on_wire(self, meta, data):
                    h = parse_header(data)
                    if h is None or meta['sender'] not in w.nodes or h['exch'] != 34 or h['R']:
                        return
                    self.n += 1
                    rr = random.Random(f'prekey:{pk["seed"]}:{self.n}')
                    if rr.random() >= pk['p']:
                        return
                    exch = rr.choice([35, 36, 37])
                    body = b'' if rr.random() < 0.5 else struct.pack('>BBHBBH', 0, 0, 8, 0, 0, 16384)
                    d = h['spi_i'] + rr.choice([b'\0' * 8, bytes(rr.getrandbits(8) for _ in range(8))]) + \
                        bytes([41 if body else 0, 0x20, exch, 0x00]) + struct.pack('>LL', rr.choice([0, 0, 1]), 28 + len(body)) + body
                    ctx.setdefault('reach', {})['prekey_stray'] = ctx.setdefault('reach', {}).get('prekey_stray', 0) + 1
                    w.net.inject(d, meta['dst'], meta['src'], 0.0, 'forge.prekey_stray')
            w.net.taps.append(PreKeyStray())
        # a peer that pads more than the minimum: some protected datagrams are re-sealed in flight (same payloads, same keys, a fresh IV,
        # 0-15 extra blocks of padding and Padding octets of any value).  "For every payload list ... a protected message parses back under the same keys"
        from sim.interpose import Interposer
        ip = ctx['ip'] = Interposer(w, tap)
        ctx['repadded'] = {}

        def repad(meta, data):
            rr = random.Random(f'repad:{scenario.get("seed")}:{meta["key"]}')
            if rr.random() >= 0.12:
                return None
            opened = ip.open(data)
            if opened is None:
                return None
            h, pls, s = opened
            try:
                a, e = (s.keys['ai'], s.keys['ei']) if h['I'] else (s.keys['ar'], s.keys['er'])
                # ... and, for responses (requests are re-fed to the wiretap, which insists on SK alone), sometimes a Vendor ID or a status
                # notification in the clear in front of the Encrypted payload, covered by the checksum
                outer = None
                if h['R'] and rr.random() < 0.35:
                    outer = [rr.choice([{'type': R.P_VENDOR, 'data': b'over-padded peer'},
                                        {'type': R.P_NOTIFY, 'proto': 0, 'ntype': 40001, 'spi': b'', 'data': b'\x01\x02'}])]
                new = R.sk_seal({'spi_i': h['spi_i'], 'spi_r': h['spi_r'], 'exch': h['exch'], 'I': h['I'], 'R': h['R'], 'id': h['id']}, pls, s.suite, a, e,
                                bytes(rr.getrandbits(8) for _ in range(16)), outer=outer, pad_extra=rr.choice([0, 0, 1, 2, 5, 15]),
                                pad_fill=rr.choice([None, lambda n: bytes(rr.getrandbits(8) for _ in range(n)), lambda n: b'\xff' * n,
                                                    lambda n: bytes([n] * n), lambda n: bytes(range(1, n + 1))]))
                if outer is None:
                    R.sk_open(new, s.suite, a, e)
            except Exception:
                return None
            ctx['repadded'][sha(new)] = (meta['sender'], EXCH.get(h['exch']), h['id'])
            if outer is not None:
                ctx.setdefault('outer_form', set()).add(sha(new))
            return [(new, 0.0)]
        repad.label = 'over_padded'
        ip.rules.append(repad)
    try:
        def at_end(w, ctx):
            tap, watch = ctx['tap'], ctx['watch']
            reach = ctx.setdefault('reach', {})
            for p in tap.problems:
                if p['kind'] == 'protected_message_malformed':
                    return w.violation(PROP, 'protected_message_not_rfc', p['sig'], p['detail'])
                if p['kind'] == 'cleartext_message_after_ike_sa_init':
                    return w.violation(PROP, 'cleartext_after_ike_sa_init', p['sig'], p['detail'])
                if p['kind'] == 'iv_reused':
                    return w.violation(PROP, 'iv_reused', {}, p['detail'])
                if p['kind'] == 'cannot_open_protected_message':
                    w.violation('C04', p['kind'], p['sig'], p['detail'])
            for hsh, (sender, exch, mid) in ctx.get('repadded', {}).items():
                got = watch.last.get(hsh)
                if got is None:
                    continue
                reach['over_padded_judged'] = reach.get('over_padded_judged', 0) + 1
                if got[0] == 'ok' and not got[1] and got[3] and hsh in ctx['same_keys'] and hsh in ctx.get('outer_form', ()):
                    return w.violation(PROP, 'authentic_protected_message_not_recognised', {'exchange': exch},
                                       f'a protected {exch} id {mid} of {sender}, re-sealed under the same keys with one cleartext payload in front of the '
                                       f'Encrypted payload (legal: RFC 7296 3.14), was parsed without its Encrypted payload being verified and opened')
                if hsh in ctx.get('outer_form', ()):
                    reach['outer_payload_form_judged'] = reach.get('outer_payload_form_judged', 0) + 1
                if got[0] != 'ok' and got[3] and hsh in ctx['same_keys']:
                    return w.violation(PROP, 'authentic_protected_message_rejected', {'exchange': exch, 'error': got[0], 'padding': 'more than the minimum'},
                                       f'a protected {exch} id {mid} of {sender}, re-sealed with the same payloads under the same keys but with whole '
                                       f'blocks of extra padding (legal: RFC 7296 3.14), was rejected by the receiver: {got[0]}')
            # round trip across implementations: what the receiving daemon parsed == what the reference decoded
            for m in tap.messages:
                if m['clear']:
                    continue
                reach['protected_verified'] = reach.get('protected_verified', 0) + 1
                got = watch.last.get(sha(m['raw']))
                if got is None:
                    continue
                outcome, protected, enc_types, had_keys = got
                if outcome != 'ok' and had_keys and sha(m['raw']) in ctx['same_keys']:
                    return w.violation(PROP, 'authentic_protected_message_rejected', {'exchange': EXCH.get(m['h']['exch']), 'error': outcome},
                                       f'{m["sender"]} sent a protected {EXCH.get(m["h"]["exch"])} id {m["h"]["id"]} that the reference verifies; the '
                                       f'receiver holds the same integrity key and its parser raised {outcome}')
                if outcome != 'ok' or not had_keys:
                    continue          # the receiver held other keys (IKE_SA_INIT retry race) or had lost the IKE_SA
                reach['roundtrip_compared'] = reach.get('roundtrip_compared', 0) + 1
                known = set(range(33, 47))
                want = [p['type'] for p in m['payloads'] if p['type'] in known and p['type'] not in (37, 38)]
                if not protected or enc_types != want:
                    return w.violation(PROP, 'protected_message_parsed_differently', {'exchange': EXCH.get(m['h']['exch'])},
                                       f'{m["sender"]} sent {[R.PNAMES.get(t) for t in want]} (reference decoding); the receiver parsed '
                                       f'protected={protected} payloads {[R.PNAMES.get(t, t) for t in enc_types]}')
        ctx['at_end'] = at_end
        w = execute(scenario, setup, ctx)
    finally:
        if 'watch' in ctx:
            ctx['watch'].restore()
    tap = ctx['tap']
    reach = ctx.get('reach', {})
    reach.update(ctx['tamperer'].reach)
    residues = {k for k in tap.counts if k.startswith('plain_mod16_')}
    if len(residues) == 16:
        reach['mod16_all_residues'] = 1
    reach['mod16_residues_seen'] = len(residues)
    for s in tap.sessions.values():
        if s.suite is not None:
            reach['integ.%d' % s.suite.integ] = 1
            reach['encr.%d' % (s.suite.ek * 8)] = 1
    tampered = sum(v for k, v in reach.items() if k.startswith('tamper.'))
    st = workload.base_stats(w, ctx['cov'], {'reach': reach, 'nontrivial': reach.get('protected_verified', 0) >= 20 and tampered >= 5})
    import hashlib
    st['sig'] = hashlib.sha256(repr((sorted({(s.suite.ek, s.suite.integ) for s in tap.sessions.values() if s.suite}), sorted(residues),
                                     sorted(k for k in reach if k.startswith('tamper.')))).encode()).hexdigest()[:16]
    if scenario.get('seed', 0) % 67 == 0 or w.violations:
        st['sample'] = {'seed': scenario.get('seed'), 'meta': scenario.get('meta'), 'reach': reach,
                        'mod16': {k: v for k, v in tap.counts.items() if k.startswith('plain_mod16_')}}
    res = {'violations': w.violations, 'stats': st, 'digest': w.hexdigest()}
    if any(v['property'] == PROP for v in w.violations):
        res['scenario'] = replayable(scenario, w)
    if scenario.get('keep_events'):
        res['trace'] = w.events[-200:] + [f'LOG {l}' for l in w.logs[-60:]]
    return res
