"""C15 - installed policies mirror the configuration and acquires map back to it.

PAIR with start / crash / restart / graceful stop at seeded points of a running scenario, optionally with leftovers in
the kernel (policies and SAs of a previous incarnation with another configuration, foreign policies) and a changed
configuration across a restart.  The policy side is judged against the harness' INDEPENDENT reading of the configuration
dictionary; ACQUIREs are produced by the kernel model's own policy lookup."""
import copy
import ipaddress
import random
import struct

from sim import workload, configs
from sim.kernel import K, sel_nets, _addr, _addr_raw, dec_policy_info, dec_tmpl, size, INF
from sim.monitors import data_plane_probe
from sim.observe import WireLog, parse_header, snap_node, diff_snap
from sim.scenario import execute, replayable
from checks.c08 import timers_due

PROP = 'C15'
LEVEL = 'exploration'
BUDGET = {'quick': {'runs': 1200, 'wall': 52, 'chunk': 8, 'min_wall': 60},
          'thorough': {'runs': 300000, 'wall': 1200, 'chunk': 16, 'min_wall': 150}}
RULE = ('one evaluation = one simulated run with 1-4 daemon (re)starts; non-trivial = at least one restart or stop happened while '
        'CHILD_SAs existed, or leftovers were pre-loaded, and at least one ACQUIRE was mapped; distinct = distinct interleaving signature')
COMPONENTS = {'real': ['ikesacontroller.py (__init__, close, process_acquire)', 'xfrm.py (flush_*, create_policies, create_policy)',
                       'netlink.py', 'configuration.py', 'ikesa.py (process_acquire ...)'],
              'stub': ['XFRM kernel model (SPD, SAD, policy lookup, ACQUIRE generation)', 'crash / stop / restart faults', 'clock', 'sockets']}
ASSUMPTIONS = ['expected policies come from sim/configs.read_conf (written from README / example.yaml, shares no code with configuration.py)',
               'the contents of the CHILD_SA offer (TSi/TSr/SA payloads) are judged at install time through XFRM_MSG_NEWSA, the encrypted '
               'payloads themselves by the wiretap layer']
EXPECT_REACH = ['offers_judged', 'startup_checked', 'stop_checked', 'restart_checked', 'acquire_mapped', 'acquire_reused_ike_sa', 'acquire_foreign_index',
                'leftovers_preloaded', 'newsa_matched_entry', 'stale_sas_gone_checked', 'probe_after_restart_ok']
TN = {K['XFRM_MSG_NEWSA']: 'NEWSA', K['XFRM_MSG_DELSA']: 'DELSA', K['XFRM_MSG_NEWPOLICY']: 'NEWPOLICY',
      K['XFRM_MSG_FLUSHSA']: 'FLUSHSA', K['XFRM_MSG_FLUSHPOLICY']: 'FLUSHPOLICY'}


def expected_policies(conf):
    """Canonical policy tuples from the independent reading. index None = not predictable (kernel- or randomly assigned)."""
    out = []
    for conn in configs.read_conf(conf).values():
        me, peer = conn['my_addr'], conn['peer_addr']
        fam = K['AF_INET'] if me.version == 4 else K['AF_INET6']
        for e in conn['protect']:
            proto = K['IPPROTO_ESP'] if e['ipsec_proto'] == 'esp' else K['IPPROTO_AH']
            mode = K['XFRM_MODE_TRANSPORT'] if e['mode'] == 'transport' else K['XFRM_MODE_TUNNEL']
            sfam = K['AF_INET'] if e['my_net'].version == 4 else K['AF_INET6']
            pm = lambda p: 0xFFFF if p else 0
            idx = (e['index'] << 3 | K['XFRM_POLICY_OUT']) if e['index'] is not None else None
            out.append((K['XFRM_POLICY_OUT'], sfam, str(e['my_net']), str(e['peer_net']), e['my_port'], pm(e['my_port']), e['peer_port'],
                        pm(e['peer_port']), e['ip_proto'], idx, K['XFRM_POLICY_ALLOW'], (proto, mode, str(me), str(peer), fam)))
            for d in (K['XFRM_POLICY_IN'], K['XFRM_POLICY_FWD']):
                out.append((d, sfam, str(e['peer_net']), str(e['my_net']), e['peer_port'], pm(e['peer_port']), e['my_port'],
                            pm(e['my_port']), e['ip_proto'], None, K['XFRM_POLICY_ALLOW'], (proto, mode, str(peer), str(me), fam)))
    return out


def installed_policies(kernel, with_index):
    out = []
    for p in kernel.spd:
        nets = sel_nets(p['sel'])
        s, d = (str(nets[0]), str(nets[1])) if nets else ('?', '?')
        t = None
        if len(p['tmpls']) == 1:
            x = p['tmpls'][0]
            t = (x['id']['proto'], x['mode'], str(_addr(x['saddr_raw'], x['family'])), str(_addr(x['id']['daddr_raw'], x['family'])), x['family'])
        else:
            t = ('templates', len(p['tmpls']))
        idx = p['index'] if (p['dir'] == K['XFRM_POLICY_OUT'] and with_index(p)) else None
        out.append((p['dir'], p['sel']['family'], s, d, p['sel']['sport'], p['sel']['sport_mask'], p['sel']['dport'], p['sel']['dport_mask'],
                    p['sel']['proto'], idx, p['action'], t))
    return out


class PolicyOracle:
    def __init__(self, world, wire):
        self.w, self.wire = world, wire
        self.reach = {}
        self.inc_mark = {}        # node -> (incarnation, first request no of this incarnation)
        self.started = set()
        self.cur = None
        self.stale = []           # (node, keys, deadline)
        self.newsa_seen = {}
        self.tap = None
        self.msg_idx = 0
        self.acq_log = []         # (t, node, policy index) of every ACQUIRE a daemon was about to read
        world.monitors.append(self)

    def _r(self, k, n=1):
        self.reach[k] = self.reach.get(k, 0) + n

    def viol(self, cls, sig, detail):
        self.w.violation(PROP, cls, sig, detail)
        self.w.poisoned = True

    def conf_of(self, node):
        return node.conf

    def before_step(self, node, cause):
        ck = cause[0] if isinstance(cause, tuple) else cause
        if ck == 'start':
            self.inc_mark[node.name] = (node.incarnation, node.kernel.req_no)
        acq = []
        if node.state == 'running' and not node.exited:
            for s in node.kernel.event_socks:
                for raw in s.queue[:1]:
                    if len(raw) >= 16 + size('xfrm_user_acquire') and struct.unpack('<H', raw[4:6])[0] == K['XFRM_MSG_ACQUIRE']:
                        from sim.kernel import off
                        pol = dec_policy_info(raw, 16 + off('xfrm_user_acquire', 'policy'))
                        acq.append(pol['index'])
        for i_ in acq:
            self.acq_log.append((self.w.now, node.name, i_))
        self.cur = {'node': node.name, 'acq': acq, 'snap': snap_node(node, timers=False) if node.state == 'running' and node.controller else None,
                    'est_peers': {str(sa.peer_addr) for sa in node.ike_sas() if 10 <= int(sa.state) < 20},   # established, maybe busy
                    'any_peers': {str(sa.peer_addr) for sa in node.ike_sas()},
                    'idle_peers': {str(sa.peer_addr) for sa in node.ike_sas() if sa.state.name == 'ESTABLISHED' and not sa.pending_events},
                    'busy_peers': {str(sa.peer_addr) for sa in node.ike_sas() if sa.state.name.endswith('_REQ_SENT') and 10 < int(sa.state) < 20
                                   and sa.state.name not in ('DEL_IKE_SA_REQ_SENT', 'DEL_AFTER_REKEY_IKE_SA_REQ_SENT')}
                    | {str(sa.peer_addr) for sa in node.ike_sas() if sa.state.name in ('INIT_REQ_SENT', 'AUTH_REQ_SENT')},
                    'pend0': [(sa, len(sa.pending_events), int(sa.state), str(sa.peer_addr)) for sa in node.ike_sas()],
                    'sent0': len(self.wire.by_sender.get(node.name, [])), 'req0': node.kernel.req_no,
                    'others_readable': any(s.queue for s in node.udp.values()),
                    'timer': timers_due(node) if node.state == 'running' and node.controller else False}

    def judge_offers(self):
        """Every TSi / TSr a daemon puts into a CHILD_SA request (read from the protected traffic by the wiretap) lies inside one protect entry
        of the sending connection, in that entry's mode: what an ACQUIRE (or a rekey) makes the daemon offer never leaves the configuration."""
        from sim import refike as R
        from sim.wiretap import ts_subset
        from checks.c12 import ent_ts
        tap = self.tap
        msgs = tap.messages
        while self.msg_idx < len(msgs):
            m = msgs[self.msg_idx]
            self.msg_idx += 1
            if m['clear'] or m['h']['R'] or m['h']['exch'] not in (R.IKE_AUTH, R.CREATE_CHILD_SA) or m.get('rewritten'):
                continue
            node = self.w.nodes.get(m['sender'])
            if node is None:
                continue
            tsi = next((p for p in m['payloads'] if p['type'] == R.P_TSi), None)
            tsr = next((p for p in m['payloads'] if p['type'] == R.P_TSr), None)
            if tsi is None or tsr is None:
                continue
            try:
                conn = configs.read_conf(self.conf_of(node)).get((ipaddress.ip_address(m['src']), ipaddress.ip_address(m['dst'])))
            except Exception:
                conn = None
            if conn is None:
                continue
            transport = any(p['type'] == R.P_NOTIFY and p['ntype'] == R.N_USE_TRANSPORT_MODE for p in m['payloads'])
            self._r('offers_judged')
            inside = [e for e in conn['protect'] if (e['mode'] == 'transport') == transport and all(ts_subset(x, ent_ts(e, 'my')) for x in tsi['selectors'])
                      and all(ts_subset(y, ent_ts(e, 'peer')) for y in tsr['selectors'])]
            ok = bool(inside)
            sa_p = next((p for p in m['payloads'] if p['type'] == R.P_SA), None)
            if ok and sa_p is not None and sa_p['proposals']:
                # ... and the suite offered is that entry's: protocol, every configured algorithm, nothing else (a DH transform may or may not
                # be present in IKE_AUTH, see DESIGN 12.5)
                def suite_of(e, with_dh):
                    t = {(1, i, k) for (i, k) in e['encr']} | {(3, i, None) for i in e['integ']} | {(5, 0, None)}
                    if with_dh:
                        t |= {(4, i, None) for i in e['dh']}
                    return (R.PROTO_ESP if e['ipsec_proto'] == 'esp' else R.PROTO_AH), t
                pr = sa_p['proposals'][0]
                got = (pr['proto'], {(t['type'], t['id'], t['keylen']) for t in pr['transforms']})
                if len(sa_p['proposals']) != 1 or not any(got == suite_of(e, d) for e in inside
                                                          for d in ((True, False) if m['h']['exch'] == R.IKE_AUTH else (True,))):
                    return self.viol('offered_suite_not_the_entrys', {'exchange': 'IKE_AUTH' if m['h']['exch'] == R.IKE_AUTH else 'CREATE_CHILD_SA'},
                                     f'{m["sender"]} offered protocol {got[0]} with transforms {sorted(got[1], key=str)} for selectors that lie in '
                                     f'{len(inside)} protect entr{"y" if len(inside) == 1 else "ies"} whose suite is '
                                     f'{[(suite_of(e, True)[0], sorted(suite_of(e, True)[1], key=str)) for e in inside][:2]}')
                self._r('offered_suite_checked')
            if not ok:
                from sim.wiretap import ts_set
                rekey = any(p['type'] == R.P_NOTIFY and p['ntype'] == R.N_REKEY_SA for p in m['payloads'])
                return self.viol('offered_selectors_outside_every_entry', {'rekey': rekey, 'exchange': 'IKE_AUTH' if m['h']['exch'] == R.IKE_AUTH else 'CREATE_CHILD_SA'},
                                 f'{m["sender"]} offered TSi {[ts_set(x) for x in tsi["selectors"]]} / TSr {[ts_set(y) for y in tsr["selectors"]]} '
                                 f'({"transport" if transport else "tunnel"}), which no protect entry of its connection with {m["dst"]} contains: '
                                 f'{[(e["mode"], str(e["my_net"]), e["my_port"], str(e["peer_net"]), e["peer_port"], e["ip_proto"]) for e in conn["protect"]]}')

    def after_step(self, node, cause):
        w = self.w
        if w.poisoned:
            return
        if self.tap is not None:
            self.judge_offers()
            if w.poisoned:
                return
        N = node.name
        ck = cause[0] if isinstance(cause, tuple) else cause
        cur, self.cur = self.cur, None
        kern = node.kernel
        # ---- start-up completed: the node parked in select() for the first time in this incarnation
        key = (N, node.incarnation)
        if node.state == 'running' and not node.exited and node.control is not None and key not in self.started:
            self.started.add(key)
            inc, first = self.inc_mark.get(N, (node.incarnation, 0))
            reqs = [r for r in kern.requests if r['no'] > first]
            names = [TN.get(r['type'], str(r['type'])) for r in reqs]
            self._r('startup_checked')
            if node.incarnation > 1:
                self._r('restart_checked')
            if names[:2] != ['FLUSHPOLICY', 'FLUSHSA'] or any(r['errno'] for r in reqs[:2]):
                return self.viol('startup_does_not_flush_first', {}, f'{N} incarnation {node.incarnation}: first netlink requests {names[:4]}')
            exp = expected_policies(self.conf_of(node))
            given = {e[9] for e in exp if e[9] is not None}
            got = installed_policies(kern, lambda p: p['index'] in given or True)
            # indices: exact where the configuration gives one; otherwise only "an OUT index that encodes dir OUT"
            exp_cmp = sorted((e[:9] + ((e[9],) if e[9] is not None else ('any',)) + e[10:]) for e in exp)
            exp_has_idx = {e[:9] + e[10:]: e[9] for e in exp}
            got_cmp = []
            for g in got:
                want_idx = exp_has_idx.get(g[:9] + g[10:], 'missing')
                if want_idx is None:
                    if g[0] == K['XFRM_POLICY_OUT'] and (g[9] is None or g[9] & 7 != K['XFRM_POLICY_OUT']):
                        return self.viol('out_policy_index_wrong', {}, f'{N}: outbound policy {g[2]}->{g[3]} has index {g[9]}')
                    got_cmp.append(g[:9] + ('any',) + g[10:])
                else:
                    got_cmp.append(g[:9] + ((g[9],) if g[0] == K['XFRM_POLICY_OUT'] else ('any',)) + g[10:])
            got_cmp.sort()
            if got_cmp != exp_cmp:
                missing = [e for e in exp_cmp if e not in got_cmp]
                extra = [g for g in got_cmp if g not in exp_cmp]
                return self.viol('policies_do_not_mirror_configuration', {'missing': len(missing), 'extra': len(extra)},
                                 f'{N} incarnation {node.incarnation}: missing {missing[:3]} extra {extra[:3]} '
                                 f'(tuple = dir, family, src net, dst net, sport, mask, dport, mask, proto, index, action, (tmpl proto, mode, src, dst, family))')
            if kern.sad:
                return self.viol('sad_not_empty_after_startup', {}, f'{N}: {len(kern.sad)} SAs survive the start-up')
            refused = [(TN.get(r['type']), r['errno']) for r in reqs if r['errno'] and not r['injected']]
            if refused:
                return self.viol('startup_request_refused_by_kernel', {}, f'{N}: {refused[:3]} {[p for _, p in kern.abi_problems][:3]}')
        # ---- the peer of a node that just went down holds SAs that are now stale
        if node.state == 'down' and (N, node.incarnation, 'down') not in self.started:
            self.started.add((N, node.incarnation, 'down'))
            for other in w.nodes.values():
                if other is not node and other.state == 'running':
                    keys = {k for k in other.kernel.ledger_set()
                            if any(k[0] == _addr_raw(a) for a in node.addrs) or
                            any(_addr_raw(a) in (e.get('saddr_raw'),) for a in node.addrs for e in [other.kernel.sad.get(k, {})])}
                    if keys:
                        dpd = max(c['dpd'] for c in configs.read_conf(other.conf).values())
                        self.stale.append((other.name, keys, w.now + dpd + 20 + 8 + 1.0))
        # ---- graceful stop
        if ck == 'shutdown' and node.state == 'down' and node.exit_kind == 'stop':
            self._r('stop_checked')
            names = [TN.get(r['type'], str(r['type'])) for r in kern.requests[-2:]]
            if names != ['FLUSHPOLICY', 'FLUSHSA'] or kern.spd or kern.sad:
                return self.viol('shutdown_does_not_flush', {}, f'{N}: last requests {names}, {len(kern.spd)} policies and {len(kern.sad)} SAs left')
        if cur is None or cur['node'] != N or node.state != 'running' or node.exited:
            return
        # ---- ACQUIREs
        emitted = self.wire.by_sender.get(N, [])[cur['sent0']:]
        own = {}
        for conn in configs.read_conf(self.conf_of(node)).values():
            for e in conn['protect']:
                if e['index'] is not None:
                    own[e['index'] << 3 | 1] = (conn, e)
        for idx in cur['acq']:
            if idx in own:
                conn, e = own[idx]
                self._r('acquire_mapped')
                reqs = [x for x in emitted if x['h'] is not None and not x['h']['R']]
                # (not the retransmission of a request to another peer that falls into the same iteration)
                before = {x['data'] for x in self.wire.by_sender.get(N, [])[:cur['sent0']]}
                wrong = [x for x in reqs if x['dst'] != str(conn['peer_addr']) and x['data'] not in before]
                # (... nor what a timer of another IKE_SA - DPD, rekey - sends in the sweep of the same iteration: thorough soak, seed 505009684)
                wrong = [x for x in wrong if x['h']['exch'] != 37]
                if wrong and len(cur['acq']) == 1 and not cur['others_readable'] and not cur['timer']:
                    return self.viol('acquire_negotiated_with_wrong_peer', {}, f'{N}: ACQUIRE for policy index {idx} (peer {conn["peer_addr"]}) '
                                                                              f'made it send a request to {wrong[0]["dst"]}')
                # (another IKE_SA with that peer that is established or being established by us and has a request outstanding may legitimately
                #  take the ACQUIRE and queue it until its response arrives)
                if (str(conn['peer_addr']) in cur['idle_peers'] and str(conn['peer_addr']) not in cur['busy_peers'] and len(cur['acq']) == 1 and not cur['others_readable'] and not cur['timer']
                        and node.kernel.inject == {} and not any(x['dst'] == str(conn['peer_addr']) and x['h']['exch'] == 36 for x in reqs)):
                    # an idle established IKE_SA with that peer exists (whatever else is in the table: a replaced one waiting for its DELETE,
                    # a half-open one): the ACQUIRE is negotiated on it now, not queued somewhere it will never be looked at
                    return self.viol('acquire_not_negotiated_on_idle_ike_sa', {}, f'{N}: ACQUIRE for index {idx} (peer {conn["peer_addr"]}) while an idle '
                                     f'ESTABLISHED IKE_SA with that peer exists, yet no CREATE_CHILD_SA request was sent in that iteration; table '
                                     f'{[(sa.state.name, len(sa.pending_events)) for sa in node.ike_sas()]}')
                # no IKE_SA at all with that peer (whatever the daemon is doing with OTHER peers): a new one is started with it, now
                if (str(conn['peer_addr']) not in cur['any_peers'] and len(cur['acq']) == 1 and not cur['others_readable'] and not cur['timer']
                        and node.kernel.inject == {}):
                    self._r('acquire_without_ike_sa_checked')
                    if cur['any_peers']:
                        self._r('acquire_without_ike_sa_while_others_exist')
                    if not any(x['dst'] == str(conn['peer_addr']) and x['h']['exch'] == 34 for x in reqs):
                        return self.viol('acquire_not_negotiated_with_its_peer', {'other_ike_sas': bool(cur['any_peers'])},
                                         f'{N}: ACQUIRE for index {idx} (peer {conn["peer_addr"]}) with no IKE_SA with that peer in the table, yet no '
                                         f'IKE_SA_INIT request to it was sent in that iteration (requests sent: {[(x["dst"], x["h"]["exch"]) for x in reqs]}); '
                                         f'table {[(str(sa.peer_addr), sa.state.name, len(sa.pending_events)) for sa in node.ike_sas()]}')
                # ... and one that is established but busy takes it into its queue: handing it to a half-open IKE_SA of our own, whose handshake
                # may never complete, while an established IKE_SA with that peer exists is not re-using the IKE_SA
                if len(cur['acq']) == 1 and not cur['others_readable'] and not cur['timer']:
                    est = [x for x in cur['pend0'] if x[3] == str(conn['peer_addr']) and 10 <= x[2] < 20 and x[2] not in (15, 16)]
                    half = [x for x in cur['pend0'] if x[3] == str(conn['peer_addr']) and x[2] in (2, 3)]
                    if est and half:
                        self._r('acquire_with_half_open_and_established')
                        if any(len(sa.pending_events) > n0 for sa, n0, _, _ in half):
                            return self.viol('acquire_did_not_reuse_ike_sa', {'went_to': 'half_open'},
                                             f'{N}: ACQUIRE for index {idx} was queued on a half-open IKE_SA of our own '
                                             f'({[(sa.my_spi.hex(), sa.state.name) for sa, _, _, _ in half]}) although an established IKE_SA with '
                                             f'{conn["peer_addr"]} existed ({[(sa.my_spi.hex(), sa.state.name) for sa, _, _, _ in est]})')
                if str(conn['peer_addr']) in cur['idle_peers']:
                    self._r('acquire_on_idle_ike_sa_checked')
                if str(conn['peer_addr']) in cur['est_peers']:
                    self._r('acquire_reused_ike_sa')
                    # (a fresh IKE_SA_INIT, not the retransmission timer of an older half-open initiator IKE_SA firing in the same iteration)
                    earlier = {x['h']['spi_i'] for x in self.wire.by_sender.get(N, [])[:cur['sent0']] if x['h'] is not None and x['h']['exch'] == 34}
                    if any(x['h']['exch'] == 34 and x['h']['spi_i'] not in earlier for x in reqs if x['dst'] == str(conn['peer_addr'])):
                        return self.viol('acquire_did_not_reuse_ike_sa', {}, f'{N}: ACQUIRE for index {idx} started a new IKE_SA_INIT although an '
                                                                              f'established IKE_SA with {conn["peer_addr"]} existed')
            elif not any((p['index'] == idx) for p in kern.spd if p['dir'] == K['XFRM_POLICY_OUT'] and p.get('req_no')):
                # an index of no protect entry of this daemon (foreign policy): ignored
                self._r('acquire_foreign_index')
                if len(cur['acq']) == 1 and not cur['others_readable'] and cur['snap'] is not None and not cur['timer']:
                    post = snap_node(node, timers=False)
                    ch = diff_snap(cur['snap'], post, ignore=('pending',))     # it may be queued first and ignored later
                    if ch:
                        return self.viol('foreign_acquire_had_effect', {}, f'{N}: ACQUIRE with foreign policy index {idx} changed {ch[:5]}')
        # ---- every SA installed belongs to a protect entry of the configuration (mode, protocol, lifetime, selectors inside)
        for r in kern.requests[cur['req0']:]:
            d = r.get('decoded')
            if r['type'] != K['XFRM_MSG_NEWSA'] or r['errno'] or not d:
                continue
            sa = d['sa']
            nets = sel_nets(sa['sel'])
            if nets is None:
                continue
            src, dst = nets
            ok = False
            why = []
            for conn in configs.read_conf(self.conf_of(node)).values():
                outbound = _addr(sa['id']['daddr_raw'], sa['family']) == conn['peer_addr']
                if not outbound and _addr(sa['id']['daddr_raw'], sa['family']) != conn['my_addr']:
                    continue
                for e in conn['protect']:
                    mn, pn = (e['my_net'], e['peer_net'])
                    s_in, d_in = (mn, pn) if outbound else (pn, mn)
                    proto = K['IPPROTO_ESP'] if e['ipsec_proto'] == 'esp' else K['IPPROTO_AH']
                    mode = 0 if e['mode'] == 'transport' else 1
                    if src.version != s_in.version or not (src.subnet_of(s_in) and dst.subnet_of(d_in)):
                        continue
                    if sa['id']['proto'] != proto or sa['mode'] != mode:
                        why.append(f'entry {e["index"]}: proto/mode {sa["id"]["proto"]}/{sa["mode"]} vs {proto}/{mode}')
                        continue
                    if e['ip_proto'] and sa['sel']['proto'] != e['ip_proto']:
                        continue
                    soft, hard = sa['lft']['soft_add_expires_seconds'], sa['lft']['hard_add_expires_seconds']
                    if not (e['lifetime'] <= soft <= e['lifetime'] + 5 and hard == soft + 10):
                        why.append(f'entry {e["index"]}: lifetime soft={soft} hard={hard} vs configured {e["lifetime"]}')
                        continue
                    ok = True
            if ok:
                self._r('newsa_matched_entry')
            else:
                return self.viol('installed_sa_matches_no_protect_entry', {},
                                 f'{N}: NEWSA selector {src}->{dst} proto {sa["sel"]["proto"]} ipsec {sa["id"]["proto"]} mode {sa["mode"]} '
                                 f'soft {sa["lft"]["soft_add_expires_seconds"]} fits no protect entry of the configuration: {why[:3]}')
        # ---- stale SAs of the surviving peer after a crash
        for item in list(self.stale):
            name, keys, deadline = item
            if N == name and w.now > deadline:
                self.stale.remove(item)
                self._r('stale_sas_gone_checked')
                left = keys & kern.ledger_set()
                if left:
                    return self.viol('stale_sas_survive_peer_restart', {}, f'{N}: {len(left)} kernel SAs created with the previous incarnation of '
                                                                           f'the peer are still installed at t={w.now:.1f} (bound {deadline:.1f})')


def generate(seed, tier):
    r = random.Random(f'C15gen:{seed}')
    o = {'conf': {'profile': r.choice(['fast', 'mid']), 'entries': 3, 'mixed_family': 0.15}, 'faults': [k for k in ('drop',) if r.random() < 0.2],
         'duration': r.choice([30, 50]), 'packets': r.randint(1, 4), 'both_initiate': r.random() < 0.3, 'intensity': 0.5}
    sc = workload.pair_scenario(seed, PROP, o)
    T = sc['until']
    ops = sc['ops']
    # `index: 0` is a legal index like any other (the outbound policy index is then 0 << 3 | OUT): one entry of one node in 15 % of the runs
    # (decided by a PRNG of its own, the scenario is otherwise the one it was)
    rz = random.Random(f'C15zero:{seed}')
    if rz.random() < 0.15:
        nz = rz.choice(sorted(sc['nodes']))
        ents = [e for c in sc['nodes'][nz]['conf'].values() if isinstance(c, dict) for e in c.get('protect', [])]
        if ents and all(e.get('index') for e in ents):
            rz.choice(ents)['index'] = 0
            sc['meta']['index_zero'] = nz
    # a second connection on A (peer Q does not exist) so that several connections are installed
    if sc['meta']['family'] == 4 and r.random() < 0.5:
        c2, _, _ = configs.make_pair(r, {'profile': 'mid', 'entries': 2, 'family': 4, 'addr_pair': ('10.0.0.1', '10.0.0.7'), 'index_base': 100})
        conn = c2['to-b']
        for i, p in enumerate(conn['protect']):
            p['index'] = 7000 + i
        sc['nodes']['A']['conf']['to-q'] = conn
        if r.random() < 0.5:
            # ... and A's kernel sees traffic for Q shortly before the traffic for B: an IKE_SA with the silent Q stays half-open for about
            # 20 s and is no business of the ACQUIREs that concern B
            rq = next(c for c in configs.read_conf({'to-q': conn}).values())
            pk0 = next((o_ for o_ in ops if o_['op'] == 'packet' and o_['node'] == 'A'), None)
            if pk0 is not None:
                ops.append({'t': round(max(0.95, pk0['t'] - r.choice([0.02, 0.3, 1.0])), 3), 'op': 'packet', 'node': 'A',
                            'flow': configs.flow_for_entry(r, rq['my_addr'], rq['peer_addr'], rq['protect'][0])})
                sc['meta']['silent_peer_traffic'] = True
    # some entries lose their explicit index (the daemon draws one)
    for nd in sc['nodes'].values():
        for conn in nd['conf'].values():
            for p in conn['protect']:
                if r.random() < 0.15:
                    p.pop('index', None)
    who = 'A'
    restarts = r.randint(1, 3)
    t = 1.0
    for i in range(restarts):
        t = round(r.uniform(t + 1.0, T * (0.3 + 0.2 * i) + 2), 3)
        how = r.choice(['crash', 'crash_syscall', 'stop'])
        if how == 'stop':
            ops.append({'t': t, 'op': 'stop', 'node': who})
        elif how == 'crash':
            ops.append({'t': t, 'op': 'crash', 'node': who, 'k': 0})
        else:
            ops.append({'t': t, 'op': 'crash', 'node': who, 'k': r.randint(1, 15)})
        if r.random() < 0.4:
            ops.append({'t': round(t + 0.3, 3), 'op': 'call', 'name': 'preload', 'node': who, 'seed': r.randrange(2 ** 31)})
        if r.random() < 0.3:
            ops.append({'t': round(t + 0.35, 3), 'op': 'call', 'name': 'reconf', 'node': who, 'seed': r.randrange(2 ** 31)})
        t2 = round(t + r.choice([0.5, 2.0, 6.0]), 3)
        ops.append({'t': t2, 'op': 'restart', 'node': who})
        pk = next((o_ for o_ in ops if o_['op'] == 'packet' and o_['node'] == 'A'), None)
        if pk:
            ops.append({'t': round(t2 + 0.5, 3), 'op': 'packet', 'node': 'A', 'flow': dict(pk['flow'], sport=pk['flow']['sport'] or 0)})
        t = t2
    if r.random() < 0.5:
        ops.append({'t': round(r.uniform(1.5, T), 3), 'op': 'call', 'name': 'foreign_acquire', 'node': r.choice('AB'), 'seed': r.randrange(2 ** 31)})
    if r.random() < 0.3:
        ops.append({'t': 0.0, 'op': 'call', 'name': 'preload', 'node': 'B', 'seed': r.randrange(2 ** 31), 'before_start': True})
    # quiet tail with probes from A
    ra = next(iter(configs.read_conf(sc['nodes']['A']['conf']).values()))
    rb_dpd = max(c['dpd'] for c in configs.read_conf(sc['nodes']['B']['conf']).values())
    sc['quiet_from'] = T
    tail = rb_dpd + 20 + 12 + 35
    sc['until'] = T + tail
    pk = {'flow': configs.flow_for_entry(r, ra['my_addr'], ra['peer_addr'], ra['protect'][0])}
    if pk:
        sc['probe_flow'] = pk['flow']
        tt = T + 1
        while tt < sc['until'] - 2:
            ops.append({'t': round(tt, 3), 'op': 'call', 'name': 'probe', 'flow': pk['flow']})
            tt += 9.0
    sc['B_dpd'] = rb_dpd
    ops.sort(key=lambda x: (x['t'], 0 if x.get('before_start') else 1))
    if r.random() < 0.2:
        _halfopen_batch(sc, r)
    elif r.random() < 0.15:
        _rekey_window_batch(sc, r)
    elif r.random() < 0.15:
        _history_batch(sc, r)
    elif r.random() < 0.3:
        _crossing_batch(sc, r)
    if r.random() < 0.2:
        # a kernel with sub-policies, marks or interface ids: its ACQUIRE / EXPIRE events carry XFRMA_POLICY_TYPE, XFRMA_MARK, XFRMA_IF_ID
        sc['kernel_event_attrs'] = r.sample(['policy_type', 'mark', 'if_id'], r.randint(1, 3))
        sc['meta']['kernel_event_attrs'] = True
    return sc


def _crossing_batch(sc, r):
    """Batch 'crossing' (clause: re-using an IKE_SA with the peer if one exists).  Nobody restarts.  Both ends initiate at once and A's own
    IKE_SA_INIT request is lost (its first retransmission comes 2 s later): A's table holds its own half-open initiator IKE_SA in front of
    the established one B created.  Then A's kernel raises ACQUIREs for further entries in quick succession: the first is negotiated at once
    on the established IKE_SA, the next arrive while that exchange is outstanding."""
    ra = next(iter(configs.read_conf(sc['nodes']['A']['conf']).values()))
    rb = next(iter(configs.read_conf(sc['nodes']['B']['conf']).values()))
    if len(ra['protect']) < 3:
        return
    for nd in sc['nodes'].values():
        for c in nd['conf'].values():
            c['lifetime'], c['dpd'] = 10000, 600
            for p in c['protect']:
                p['lifetime'] = 600
    ents = list(range(len(ra['protect'])))
    r.shuffle(ents)
    flow = lambda e: configs.flow_for_entry(r, ra['my_addr'], ra['peer_addr'], ra['protect'][e])
    ops = [{'t': 0.0, 'op': 'start', 'node': 'A'}, {'t': 0.05, 'op': 'start', 'node': 'B'},
           {'t': 1.0, 'op': 'packet', 'node': 'A', 'flow': flow(ents[0])},
           {'t': 1.001, 'op': 'packet', 'node': 'B', 'flow': configs.flow_for_entry(r, rb['my_addr'], rb['peer_addr'], rb['protect'][r.randrange(len(rb['protect']))])}]
    t = round(1.0 + r.choice([0.3, 0.5, 0.9, 1.4]), 3)
    for e in ents[1:] + ents[1:2]:
        ops.append({'t': round(t, 4), 'op': 'packet', 'node': 'A', 'flow': flow(e)})
        t += r.choice([0.001, 0.003, 0.008])
    sc['ops'] = ops
    sc['fates'] = {'A#1': {'fate': 'drop'}}
    if r.random() < 0.5:
        # ... and A's IKE_SA_INIT never gets through at all (its next transmissions are A#2.. in an unknown position: a one-way filter)
        sc['drop_init_requests_of'] = 'A'
    sc['fate_policy'] = {'mode': 'deliver'}
    sc['until'] = round(t + 30.0, 3)
    sc['quiet_from'] = sc['until']
    sc['meta']['batch'] = 'crossing'
    sc['meta']['faults'] = ['drop']
    sc.pop('probe_flow', None)


def _history_batch(sc, r):
    """Batch 'history' (clause: an ACQUIRE is negotiated, on the existing IKE_SA, to an SA with the entry's parameters - whatever that IKE_SA
    did before).  Lossless, nobody restarts.  An endpoint's kernel raises ACQUIREs for its entries one after the other, and between them the
    IKE_SA goes through exchanges of its own: CHILD_SA rekeys started by either end (soft EXPIRE), a CHILD_SA deleted (hard EXPIRE), DPD."""
    who = r.choice('AB')
    rc = next(iter(configs.read_conf(sc['nodes'][who]['conf']).values()))
    for nd in sc['nodes'].values():
        for c in nd['conf'].values():
            c['lifetime'], c['dpd'] = 10000, r.choice([4, 600])
            for p in c['protect']:
                p['lifetime'] = 600
    ops = [{'t': 0.0, 'op': 'start', 'node': 'A'}, {'t': 0.05, 'op': 'start', 'node': 'B'}]
    t = 1.0
    ents = list(range(len(rc['protect'])))
    r.shuffle(ents)
    early = r.random() < 0.5
    for i, e in enumerate(ents + ents[:1]):
        ops.append({'t': round(t, 3), 'op': 'packet', 'node': who, 'flow': configs.flow_for_entry(r, rc['my_addr'], rc['peer_addr'], rc['protect'][e])})
        if i == 0 and early:
            # the next ACQUIRE arrives while the IKE_SA it is handed to is still being set up (IKE_SA_INIT / IKE_AUTH outstanding)
            t += r.choice([0.0, 0.004, 0.012, 0.025, 0.035])
            continue
        t += r.choice([0.7, 1.5, 3.0])
        for _ in range(r.randint(0, 2)):
            ops.append({'t': round(t, 3), 'op': 'expire', 'node': r.choice([who, who, 'A', 'B']), 'which': r.randrange(4), 'dir': r.choice(['in', 'out']),
                        'hard': int(r.random() < 0.25)})
            t += r.choice([0.7, 1.5, 3.0])
        if i + 1 < len(ents) and r.random() < 0.4:
            # while the endpoint waits for the answer to a request of its own (a rekey it starts now), its kernel raises an ACQUIRE that is of
            # no concern (foreign index) and right behind it the ACQUIRE for the next entry: both are queued, the first is moot when the
            # queue is served, the second must still be negotiated
            ops.append({'t': round(t, 3), 'op': 'expire', 'node': who, 'which': r.randrange(4), 'dir': r.choice(['in', 'out']), 'hard': 0})
            ops.append({'t': round(t + 0.002, 4), 'op': 'call', 'name': 'foreign_acquire', 'node': who, 'seed': r.randrange(2 ** 31)})
            t += 0.004
    sc['ops'] = ops
    sc['fates'] = {}
    sc['fate_policy'] = {'mode': 'deliver'}
    sc['until'] = round(t + 4.0, 3)
    sc['quiet_from'] = sc['until']
    sc['meta']['batch'] = 'history'
    sc['meta']['faults'] = []
    sc.pop('probe_flow', None)


def _rekey_window_batch(sc, r):
    """Batch 'rekey_window' (same clause): lossless; B rekeys the IKE_SA (short lifetime on its side only); the instant A has answered the
    rekey - its table then holds the replaced IKE_SA, waiting for B's DELETE, in front of the idle successor - A's kernel sees traffic for
    another protect entry.  The ACQUIRE must be negotiated at once on the successor."""
    ca = next(iter(sc['nodes']['A']['conf'].values()))
    cb = next(iter(sc['nodes']['B']['conf'].values()))
    ra = next(iter(configs.read_conf(sc['nodes']['A']['conf']).values()))
    if len(ra['protect']) < 2:
        return
    own = r.random() < 0.5       # ... or A rekeys itself: the window is between the rekey answer it received and the answer to its DELETE of the old IKE_SA
    ca['lifetime'], cb['lifetime'] = (r.choice([6, 8, 12]), 10000) if own else (10000, r.choice([6, 8, 12]))
    ca['dpd'] = cb['dpd'] = 600
    for c in (ca, cb):
        for p in c['protect']:
            p['lifetime'] = 600
    flow1 = configs.flow_for_entry(r, ra['my_addr'], ra['peer_addr'], ra['protect'][0])
    flow2 = configs.flow_for_entry(r, ra['my_addr'], ra['peer_addr'], ra['protect'][1])
    sc['ops'] = [{'t': 0.0, 'op': 'start', 'node': 'A'}, {'t': 0.05, 'op': 'start', 'node': 'B'},
                 {'t': 1.0, 'op': 'packet', 'node': 'A', 'flow': flow1}]
    sc['acquire_after_rekey_answer'] = {'flow': flow2, 'delay': r.choice([0.0, 0.001, 0.004]), 'drop_delete': r.random() < 0.5, 'own': own}
    sc['fates'] = {}
    sc['fate_policy'] = {'mode': 'deliver'}
    sc['until'] = float(min(ca['lifetime'], cb['lifetime']) + 5 + 12)
    sc['quiet_from'] = sc['until']
    sc['meta']['batch'] = 'rekey_window'
    sc['meta']['faults'] = []
    sc.pop('probe_flow', None)


def _halfopen_batch(sc, r):
    """Batch 'halfopen' (clause: an ACQUIRE for an installed index IS negotiated with the peer, re-using an IKE_SA if one exists).
    Lossless, nobody restarts.  Somebody sends B one well-formed IKE_SA_INIT request with A's source address (a half-open responder
    IKE_SA for the address pair appears at B and stays: nothing ever answers B's reply), before or after an honest handshake started by
    A; then B's own kernel sees traffic for one of its entries.  5 s later that traffic must be protected."""
    rb = next(iter(configs.read_conf(sc['nodes']['B']['conf']).values()))
    ra = next(iter(configs.read_conf(sc['nodes']['A']['conf']).values()))
    ent = r.randrange(len(rb['protect']))
    flow_b = configs.flow_for_entry(r, rb['my_addr'], rb['peer_addr'], rb['protect'][ent])
    flow_a = configs.flow_for_entry(r, ra['my_addr'], ra['peer_addr'], ra['protect'][0])
    ts = round(r.uniform(0.4, 3.0), 3)
    ta = round(ts + r.uniform(0.2, 3.0), 3)
    ops = [{'t': 0.0, 'op': 'start', 'node': 'A'}, {'t': 0.05, 'op': 'start', 'node': 'B'}]
    how = r.choice(['none', 'before', 'after'])
    if how == 'before':
        ops.append({'t': round(r.uniform(0.2, ts - 0.15), 3) if ts > 0.4 else 0.2, 'op': 'packet', 'node': 'A', 'flow': flow_a})
    elif how == 'after':
        ops.append({'t': round(r.uniform(ts + 0.05, ta), 3), 'op': 'packet', 'node': 'A', 'flow': flow_a})
    ops.append({'t': ts, 'op': 'call', 'name': 'spoof_init', 'node': 'B', 'seed': r.randrange(2 ** 31), 'n': r.choice([1, 1, 2])})
    ops.append({'t': ta, 'op': 'packet', 'node': 'B', 'flow': flow_b})
    ops.append({'t': round(ta + 5.0, 3), 'op': 'call', 'name': 'acq_probe', 'flow': flow_b, 'entry': ent, 'honest_handshake': how})
    ops.sort(key=lambda x: x['t'])
    sc['ops'] = ops
    sc['fates'] = {}
    sc['fate_policy'] = {'mode': 'deliver'}
    sc['quiet_from'] = 0.0
    sc['until'] = round(ta + 6.0, 3)
    sc['meta']['batch'] = 'halfopen'
    sc['meta']['faults'] = []
    sc.pop('probe_flow', None)


def run(scenario):
    ctx = {}

    def setup(w, ctx):
        wire = ctx['wire'] = WireLog(w)
        ctx['cov'] = workload.Coverage(w)
        workload.QuietTail(w)
        orc = ctx['oracle'] = PolicyOracle(w, wire)
        from sim.wiretap import Wiretap
        orc.tap = ctx['tap'] = Wiretap(w, check_reencode=False)
        ctx['probes'] = []
        ctx['delivered'] = {}

        class Deliveries:
            def before_delivery(self, node, data, src, dst, meta):
                ctx['delivered'].setdefault(node.name, {}).setdefault(bytes(data), w.now)

            def after_step(self, node, cause):
                # the daemon was alive to look at it (a crash countdown may end in the middle of any step)
                if isinstance(cause, tuple) and cause and cause[0] == 'dgram' and node.state == 'running' and not node.exited and not node.has_readable():
                    ctx.setdefault('processed', {}).setdefault(node.name, set()).add(bytes(cause[1]))
        w.monitors.append(Deliveries())

        def preload(w, op):
            node = w.nodes[op['node']]
            if node.state == 'running':
                return
            rr = random.Random(f'preload:{op["seed"]}')
            kern = node.kernel
            fam = K['AF_INET']
            # a foreign policy (not one of ours), leftovers of "another configuration", a stray SA
            for i in range(rr.randint(1, 3)):
                sel = {'family': fam, 'daddr_raw': _addr_raw(f'192.0.2.{rr.randrange(1, 250)}'), 'saddr_raw': _addr_raw('198.51.100.7'),
                       'dport': rr.choice([0, 99]), 'dport_mask': 0, 'sport': 0, 'sport_mask': 0, 'prefixlen_d': 32, 'prefixlen_s': 32,
                       'proto': 0, 'ifindex': 0, 'user': 0}
                lft = {f: INF for f in ('soft_byte_limit', 'hard_byte_limit', 'soft_packet_limit', 'hard_packet_limit')}
                lft.update({f: 0 for f in ('soft_add_expires_seconds', 'hard_add_expires_seconds', 'soft_use_expires_seconds', 'hard_use_expires_seconds')})
                d = rr.choice([0, 1, 2])
                kern.spd.append({'sel': sel, 'lft': lft, 'priority': 0, 'index': (rr.randrange(1, 4000) << 3) | d, 'dir': d, 'action': 0,
                                 'flags': 0, 'share': 0, 'tmpls': [{'id': {'daddr_raw': _addr_raw('192.0.2.1'), 'spi': b'\0' * 4, 'proto': 50},
                                                                   'family': fam, 'saddr_raw': _addr_raw('198.51.100.7'), 'reqid': 0,
                                                                   'mode': 1, 'share': 0, 'optional': 0, 'aalgos': 0xFFFFFFFF,
                                                                   'ealgos': 0xFFFFFFFF, 'calgos': 0xFFFFFFFF}]})
            key = (_addr_raw('192.0.2.1'), 50, bytes(rr.getrandbits(8) for _ in range(4)))
            kern.sad[key] = {'key': key, 'daddr_raw': key[0], 'spi': key[2], 'proto': 50, 'saddr_raw': _addr_raw('198.51.100.7'), 'family': fam,
                             'mode': 1, 'sel': sel, 'lft': lft, 'reqid': 0, 'replay_window': 0, 'flags': 0, 'auth': None, 'crypt': None,
                             'add_time': w.now, 'req_no': 0, 'soft_sent': False}
            kern.ledger.append(('add', key, w.now, 0))
            orc._r('leftovers_preloaded')

        def reconf(w, op):
            node = w.nodes[op['node']]
            if node.state == 'running':
                return
            rr = random.Random(f'reconf:{op["seed"]}')
            conf = copy.deepcopy(node.conf)
            for conn in conf.values():
                if len(conn['protect']) > 1 and rr.random() < 0.5:
                    conn['protect'].pop(rr.randrange(1, len(conn['protect'])))
                for p in conn['protect'][1:]:
                    if rr.random() < 0.5:
                        p['lifetime'] = rr.choice([7, 33, 120])
            node.conf = conf
            orc._r('reconfigured')

        def mark_stale(w, op):
            b = w.nodes[op['node']]
            keys = set(b.kernel.ledger_set())
            if keys and b.state == 'running':
                deadline = w.now + scenario['B_dpd'] + 20 + 8 + 1.0
                orc.stale.append((op['node'], keys, deadline))

        def foreign_acquire(w, op):
            node = w.nodes[op['node']]
            if node.state != 'running' or node.exited:
                return
            from sim.kernel import enc_acquire
            rr = random.Random(f'facq:{op["seed"]}')
            pol = next((p for p in node.kernel.spd if p['dir'] == K['XFRM_POLICY_OUT']), None)
            if pol is None:
                return
            p2 = copy.deepcopy(pol)
            p2['index'] = (rr.randrange(2 ** 21, 2 ** 22) << 3) | 1
            p2.pop('req_no', None)
            t = p2['tmpls'][0]
            flow = {'family': p2['sel']['family'], 'saddr': str(_addr(t['saddr_raw'], t['family'])),
                    'daddr': str(_addr(t['id']['daddr_raw'], t['family'])), 'proto': 6, 'sport': 9, 'dport': 9}
            node.kernel.raw_event(enc_acquire(p2, flow), 'acquire_foreign')

        def probe(w, op):
            if w.nodes['A'].state != 'running' or w.nodes['B'].state != 'running':
                return
            ok, why = data_plane_probe(w, 'A', 'B', op['flow'])
            ctx['probes'].append((round(w.now, 1), ok, why))
            if not ok:
                # no SA right now: let the kernel see traffic (ACQUIRE) and look again once a lossless handshake has had time (looking only
                # at probe instants makes the verdict depend on how the probe period resonates with short lifetimes; thorough soak, seed 501013709)
                w.packet('A', op['flow'])

                def recheck():
                    if w.nodes['A'].state == 'running' and w.nodes['B'].state == 'running':
                        ok2, why2 = data_plane_probe(w, 'A', 'B', op['flow'])
                        ctx['probes'].append((round(w.now, 1), ok2, why2))
                w.after(2.0, recheck, 'probe.recheck')
        def spoof_init(w, op):
            node = w.nodes[op['node']]
            if node.state != 'running' or node.exited:
                return
            from checks.c18 import build_init
            rr = random.Random(f'spoof:{op["seed"]}')
            conn = next(iter(configs.read_conf(node.conf).values()))
            for _ in range(op.get('n', 1)):
                data = build_init(conn, bytes(rr.getrandbits(8) for _ in range(8)), bytes(rr.getrandbits(8) for _ in range(32)), rr.getrandbits(200) + 2)
                w.net.inject(data, str(conn['peer_addr']), str(conn['my_addr']), 0.0, 'forge.spoofed_init')
            orc._r('halfopen.spoofed_init')

        def acq_probe(w, op):
            if w.nodes['A'].state != 'running' or w.nodes['B'].state != 'running':
                return
            ok, why = data_plane_probe(w, 'B', 'A', op['flow'])
            b = w.nodes['B']
            table = [(sa.state.name, 'initiator' if sa.is_initiator else 'responder', len(sa.child_sas), len(sa.pending_events)) for sa in b.ike_sas()]
            orc._r('halfopen.acquire_probed')
            orc._r('halfopen.honest_' + op.get('honest_handshake', 'none'))
            if ok:
                orc._r('halfopen.acquire_served')
                return
            if not any(n_ == 'B' and t_ >= op['t'] - 5.0 - 1e-6 for (t_, n_, i_) in orc.acq_log):
                # the traffic found an SA when it was sent (no ACQUIRE was raised); that the SA is gone by now is another story
                # (thorough soak, seed 501039616: IKE_SA rekey answered INVALID_KE_PAYLOAD, see DESIGN 12.5)
                orc._r('halfopen.no_acquire_was_raised')
                return
            started = [x for x in wire.by_sender.get('B', []) if x['t'] >= op['t'] - 5.0 - 1e-9 and x['h'] is not None and not x['h']['R']
                       and x['h']['exch'] in (34, 36)]
            if started:
                # it was negotiated; the peer's policy refused it (overlapping entries with other proposals / modes): not this clause
                orc._r('halfopen.negotiated_but_refused')
                return
            first = table[0][0] if table else 'none'
            orc.viol('acquire_never_negotiated', {'first_ike_sa_with_peer': first, 'established_exists': any(t[0] == 'ESTABLISHED' for t in table)},
                     f'B: 5 s after its kernel asked (ACQUIRE) for protection of {op["flow"]}, over a lossless network with A alive, the flow is still '
                     f'unprotected ({why}) and B has not sent a single IKE_SA_INIT / CREATE_CHILD_SA request since; IKE_SAs at B (state, role, CHILD_SAs, queued events): {table}')
        ctx['handlers'] = {'preload': preload, 'reconf': reconf, 'mark_stale': mark_stale, 'foreign_acquire': foreign_acquire, 'probe': probe,
                           'spoof_init': spoof_init, 'acq_probe': acq_probe}
        if scenario.get('drop_init_requests_of'):
            class InitFilter:
                def on_wire(self, meta, data):
                    h = parse_header(data)
                    if h is not None and meta['sender'] == scenario['drop_init_requests_of'] and h['exch'] == 34 and not h['R']:
                        w.decisions.explicit[meta['key']] = {'fate': 'drop'}
            w.net.taps.append(InitFilter())
        aw = scenario.get('acquire_after_rekey_answer')
        if aw:
            class RekeyWindow:
                fired = False

                def on_wire(self, meta, data):
                    h = parse_header(data)
                    if self.fired or h is None or meta['sender'] != 'A':
                        return
                    if aw.get('own'):
                        # A's first INFORMATIONAL request (no DPD, no CHILD_SA expiry with these configurations): the DELETE of the IKE_SA it
                        # has just rekeyed itself; its table holds the replaced IKE_SA in front of the idle successor until the answer comes
                        if h['exch'] != 37 or h['R']:
                            return
                        self.fired = True
                        orc._r('rekey_window.acquire_fired_own_rekey')
                        w.after(aw['delay'], lambda: w.packet('A', aw['flow']), 'rekey_window.packet')
                        if aw.get('drop_delete'):
                            w.decisions.explicit[meta['key']] = {'fate': 'drop'}
                        return
                    if h['exch'] != 36 or not h['R']:
                        return
                    # A answers a CREATE_CHILD_SA request of B: with these configurations that is B's IKE_SA rekey
                    self.fired = True
                    orc._r('rekey_window.acquire_fired')
                    w.after(aw['delay'], lambda: w.packet('A', aw['flow']), 'rekey_window.packet')
                    if aw.get('drop_delete'):
                        # B's DELETE of the replaced IKE_SA is lost once: the window lasts until its retransmission
                        nxt = w.net.sent.get('B', 0) + 1
                        w.decisions.explicit[f'B#{nxt}'] = {'fate': 'drop'}
            w.net.taps.append(RekeyWindow())

    def at_end(w, ctx):
        # ---- an ACQUIRE that was negotiated is negotiated to an SA: a CREATE_CHILD_SA for an additional CHILD_SA that the peer answered with
        #      an SA, promptly and with the answer delivered, ends with the pair installed at the endpoint that asked
        from sim.childcheck import newsa_index, quad
        orc_ = ctx['oracle']
        idx = {n: newsa_index(node) for n, node in w.nodes.items()}
        down = [(o['t'], o['node']) for o in scenario['ops'] if o['op'] in ('crash', 'stop', 'restart')]
        for ch in ctx['tap'].children:
            if ch['initial'] or ch['rekey_of'] is not None or ch['req'].get('rewritten') or w.violations:
                continue
            x = ch['x_init']
            got = ctx['delivered'].get(x, {}).get(ch['res']['raw'])
            if got is None or got - ch['req']['t'] > 1.0 or any(n == x and ch['req']['t'] - 1 <= t_ <= got + 1 for (t_, n) in down) or \
                    ch['res']['raw'] not in ctx.get('processed', {}).get(x, ()):
                continue
            node = w.nodes[x]
            if any(r_['injected'] for r_ in node.kernel.requests if abs(r_['t'] - got) < 1e-9):
                continue
            q = quad(w, ch, idx)
            # the requester may refuse an answer that is not drawn from what it asked for (a responder without PFS answering a PFS offer,
            # selectors outside the offer, another mode): only an answer it has to accept is judged (thorough soak, seeds 501020125 / 501013683)
            from sim.wiretap import ts_subset
            off = next((p_ for p_ in ch['offer'] if p_['num'] == ch['chosen']['num']), None)
            tset = lambda p_: {(t_['type'], t_['id'], t_.get('keylen')) for t_ in p_['transforms']}
            acceptable = off is not None and off['proto'] == ch['chosen']['proto'] and tset(ch['chosen']) <= tset(off) and \
                {t_['type'] for t_ in ch['chosen']['transforms']} == {t_['type'] for t_ in off['transforms']} and \
                len({t_['type'] for t_ in ch['chosen']['transforms']}) == len(ch['chosen']['transforms']) and \
                ch['transport_q'] == ch['transport_r'] and ch['tsi'] and ch['tsr'] and \
                any(ts_subset(ch['tsi'][0], x_) for x_ in ch['tsi_offer']) and any(ts_subset(ch['tsr'][0], x_) for x_ in ch['tsr_offer'])
            if not acceptable:
                orc_._r('additional_child_sa_answer_refusable')
                continue
            orc_._r('additional_child_sa_answers_judged')
            if q is not None and q[0] is None and q[2] is None:
                w.violation(PROP, 'negotiated_child_sa_never_installed', {'requester_role': 'ike_initiator' if ch['req']['h']['I'] else 'ike_responder'},
                            f'{x} asked for an additional CHILD_SA at t={ch["req"]["t"]:.2f} (TSi {ch["tsi_offer"]}, TSr {ch["tsr_offer"]}), {ch["x_resp"]} '
                            f'answered with an SA (SPIs {ch["spi_init"].hex()}/{ch["spi_resp"].hex()}) delivered at t={got:.2f}, but {x} never handed '
                            f'either half to its kernel; its kernel requests at that instant: '
                            f'{[(r_["type"], r_["errno"]) for r_ in node.kernel.requests if abs(r_["t"] - got) < 1e-9]}')
                return
        # ---- every ACQUIRE for an installed index is negotiated (batch history: loss-free, nobody restarts, the peer answers): within 6 s a
        #      request whose selectors cover the reported flow leaves the endpoint, whatever the IKE_SA was doing when the ACQUIRE came
        if scenario['meta'].get('batch') == 'history' and not w.violations:
            def covers(sels, addr, port, proto):
                a = ipaddress.ip_address(addr)
                for x in sels:
                    if len(x['saddr']) != (4 if a.version == 4 else 16):
                        continue
                    if int.from_bytes(x['saddr'], 'big') <= int(a) <= int.from_bytes(x['eaddr'], 'big') and x['sport'] <= port <= x['eport'] \
                            and x['proto'] in (0, proto):
                        return True
                return False
            from sim import refike as R_
            reqs = [m for m in ctx['tap'].messages if not m['clear'] and not m['h']['R'] and m['h']['exch'] in (R_.IKE_AUTH, R_.CREATE_CHILD_SA)]
            for (t_, n_, flow, res) in ctx.get('packets', []):
                if res != 'acquire' or t_ + 6.0 > w.now or w.nodes[n_].state != 'running':
                    continue
                orc_._r('history.acquires_followed')
                ok = False
                for m in reqs:
                    if m['sender'] != n_ or m['t'] < t_ - 1e-9 or m['t'] > t_ + 6.0:
                        continue
                    tsi = next((p['selectors'] for p in m['payloads'] if p['type'] == R_.P_TSi), [])
                    tsr = next((p['selectors'] for p in m['payloads'] if p['type'] == R_.P_TSr), [])
                    if covers(tsi, flow['saddr'], flow['sport'], flow['proto']) and covers(tsr, flow['daddr'], flow['dport'], flow['proto']):
                        ok = True
                        break
                if not ok:
                    node_ = w.nodes[n_]
                    w.violation(PROP, 'acquire_never_negotiated', {'ike_sa_was': 'in_history_batch'},
                                f'{n_}: the kernel raised an ACQUIRE for {flow} at t={t_:.3f}; over a loss-free network with the peer answering, no IKE_AUTH / '
                                f'CREATE_CHILD_SA request covering that flow left {n_} in the following 6 s; errors logged: '
                                f'{[l[3][:90] for l in w.logs if l[1] == n_ and l[2] >= 40 and t_ - 1e-9 <= l[0] <= t_ + 6.0][:3]}')
                    return
        pr = ctx['probes']
        if pr and any(p[1] for p in pr):
            ctx['oracle']._r('probe_after_restart_ok')
        ctx['served'] = (not pr) or any(p[1] for p in pr)
        if not ctx['served']:
            # the peer answered CHILD_SA negotiations in the tail, only not with an SA (NO_PROPOSAL_CHOSEN / TS_UNACCEPTABLE: overlapping entries
            # of the generated configurations can make one and the same flow acceptable inside IKE_AUTH and not inside CREATE_CHILD_SA):
            # the restarted daemon does negotiate, what it is refused is a matter of policy (thorough soak, seed 501013709)
            qf = scenario.get('quiet_from', 0)
            answered = [x for x in ctx['wire'].by_sender.get('B', []) if x['t'] >= qf and x['h'] is not None and x['h']['R']
                        and x['h']['exch'] in (35, 36) and x['dst'] == scenario['meta']['a_addr']]
            if answered:
                ctx['served'] = True
                ctx['oracle']._r('probe_negotiated_but_refused_by_policy')
    ctx['at_end'] = at_end
    w = execute(scenario, setup, ctx)
    orc = ctx['oracle']
    reach = dict(orc.reach)
    if not w.violations and ctx.get('served') is False:
        # differential against the same scenario without restarts
        sc2 = copy.deepcopy(scenario)
        sc2['ops'] = [o for o in sc2['ops'] if o['op'] not in ('crash', 'stop', 'restart') and o.get('name') not in ('preload', 'reconf', 'mark_stale')]
        ctx2 = {}
        ctx2['at_end'] = lambda w2, c2: c2.__setitem__('served', any(p[1] for p in c2['probes']) if c2['probes'] else True)
        w2 = execute(sc2, setup, ctx2)
        if ctx2.get('served') and not w2.violations:
            w.violation(PROP, 'not_reestablished_after_restart', {}, f'after the last restart of A, {scenario["until"] - scenario["quiet_from"]:.0f}s of lossless '
                        f'network and repeated traffic never produced a working CHILD_SA: {sorted(set(p[2] for p in ctx["probes"]))}; '
                        f'without the restarts it does')
        else:
            reach['probe_unserved_also_without_restarts'] = 1
    restarts = sum(1 for o in scenario['ops'] if o['op'] == 'restart')
    st = workload.base_stats(w, ctx['cov'], {'reach': reach, 'nontrivial': (restarts > 0 or bool(reach.get('halfopen.acquire_probed')) or bool(reach.get('rekey_window.acquire_fired')))
                                             and bool(reach.get('acquire_mapped'))})
    if scenario.get('seed', 0) % 67 == 0 or w.violations:
        st['sample'] = {'seed': scenario.get('seed'), 'meta': scenario.get('meta'),
                        'ops': [o for o in scenario['ops'] if o.get('name') != 'probe'][:16], 'reach': reach}
    res = {'violations': w.violations, 'stats': st, 'digest': w.hexdigest()}
    if w.violations:
        res['scenario'] = replayable(scenario, w)
    if scenario.get('keep_events'):
        res['trace'] = w.events[-300:] + [f'LOG {l}' for l in w.logs[-80:]]
    return res
