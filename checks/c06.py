"""C06 - parsing any byte string terminates and fails only with a protocol error.

Hostile bytes reach the REAL receive path of a running daemon (main_loop -> dispatch_message -> Message.parse):
(a) corruption of authentic datagrams of every exchange type (truncations, byte mutations), (b) forger datagrams
(random octets, structured trees with damaged length / next-payload fields at every nesting level), (c) bodies
mutated and then re-encrypted and re-MACed with the right keys (a Byzantine configured peer).  A call-through probe
on Message.parse records outcome and interpreted-line count of every parse."""
import random
import struct

from sim import workload, hostile, refike as R, seams
from sim.observe import WireLog, parse_header
from sim.scenario import execute, replayable

PROP = 'C06'
LEVEL = 'exploration'
BUDGET = {'quick': {'runs': 400, 'wall': 55, 'chunk': 4, 'min_wall': 60},
          'thorough': {'runs': 100000, 'wall': 1200, 'chunk': 8, 'min_wall': 150}}
RULE = ('one evaluation = one simulated run in which 60-200 hostile datagrams are delivered one at a time to a real daemon '
        '(with and without IKE_SA keys in place); non-trivial = at least 20 full parses observed incl. at least one with keys; '
        'distinct = distinct multiset of (generator kind, parse outcome) per run')
COMPONENTS = {'real': ['message.py (Message.parse, all payload parsers, PayloadSK.decrypt)', 'crypto.py', 'ikesacontroller.main_loop / '
                       'dispatch_message', 'ikesa.process_message'],
              'stub': ['clock', 'select', 'sockets', 'kernel model', 'hostile generators', 'Byzantine sealer (reference SK encoder '
                       'fed with the keys read from the daemon)']}
ASSUMPTIONS = ['linear time = at most 6000 + 300 interpreted lines per input octet per Message.parse call (normal traffic costs '
               '1.3-4.6 lines/octet)', 'keys for the Byzantine sealer are read from the daemon under test', 'the input space is '
               'sampled (structured + random + mutation), not enumerated']
EXPECT_REACH = ['parse.full.nokeys', 'parse.full.keys', 'parse.header_only', 'outcome.InvalidSyntax', 'outcome.ok',
                'outcome.UnsupportedCriticalPayload', 'gen.byz', 'gen.struct', 'gen.nested', 'gen.trunc', 'gen.flip']
LINE_BASE, LINE_PER_OCTET = 6000, 300
ALLOWED = ('InvalidSyntax', 'UnsupportedCriticalPayload')
GEN = ('random', 'trunc', 'flip', 'extend', 'struct', 'nested', 'zero_len_payload', 'delete_many', 'lenfield', 'byz', 'byz',
       'byz', 'byz_geom', 'multi_flip', 'empty', 'short', 'scale')


class ParseProbe:
    """Call-through wrapper around message.Message.parse for the duration of one run."""

    def __init__(self, world):
        self.w = world
        self.M = seams.M['message'].Message
        self.orig = self.M.__dict__['parse']
        self.reach = {}
        self.calls = 0
        self.current_gen = None
        self.last_used = None
        self.outcomes = {}
        probe = self
        orig_func = self.orig.__func__

        def parse(cls, data, header_only=False, crypto=None):
            node = seams.CUR.node
            hostile_in = probe.current_gen is not None
            l0 = node.lines if node is not None else 0
            probe.calls += 1
            try:
                res = orig_func(cls, data, header_only, crypto)
                out = 'ok'
                return res
            except BaseException as ex:
                out = type(ex).__name__
                if hostile_in and out not in ALLOWED and out not in ('Hang', 'Crash', 'Shutdown'):
                    import traceback
                    tb = traceback.extract_tb(ex.__traceback__)
                    fr = [f for f in tb if f.filename.startswith(seams.REPO)]
                    where = f'{fr[-1].filename.rsplit("/", 1)[-1]}:{fr[-1].name}' if fr else '?'
                    probe.w.violation(PROP, 'parse_leaked_exception', {'exception': out, 'where': where},
                                      f'Message.parse({len(data)} octets, header_only={header_only}, keys={crypto is not None}) '
                                      f'raised {out}: {ex} at {where}; generator {probe.current_gen}; data {bytes(data).hex()[:400]}')
                    probe.w.poisoned = True
                raise
            finally:
                if hostile_in:
                    used = (node.lines - l0) if node is not None else 0
                    k = 'parse.header_only' if header_only else ('parse.full.keys' if crypto is not None else 'parse.full.nokeys')
                    probe.reach[k] = probe.reach.get(k, 0) + 1
                    probe.reach['outcome.' + out] = probe.reach.get('outcome.' + out, 0) + 1
                    key = (probe.current_gen, out)
                    probe.outcomes[key] = probe.outcomes.get(key, 0) + 1
                    if not header_only:
                        probe.last_used = used
                    if used > LINE_BASE + LINE_PER_OCTET * len(data) and not probe.w.poisoned:
                        probe.w.violation(PROP, 'parse_superlinear', {'gen': probe.current_gen},
                                          f'Message.parse of {len(data)} octets executed {used} lines '
                                          f'(budget {LINE_BASE + LINE_PER_OCTET * len(data)}); data {bytes(data).hex()[:300]}')
                        probe.w.poisoned = True
                    probe.reach['lines_max'] = max(probe.reach.get('lines_max', 0), used)
        self.M.parse = classmethod(parse)

    def restore(self):
        self.M.parse = self.orig


def _keys_for(sa):
    """What a Byzantine peer of this IKE_SA knows: the suite and the keys it uses towards us."""
    try:
        integ_id = int(next(t.id for t in sa.chosen_proposal.transforms if int(t.type) == 3))
        pc = sa.peer_crypto
        return integ_id, pc.sk_a, pc.sk_e
    except Exception:
        return None


def _seal_raw(h, first, inner, integ_id, sk_a, sk_e, iv, geom=None, r=None, outer=(), pad_extra=0):
    """Reference SK sealing of arbitrary inner octets; geom damages the encrypted body itself; outer = cleartext payload dicts
    placed in front of the SK payload (RFC 7296 only requires SK to be the last payload of the message)."""
    pad = (-(len(inner) + 1)) % 16 + 16 * pad_extra       # (a sender may pad further than the minimum, up to 255: RFC 7296 3.14)
    pt = inner + b'\0' * pad + bytes([pad])
    if geom == 'badpad':
        pt = inner + b"\0" * pad + bytes([r.choice([255, pad + 16, len(pt), 200]) & 0xFF])
    ct = R.aes_cbc(sk_e, iv, pt)
    icv = R.icv_len(integ_id)
    if geom == 'empty_ct':
        ct = b''
    elif geom == 'not_block_multiple':
        ct = ct[:-r.randint(1, 15)] if len(ct) > 16 else ct + b'\x01'
    elif geom == 'short_iv':
        iv, ct = iv[:r.randint(0, 15)], b''
    elif geom == 'only_icv':
        iv, ct = b'', b''
    body = iv + ct + b'\0' * icv
    if geom == 'shorter_than_icv':
        body = b'\0' * r.randint(0, icv - 1)
    pre = R.enc_chain(list(outer), last_next=R.P_SK) if outer else b''
    total = 28 + len(pre) + 4 + len(body)
    flags = (8 if h['I'] else 0) | (32 if h['R'] else 0) | h.get('flags_extra', 0)        # (reserved / version bits: ignored on receipt)
    msg = bytearray(R.enc_header(h['spi_i'], h['spi_r'], outer[0]['type'] if outer else R.P_SK, h['exch'], flags, h['id'], total) + pre +
                    struct.pack('>BBH', first, 0, 4 + len(body)) + body)
    if len(msg) >= icv and geom != 'shorter_than_icv':
        msg[-icv:] = R.integ(integ_id, sk_a, bytes(msg[:-icv]))
    elif geom == 'shorter_than_icv':
        # MAC over everything but the last icv octets, whatever they are
        msg[-icv:] = R.integ(integ_id, sk_a, bytes(msg[:-icv]))
    return bytes(msg)


class Injector:
    def __init__(self, world, wire, probe):
        self.w, self.wire, self.probe = world, wire, probe
        self.n = 0

    def __call__(self, w, op):
        node = w.nodes[op['node']]
        if node.state != 'running' or node.exited or node.stalled_until > w.now or node.has_readable():
            return
        r = random.Random(f'c06:{op["seed"]}')
        meta = w.scenario['meta']
        dst = str(node.addrs[0])
        peer = meta['a_addr'] if op['node'] == 'B' else meta['b_addr']
        for i in range(op['count']):
            if w.poisoned or node.state != 'running' or node.exited:
                return
            gen = r.choice(GEN)
            if gen == 'scale':
                self.scale(w, r, node, dst, peer)
                continue
            data = self.make(gen, r, node, dst, peer, meta)
            if data is None:
                continue
            self.probe.current_gen = gen
            self.probe.reach['gen.' + gen] = self.probe.reach.get('gen.' + gen, 0) + 1
            sock = node.udp.get(dst)
            if sock is None:
                return
            sock.queue.append((data, (peer, 500)))
            w.net._count('adv.c06.' + gen)
            w.record(('c06', gen, len(data)))
            node_lines_budget = None
            w.release(node, ('hostile', gen))
            self.probe.current_gen = None
            self.n += 1
            if node.death and not w.poisoned:
                kind = node.death[0]
                w.violation(PROP, 'parse_did_not_terminate' if kind == 'hang' else 'daemon_died',
                            {'gen': gen, 'kind': kind}, f'{node.name} {node.death[:2]} on a {gen} datagram of {len(data)} octets: {data.hex()[:300]}')
                w.poisoned = True

    def scale(self, w, r, node, dst, peer):
        """Time linear in the input length: the same well-formed structure with n and with 4 n pairwise DISTINCT elements (repeating one
        element would let an early duplicate test hide a quadratic scan); the parse of the larger one may cost about 4 times the lines."""
        kind = r.choice(['transforms', 'transforms', 'proposals', 'selectors', 'delete_spis', 'notifies'])
        n1 = r.choice([25, 40, 60])
        used = []
        for n in (n1, 4 * n1):
            if kind == 'transforms':
                trs = [{'type': r.choice([1, 2, 3, 4]), 'id': 1000 + i, 'keylen': None, 'attrs': []} for i in range(n)]
                pls = [{'type': R.P_SA, 'proposals': [{'num': 1, 'proto': 1, 'spi': b'', 'transforms': trs}]}]
            elif kind == 'proposals':
                pls = [{'type': R.P_SA, 'proposals': [{'num': (i % 250) + 1, 'proto': 3, 'spi': (70000 + i).to_bytes(4, 'big'),
                                                       'transforms': [{'type': 3, 'id': 12, 'keylen': None, 'attrs': []}]} for i in range(n)]}]
            elif kind == 'selectors':
                sel = lambda i: {'ts_type': 7, 'proto': 6, 'sport': i, 'eport': i, 'saddr': (0x0A000000 + i).to_bytes(4, 'big'),
                                 'eaddr': (0x0A000000 + i).to_bytes(4, 'big')}
                pls = [{'type': R.P_TSi, 'selectors': [sel(i) for i in range(min(n, 255))]}, {'type': R.P_TSr, 'selectors': [sel(i + 300) for i in range(min(n, 255))]}]
            elif kind == 'delete_spis':
                pls = [{'type': R.P_DELETE, 'proto': 3, 'spis': [(90000 + i).to_bytes(4, 'big') for i in range(n)]}]
            else:
                pls = [{'type': R.P_NOTIFY, 'proto': 0, 'ntype': 16400 + i, 'spi': b'', 'data': bytes([i % 256])} for i in range(n)]
            pls += [{'type': R.P_NONCE, 'data': bytes(r.getrandbits(8) for _ in range(16))}]
            data = R.encode({'spi_i': bytes(r.getrandbits(8) for _ in range(8)), 'spi_r': b'\0' * 8, 'exch': 34, 'I': True, 'R': False, 'id': 0}, pls)
            if len(data) > 4000:
                return
            if w.poisoned or node.state != 'running' or node.exited:
                return
            gen = 'scale.' + kind
            self.probe.current_gen = gen
            self.probe.last_used = None
            sock = node.udp.get(dst)
            if sock is None:
                return
            sock.queue.append((data, (peer, 500)))
            w.net._count('adv.c06.scale')
            w.record(('c06', gen, len(data)))
            w.release(node, ('hostile', gen))
            self.probe.current_gen = None
            self.n += 1
            if node.death or self.probe.last_used is None:
                return
            used.append((len(data), self.probe.last_used))
        self.probe.reach['gen.scale'] = self.probe.reach.get('gen.scale', 0) + 1
        (l1, u1), (l2, u2) = used
        if u2 > 7 * u1 + 3000 and not w.poisoned:
            w.violation(PROP, 'parse_superlinear', {'gen': 'scale.' + kind},
                        f'Message.parse: {l1} octets ({n1} distinct {kind}) took {u1} lines, {l2} octets ({4 * n1} distinct {kind}) took {u2} lines: '
                        f'{u2 / max(u1, 1):.1f} times the work for {l2 / l1:.1f} times the input')
            w.poisoned = True

    def make(self, gen, r, node, dst, peer, meta):
        if gen in ('byz', 'byz_geom'):
            cands = [sa for sa in node.ike_sas() if sa.ike_sa_keyring is not None and _keys_for(sa)]
            if not cands:
                return None
            sa = r.choice(cands)
            integ_id, sk_a, sk_e = _keys_for(sa)
            spi_i, spi_r = (sa.my_spi, sa.peer_spi) if sa.is_initiator else (sa.peer_spi, sa.my_spi)
            is_res = r.random() < 0.3
            # keep it out of the window most of the time: it is parsed in full either way, but not executed
            base = sa.my_msg_id if is_res else sa.peer_msg_id
            mid = base + r.choice([3, 7, 100]) if r.random() < 0.85 else base
            h = {'spi_i': spi_i, 'spi_r': spi_r, 'exch': r.choice([35, 36, 37, 37, 36]), 'I': not sa.is_initiator, 'R': is_res, 'id': mid}
            iv = bytes(r.getrandbits(8) for _ in range(16))
            if gen == 'byz_geom':
                inner = R.enc_chain([hostile._payload(r) for _ in range(r.randint(0, 2))])
                return _seal_raw(h, r.choice([0, 41, 33]), inner, integ_id, sk_a, sk_e, iv,
                                 r.choice(['empty_ct', 'not_block_multiple', 'short_iv', 'only_icv', 'badpad', 'shorter_than_icv']), r)
            # inner = structured tree with damaged fields (same grammar as the cleartext generator)
            which = r.random()
            if which < 0.5:
                inner_msg = hostile.structured(r, spi_i, spi_r)
                first, inner = inner_msg[16], inner_msg[28:]
            elif which < 0.8:
                inner_msg = hostile.nested(r, spi_i, spi_r, 36, 0, 0)
                first, inner = inner_msg[16], inner_msg[28:]
            else:
                pls = [hostile._payload(r) for _ in range(r.randint(1, 6))]
                first, inner = pls[0]['type'], R.enc_chain(pls)
                if r.random() < 0.5 and inner:
                    b = bytearray(inner)
                    for _ in range(r.randint(1, 3)):
                        b[r.randrange(len(b))] = r.getrandbits(8)
                    inner = bytes(b)
            outer = []
            if r.random() < 0.2:
                # cleartext payloads in front of the SK payload (hostile ones too)
                outer = [hostile._payload(r) for _ in range(r.randint(1, 2))]
            try:
                return _seal_raw(h, first, inner, integ_id, sk_a, sk_e, iv, outer=outer)
            except Exception:
                return _seal_raw(h, first, inner, integ_id, sk_a, sk_e, iv)
        op = hostile.random_op(r, 0, node.name, kinds=(gen if gen != 'multi_flip' else 'flip',))
        data, _ = hostile.make(op, self.wire, dst, peer, meta['family'])
        if gen == 'multi_flip' and data:
            b = bytearray(data)
            for _ in range(r.randint(2, 6)):
                b[r.randrange(len(b))] = r.getrandbits(8)
            data = bytes(b)
        return data


def generate(seed, tier):
    r = random.Random(f'C06gen:{seed}')
    o = {'conf': {'profile': 'mid', 'entries': 2}, 'faults': [], 'duration': 40, 'packets': 0, 'both_initiate': False}
    sc = workload.pair_scenario(seed, PROP, o)
    sc['trace_lines'] = True
    sc['line_budget_base'] = 400000          # whole-iteration safety net (the per-parse budget is the oracle)
    sc['line_budget_per_byte'] = 2000
    from sim import configs
    ca = sc['nodes']['A']['conf']
    conn = next(iter(configs.read_conf(ca).values()))
    ops = sc['ops']
    t = 0.95
    ops.append({'t': t, 'op': 'call', 'name': 'inject', 'node': r.choice('AB'), 'count': r.randint(5, 20), 'seed': r.randrange(2 ** 31)})
    for rnd in range(r.randint(3, 5)):
        t += 1.0
        flow = configs.flow_for_entry(r, conn['my_addr'], conn['peer_addr'], conn['protect'][rnd % len(conn['protect'])])
        ops.append({'t': round(t, 3), 'op': 'packet', 'node': 'A', 'flow': flow})
        for k in range(r.randint(1, 3)):
            t += r.choice([0.004, 0.015, 0.025, 0.3, 1.0])
            ops.append({'t': round(t, 3), 'op': 'call', 'name': 'inject', 'node': r.choice('AB'), 'count': r.randint(8, 30),
                        'seed': r.randrange(2 ** 31)})
        t += 2.0
    sc['until'] = t + 3
    sc['quiet_from'] = sc['until']
    ops.sort(key=lambda x: x['t'])
    return sc


def run(scenario):
    ctx = {}

    def setup(w, ctx):
        ctx['wire'] = WireLog(w)
        ctx['cov'] = workload.Coverage(w)
        ctx['probe'] = ParseProbe(w)
        ctx['inj'] = Injector(w, ctx['wire'], ctx['probe'])
        ctx['handlers'] = {'inject': ctx['inj']}
    try:
        w = execute(scenario, setup, ctx)
    finally:
        if 'probe' in ctx:
            ctx['probe'].restore()
    pr = ctx['probe']
    reach = dict(pr.reach)
    full = reach.get('parse.full.keys', 0) + reach.get('parse.full.nokeys', 0)
    st = workload.base_stats(w, ctx['cov'], {'reach': reach, 'nontrivial': full >= 20 and reach.get('parse.full.keys', 0) > 0})
    import hashlib
    st['sig'] = hashlib.sha256(repr(sorted(pr.outcomes.items())).encode()).hexdigest()[:16]
    if scenario.get('seed', 0) % 41 == 0 or w.violations:
        st['sample'] = {'seed': scenario.get('seed'), 'meta': scenario.get('meta'),
                        'outcomes': {f'{g}->{o}': n for (g, o), n in sorted(pr.outcomes.items())}, 'injected': ctx['inj'].n}
    res = {'violations': w.violations, 'stats': st, 'digest': w.hexdigest()}
    if w.violations:
        res['scenario'] = replayable(scenario, w)
    if scenario.get('keep_events'):
        res['trace'] = w.events[-200:] + [f'LOG {l}' for l in w.logs[-40:]]
    return res
