"""C16 - datagrams reach the right IKE_SA and the IKE_SA table stays exact.

PAIR (optionally a third node C, so that A's table holds IKE_SAs of different peers and both roles) with simultaneous
initiations, IKE rekeys over several generations, duplication of rekey and delete messages, a forger that plays with
header SPIs / flags, kernel EXPIREs for live, deleted and foreign SPIs, and frequent status queries.  Probes on
IkeSa.process_message / process_expire record which IKE_SA object was handed what."""
import copy
import ipaddress
import json
import random
import struct

from sim import workload, configs, seams, refike as R
from sim.kernel import K, enc_expire, _addr_raw
from sim.observe import WireLog, parse_header, snap_node, diff_snap, local_spi, EXCH
from sim.scenario import execute, replayable
from checks.c08 import timers_due

PROP = 'C16'
LEVEL = 'exploration'
BUDGET = {'quick': {'runs': 1100, 'wall': 52, 'chunk': 8, 'min_wall': 60},
          'thorough': {'runs': 300000, 'wall': 1200, 'chunk': 16, 'min_wall': 150}}
RULE = ('one evaluation = one simulated run (two or three real daemons); non-trivial = some endpoint held two or more IKE_SAs '
        'at once and at least one duplicated rekey/delete message or SPI forgery was delivered; distinct = distinct interleaving '
        'signature')
COMPONENTS = {'real': ['ikesacontroller.py (dispatch_message, process_expire, main_loop incl. the control-socket status query)',
                       'ikesa.py', 'message.py', 'crypto.py', 'xfrm.py', 'netlink.py', 'configuration.py'],
              'stub': ['clock', 'select', 'sockets (incl. control connection)', 'XFRM kernel model', 'randomness', 'SPI forger']}
ASSUMPTIONS = ['which IkeSa object received a datagram is observed by a call-through wrapper on IkeSa.process_message',
               'table contents are read from the daemon and compared with the status query (public channel) each time one is issued']
EXPECT_REACH = ['routed', 'unknown_spi', 'init_request_new_sa', 'status_queries', 'multi_sa_table', 'rekeyed_once',
                'expire_routed', 'expire_unknown', 'forge.swap', 'forge.unknown', 'forge.zero', 'forge.init_odd', 'forge.init_broken', 'dup_rekey_or_delete']


class RouteProbe:
    def __init__(self, world):
        self.w = world
        self.IkeSa = seams.M['ikesa'].IkeSa
        self.orig_pm = self.IkeSa.process_message
        self.orig_pe = self.IkeSa.process_expire
        self.calls = []       # per step: (sa, data)
        self.expires = []
        probe = self

        def process_message(sa, data):
            probe.calls.append((sa, bytes(data)))
            return probe.orig_pm(sa, data)

        def process_expire(sa, spi, hard=False):
            probe.expires.append((sa, bytes(spi), hard))
            return probe.orig_pe(sa, spi, hard)
        self.IkeSa.process_message = process_message
        self.IkeSa.process_expire = process_expire

    def restore(self):
        self.IkeSa.process_message = self.orig_pm
        self.IkeSa.process_expire = self.orig_pe


class TableOracle:
    def __init__(self, world, wire, probe):
        self.w, self.wire, self.probe = world, wire, probe
        self.reach = {}
        self.cur = None
        self.max_table = 0
        self.seen_successors = set()
        self.waiting = {}
        self.nl = {}
        self.keep = []
        world.monitors.append(self)

    def _r(self, k, n=1):
        self.reach[k] = self.reach.get(k, 0) + n

    def viol(self, cls, sig, detail):
        self.w.violation(PROP, cls, sig, detail)
        self.w.poisoned = True

    def before_step(self, node, cause):
        self.probe.calls.clear()
        self.probe.expires.clear()
        if node.state != 'running' or node.exited:
            self.cur = None
            return
        heads = [(s.addr, s.queue[0]) for s in node.udp.values() if s.queue]
        kq = [q for s in node.kernel.event_socks for q in s.queue[:1]]
        self.cur = {'node': node.name, 'heads': heads, 'kq': kq, 'snap': snap_node(node, timers=False),
                    'timer': timers_due(node), 'objs': list(node.ike_sas()), 'inc': node.incarnation,
                    # (an ended IKE_SA that a netlink transport fault kept in the table: the sweep of this iteration removes it, whatever else
                    #  the iteration handles - the clauses that attribute every change of a step to its datagram stand back)
                    'lingering': any(sa.state.name == 'DELETED' for sa in node.ike_sas()),
                    'child_spis': {id(sa): {x for c in sa.child_sas for x in (bytes(c.inbound_spi), bytes(c.outbound_spi))}
                                   for sa in node.ike_sas()}}

    def after_step(self, node, cause):
        cur, self.cur = self.cur, None
        if node.state != 'running' or node.exited or node.controller is None:
            return
        N = node.name
        tab = node.ike_sas()
        self.max_table = max(self.max_table, len(tab))
        if len(tab) >= 2:
            self._r('multi_sa_table')
        # ---- table exactness: each IKE_SA once, nothing ended, successors registered exactly once
        spis = [sa.my_spi for sa in tab]
        ids = [id(sa) for sa in tab]
        if len(set(spis)) != len(spis) or len(set(ids)) != len(ids):
            dup = sorted({s.hex() for s in spis if spis.count(s) > 1})
            trig = self._trigger(cur, cause)
            return self.viol('ike_sa_listed_twice', {'trigger': trig}, f'{N} table lists {dup} more than once after {trig}')
        for sa in tab:
            st = sa.state.name
            if st == 'INITIAL':
                return self.viol('phantom_initial_ike_sa', {'role': 'initiator' if sa.is_initiator else 'responder'},
                                 f'{N} table holds IKE_SA {sa.my_spi.hex()} in state INITIAL after {self._trigger(cur, cause)}: '
                                 f'it never processed a message, nothing will ever remove it')
            if st == 'DELETED' and self._nl_grace(node, cause):
                # (a netlink transport fault - send() / recv() failing, not an answer of the kernel - aborted the teardown half-way: the ended
                # IKE_SA is removed by the sweep of the daemon's next iteration)
                self._r('ended_ike_sa_waits_for_next_sweep_after_transport_fault')
                continue
            if st == 'DELETED':
                return self.viol('ended_ike_sa_still_in_table', {'trigger': self._trigger(cur, cause)},
                                 f'{N} keeps IKE_SA {sa.my_spi.hex()} in state DELETED in its table')
            if st in ('REKEYED', 'DEL_AFTER_REKEY_IKE_SA_REQ_SENT'):
                n = sum(1 for x in tab if x is sa.new_ike_sa)
                if n == 1:
                    self.seen_successors.add(id(sa.new_ike_sa))
                    self.keep.append(sa.new_ike_sa)     # keep the object alive so that id() stays unique
                elif n == 0 and id(sa.new_ike_sa) in self.seen_successors:
                    continue        # it was registered and has ended since (deleted by the peer, timed out)
                if n != 1:
                    return self.viol('successor_not_registered_once', {'count': n, 'state': st},
                                     f'{N}: IKE_SA {sa.my_spi.hex()} is {st} and its successor is in the table {n} times')
                self._r('rekeyed_once')
        # ---- an IKE_SA whose request is never answered ends by retransmission timeout (2+4+6+8 s and a tick) and leaves the table: the same
        #      request outstanding for more than 34 s means the IKE_SA will stay listed for ever
        seen = set()
        for sa in tab:
            if sa.state.name.endswith('_REQ_SENT'):
                k = (N, node.incarnation, id(sa))
                seen.add(k)
                last = next((x['data'] for x in reversed(self.wire.by_sender.get(N, [])[-40:]) if x['h'] is not None and not x['h']['R']
                             and sa.my_spi in (x['h']['spi_i'], x['h']['spi_r']) and x['h']['id'] == sa.my_msg_id), b'')
                curk = (sa.state.name, sa.my_msg_id, last)
                old = self.waiting.get(k)
                if old is None or old[0] != curk:
                    self.waiting[k] = (curk, self.w.now)
                elif self.w.now - old[1] > 34.0 and node.stalled_until <= self.w.now:
                    return self.viol('ike_sa_outlives_its_retransmission_budget', {'state': sa.state.name},
                                     f'{N}: IKE_SA {sa.my_spi.hex()} has been listed in {sa.state.name} with request {sa.my_msg_id} unanswered for '
                                     f'{self.w.now - old[1]:.0f} s (the retransmission timeout removes an IKE_SA after about 21 s)')
        for k in [k for k in self.waiting if k[0] == N and k not in seen]:
            del self.waiting[k]
        if cur is None or cur['node'] != N:
            return
        # ---- an IKE_SA leaves the table only because it ended (DELETED) or never started anything (INITIAL): one that is dropped in the
        #      middle of an exchange is still held by the peer and by the kernel, and its answer will meet an "unknown SPI"
        if cur['inc'] == node.incarnation:
            for sa in cur['objs']:
                if not any(x is sa for x in tab) and sa.state.name not in ('DELETED', 'INITIAL'):
                    self._r('left_table')
                    return self.viol('live_ike_sa_dropped_from_table', {'state': sa.state.name, 'trigger': self._trigger(cur, cause)},
                                     f'{N}: IKE_SA {sa.my_spi.hex()} left the table in state {sa.state.name} after {self._trigger(cur, cause)}')
                elif not any(x is sa for x in tab):
                    self._r('left_table')
        # ---- routing of datagrams
        calls = list(self.probe.calls)
        for addr, (data, src) in cur['heads']:
            h = parse_header(data)
            if h is None:
                continue
            mine = [c for c in calls if c[1] == bytes(data)]
            if h['exch'] == 34 and not h['R']:
                # a fresh responder IKE_SA bound to (my_addr, peer_addr) of a configured connection
                for sa, _ in mine:
                    self._r('init_request_new_sa')
                    if sa in cur['objs']:
                        return self.viol('init_request_given_to_existing_ike_sa', {}, f'{N}: IKE_SA_INIT request handled by existing IKE_SA {sa.my_spi.hex()}')
                    if sa.is_initiator or sa.peer_spi != h['spi_i'] or str(sa.my_addr) != addr or str(sa.peer_addr) != src[0]:
                        return self.viol('init_request_wrong_new_ike_sa', {},
                                         f'{N}: IKE_SA_INIT request from {src[0]} to {addr} SPIi {h["spi_i"].hex()} produced IKE_SA '
                                         f'initiator={sa.is_initiator} peer_spi={sa.peer_spi.hex()} {sa.my_addr}<->{sa.peer_addr}')
                continue
            want = local_spi(h)
            known = [sa for sa in cur['objs'] if sa.my_spi == want]
            if not known:
                self._r('unknown_spi')
                if mine:
                    return self.viol('unknown_spi_datagram_processed', {'exchange': EXCH.get(h['exch'], str(h['exch']))},
                                     f'{N}: datagram for unknown SPI {want.hex()} was handed to IKE_SA {mine[0][0].my_spi.hex()}')
                if not cur['timer'] and not cur['kq'] and len(cur['heads']) == 1 and not cur['lingering']:
                    post = snap_node(node, timers=False)
                    ch = diff_snap(cur['snap'], post)
                    if ch:
                        return self.viol('unknown_spi_datagram_had_effect', {'exchange': EXCH.get(h['exch'], str(h['exch']))},
                                         f'{N}: datagram for unknown SPI {want.hex()} changed {ch[:5]}')
            else:
                if len(mine) != 1 or mine[0][0] is not known[0]:
                    got = [c[0].my_spi.hex() for c in mine]
                    return self.viol('datagram_routed_to_wrong_ike_sa', {'exchange': EXCH.get(h['exch'], str(h['exch'])), 'I': h['I']},
                                     f'{N}: datagram with SPIi={h["spi_i"].hex()} SPIr={h["spi_r"].hex()} I={h["I"]} should go to '
                                     f'{want.hex()}, went to {got}')
                self._r('routed')
                if not cur['timer'] and not cur['kq'] and len(cur['heads']) == 1 and not cur['lingering']:
                    # only the selected IKE_SA may change (and a successor / removal of itself)
                    post = snap_node(node, timers=False)
                    new_spi = known[0].new_ike_sa.my_spi.hex() if getattr(known[0], 'new_ike_sa', None) is not None else None
                    others_pre = dict(cur['snap'], table=[s for s in cur['snap']['table'] if s['my_spi'] not in (want.hex(), new_spi)])
                    others_post = dict(post, table=[s for s in post['table'] if s['my_spi'] not in (want.hex(), new_spi)])
                    ch = [c for c in diff_snap(others_pre, others_post, ignore=('sent', 'kernel_reqs', 'sad'))]
                    if ch:
                        return self.viol('datagram_changed_other_ike_sa', {'exchange': EXCH.get(h['exch'], str(h['exch']))},
                                         f'{N}: datagram for IKE_SA {want.hex()} changed other IKE_SAs: {ch[:5]}')
        # ---- every datagram leaves from the local address of the IKE_SA it belongs to, towards that IKE_SA's peer (requests), or back to
        #      where the request came from, from the address it came to (responses)
        for rec in self.wire.emitted_in_step(N, self.w.steps):
            h = rec['h']
            if h is None:
                continue
            mine = h['spi_i'] if (h['I'] and True) else h['spi_r']
            sa = next((x for x in list(tab) + cur['objs'] if x.my_spi == mine), None)
            if sa is None:
                continue
            self._r('addresses_judged')
            if len(node.addrs) > 1:
                self._r('addresses_judged_multihomed')
            if not h['R'] and (rec['src'], rec['dst']) != (str(sa.my_addr), str(sa.peer_addr)):
                return self.viol('request_between_wrong_addresses', {'exchange': EXCH.get(h['exch'], str(h['exch']))},
                                 f'{N}: request of IKE_SA {sa.my_spi.hex()} ({sa.my_addr} <-> {sa.peer_addr}) left from {rec["src"]} to {rec["dst"]}')
            if h['R']:
                came = [(a, src) for a, (d, src) in cur['heads'] if (parse_header(d) or {}).get('id') == h['id']]
                if came and (rec['src'], rec['dst']) not in [(a, src[0]) for a, src in came] and rec['src'] != str(sa.my_addr):
                    return self.viol('response_from_wrong_address', {'exchange': EXCH.get(h['exch'], str(h['exch']))},
                                     f'{N}: response of IKE_SA {sa.my_spi.hex()} ({sa.my_addr} <-> {sa.peer_addr}) left from {rec["src"]} to {rec["dst"]}; '
                                     f'the request came to {came}')
        # ---- routing of kernel EXPIREs
        for raw in cur['kq']:
            if len(raw) < 16 or struct.unpack('<H', raw[4:6])[0] != K['XFRM_MSG_EXPIRE']:
                continue
            from sim.kernel import dec_usersa_info, size
            st = dec_usersa_info(raw, 16)
            spi = st['id']['spi']
            owners = [sa for sa in cur['objs'] if spi in cur['child_spis'].get(id(sa), ())]
            got = [e for e in self.probe.expires if e[1] == spi]
            if owners:
                self._r('expire_routed')
                if len(got) != 1 or got[0][0] not in owners:
                    return self.viol('expire_routed_to_wrong_ike_sa', {}, f'{N}: EXPIRE for SPI {spi.hex()} owned by '
                                     f'{[o.my_spi.hex() for o in owners]} went to {[g[0].my_spi.hex() for g in got]}')
            else:
                self._r('expire_unknown')
                if got:
                    return self.viol('expire_for_foreign_spi_processed', {}, f'{N}: EXPIRE for SPI {spi.hex()} of no IKE_SA went to {got[0][0].my_spi.hex()}')

    def _nl_grace(self, node, cause):
        fired = getattr(node.kernel, 'nl_faults_fired', 0)
        st = self.nl.setdefault(node.name, {'seen': 0, 'grace': False, 'step': -1})
        if st['step'] == self.w.steps:
            return st['grace']
        st['step'] = self.w.steps
        ck = cause[0] if isinstance(cause, tuple) else cause
        if fired != st['seen']:
            st['seen'], st['grace'] = fired, True
        elif st['grace'] and ck == 'tick':
            st['grace'] = False
        return st['grace']

    def _trigger(self, cur, cause):
        if cur and cur['heads']:
            h = parse_header(cur['heads'][0][1][0])
            if h:
                return f'{EXCH.get(h["exch"], h["exch"])}.{"res" if h["R"] else "req"}'
        return cause[0] if isinstance(cause, tuple) else cause

    # ---- status query (public channel) vs table ------------------------------------------------
    def status(self, w, op):
        node = w.nodes[op['node']]
        if node.state != 'running' or node.exited or node.control is None or node.has_readable() or \
                any(s.queue for s in node.kernel.event_socks) or timers_due(node):
            return
        pre = [(sa.my_spi.hex(), sa.peer_spi.hex(), bool(sa.is_initiator), sa.state.name, sa.my_msg_id, str(sa.my_addr), str(sa.peer_addr),
                sorted((c.inbound_spi.hex(), c.outbound_spi.hex(), c.mode.name, c.proposal.protocol_id.name) for c in sa.child_sas))
               for sa in node.ike_sas()]
        res = w.status_query(op['node'])
        self._r('status_queries')
        if res is None or not isinstance(res, list):
            return self.viol('status_query_unanswered', {}, f'{node.name} status query returned {res!r}')
        got = []
        for e in res:
            ch = []
            for c in e.get('child_sas', []):
                parts = c.get('spis', '').strip('()').split(', ')
                ch.append((parts[0], parts[1] if len(parts) > 1 else '', c.get('mode'), c.get('protocol')))
            got.append((e.get('my_spi'), e.get('peer_spi'), e.get('is_initiator'), e.get('state'), e.get('msg_id'), e.get('my_addr'),
                        e.get('peer_addr'), sorted(ch)))
        if got != pre:
            return self.viol('status_query_differs_from_table', {}, f'{node.name} status query {got} != table {pre}')


def generate(seed, tier):
    r = random.Random(f'C16gen:{seed}')
    o = {'conf': {'profile': 'fast', 'entries': 2, 'ike_lifetime': r.choice([8, 12, 20, 30])}, 'both_initiate': r.random() < 0.7,
         'forced': 3, 'duration': r.choice([30, 60, 90]), 'packets': r.randint(2, 5),
         'faults': ['dup'] + [k for k in ('delay', 'drop', 'reorder') if r.random() < 0.35], 'intensity': 1.0}
    sc = workload.pair_scenario(seed, PROP, o)
    T = sc['until']
    ops = sc['ops']
    if sc['meta']['family'] == 4 and r.random() < 0.4:
        # third node C; A gets a second connection (transport, host-to-host, so A's policies cannot collide)
        # ... over A's only address, over a second IPv4 address of A, or over an IPv6 address of A (multi-homed / dual-stack daemon: one UDP
        # socket per address, every IKE_SA bound to the pair of addresses its first message used)
        homing = r.choice(['same', 'second_v4', 'v6'])
        a2, c_addr, fam2 = {'same': ('10.0.0.1', '10.0.0.3', 4), 'second_v4': ('10.0.1.1', '10.0.1.3', 4), 'v6': ('fd00::1', 'fd00::3', 6)}[homing]
        ca2, cc, meta2 = configs.make_pair(r, {'profile': 'fast', 'entries': 1, 'family': fam2, 'addr_pair': (a2, c_addr), 'index_base': 50})
        conn = copy.deepcopy(ca2['to-b'])
        for i, p in enumerate(conn['protect']):
            p['index'] = 5000 + i
        sc['nodes']['A']['conf']['to-c'] = conn
        if a2 not in sc['nodes']['A']['addrs']:
            sc['nodes']['A']['addrs'] = sc['nodes']['A']['addrs'] + [a2]
        sc['nodes']['C'] = {'addrs': [c_addr], 'conf': {'to-a': cc['to-a']}}
        sc['meta']['homing'] = homing
        ops.append({'t': round(r.uniform(0, 0.9), 3), 'op': 'start', 'node': 'C'})
        rc = next(iter(configs.read_conf({'to-a': cc['to-a']}).values()))
        ra = configs.read_conf({'to-c': conn})
        ra = next(iter(ra.values()))
        for _ in range(r.randint(1, 3)):
            if r.random() < 0.5:
                ops.append({'t': round(r.uniform(1, T * 0.7), 3), 'op': 'packet', 'node': 'C',
                            'flow': configs.flow_for_entry(r, rc['my_addr'], rc['peer_addr'], rc['protect'][0])})
            else:
                ops.append({'t': round(r.uniform(1, T * 0.7), 3), 'op': 'packet', 'node': 'A',
                            'flow': configs.flow_for_entry(r, ra['my_addr'], ra['peer_addr'], ra['protect'][0])})
        sc['meta']['three_nodes'] = True
    names = sorted(sc['nodes'])
    for _ in range(r.randint(4, 14)):
        ops.append({'t': round(r.uniform(1.0, T), 3), 'op': 'call', 'name': 'status', 'node': r.choice(names)})
    for _ in range(r.randint(2, 10)):
        ops.append({'t': round(r.uniform(1.0, T), 3), 'op': 'call', 'name': 'spiforge', 'node': r.choice(names),
                    'kind': r.choice(['swap', 'unknown', 'zero', 'flagflip', 'one_known', 'replay_dead', 'init_odd', 'init_broken']),
                    'pick': r.randrange(1000), 'seed': r.randrange(2 ** 31)})
    for _ in range(r.randint(0, 4)):
        ops.append({'t': round(r.uniform(1.0, T), 3), 'op': 'call', 'name': 'kexpire', 'node': r.choice(names),
                    'kind': r.choice(['live', 'live', 'foreign', 'dead']), 'hard': r.random() < 0.4, 'pick': r.randrange(1000),
                    'seed': r.randrange(2 ** 31)})
    ops.sort(key=lambda x: x['t'])
    if r.random() < 0.2:
        # an authenticated peer that sends malformed protected messages: whatever it provokes, the table stays exact
        sc['byz'] = {'kind': 'auth_malformed', 'seed': r.randrange(2 ** 31)}
        sc['meta']['byz'] = 'auth_malformed'
    if r.random() < 0.15:
        # netlink transport faults (send() fails with ENOBUFS / the acknowledgement is lost): not refusals by the kernel
        for _ in range(r.randint(1, 3)):
            sc['ops'].append({'t': round(r.uniform(1.5, max(2.0, sc.get('quiet_from', sc['until']) * 0.9)), 3), 'op': 'knlfail', 'node': r.choice(names), 'nth': r.randint(1, 3),
                              'how': r.choice(['send', 'send', 'recv'])})
        sc['ops'].sort(key=lambda x: x['t'])
        sc['meta']['knlfail'] = True
    return sc


def run(scenario):
    ctx = {}

    def setup(w, ctx):
        wire = ctx['wire'] = WireLog(w)
        ctx['cov'] = workload.Coverage(w)
        probe = ctx['probe'] = RouteProbe(w)
        orc = ctx['oracle'] = TableOracle(w, wire, probe)
        # "an IKE_SA that ends is removed together with its kernel SAs": nothing installed may be left without an owner in the table
        from sim.monitors import LedgerInvariant
        ctx['ledger'] = LedgerInvariant(w, PROP)
        if scenario.get('byz'):
            from sim import byz
            from sim.interpose import Interposer
            from sim.wiretap import Wiretap
            tap = ctx['tap'] = Wiretap(w, check_reencode=False)
            ip = ctx['ip'] = Interposer(w, tap)
            rule, _ = byz.make(scenario['byz']['kind'], scenario['byz']['seed'], w, ip, tap, orc.reach)
            ip.rules.append(rule)
        dead_spis = ctx['dead'] = []

        def spiforge(w, op):
            node = w.nodes[op['node']]
            if node.state != 'running' or node.exited:
                return
            rr = random.Random(f'spi:{op["seed"]}')
            to_me = [rec for rec in wire.sent if rec['dst'] in node.udp and rec['h'] is not None]
            if not to_me:
                return
            rec = to_me[-1 - (op['pick'] % min(len(to_me), 10))]
            b = bytearray(rec['data'])
            kind = op['kind']
            if kind == 'swap':
                b[0:8], b[8:16] = rec['data'][8:16], rec['data'][0:8]
            elif kind == 'unknown':
                b[0:8], b[8:16] = bytes(rr.getrandbits(8) for _ in range(8)), bytes(rr.getrandbits(8) for _ in range(8))
            elif kind == 'zero':
                if rr.random() < 0.5:
                    b[8:16] = b'\0' * 8
                else:
                    b[0:8] = b'\0' * 8
            elif kind == 'flagflip':
                b[19] ^= rr.choice([0x08, 0x20, 0x28])
            elif kind == 'one_known':
                if rr.random() < 0.5:
                    b[0:8] = bytes(rr.getrandbits(8) for _ in range(8))
                else:
                    b[8:16] = bytes(rr.getrandbits(8) for _ in range(8))
            elif kind == 'init_odd':
                # an IKE_SA_INIT request the responder must refuse without keeping anything: odd id / flags / SPIr
                inits = [x for x in wire.sent if x['h'] is not None and x['h']['exch'] == 34 and not x['h']['R'] and x['dst'] in node.udp]
                if not inits:
                    return
                rec = inits[-1 - (op['pick'] % min(len(inits), 4))]
                b = bytearray(rec['data'])
                b[0:8] = bytes(rr.getrandbits(8) for _ in range(8))
                what = rr.choice(['id', 'noI', 'spir', 'id+noI'])
                if 'id' in what:
                    b[20:24] = struct.pack('>L', rr.choice([1, 2, 7, 0xFFFFFFFF]))
                if 'noI' in what:
                    b[19] &= ~0x08
                if what == 'spir':
                    b[8:16] = bytes(rr.getrandbits(8) for _ in range(8))
            elif kind == 'init_broken':
                # an IKE_SA_INIT request whose header is fine and whose payload chain is not (cut short, or an unknown payload marked critical):
                # the responder IKE_SA made for it must not stay in the table
                inits = [x for x in wire.sent if x['h'] is not None and x['h']['exch'] == 34 and not x['h']['R'] and x['dst'] in node.udp]
                if not inits:
                    return
                rec = inits[-1 - (op['pick'] % min(len(inits), 4))]
                b = bytearray(rec['data'])
                b[0:8] = bytes(rr.getrandbits(8) for _ in range(8))
                how = rr.choice(['cut', 'cut', 'critical_unknown', 'first_length'])
                if how == 'cut' and len(b) > 40:
                    b = b[:len(b) - rr.randint(1, 9)]
                elif how == 'critical_unknown':
                    b[16] = rr.choice([49, 200, 255])
                    b[29] |= 0x80
                else:
                    b[30:32] = struct.pack('>H', rr.choice([3, 0xFFFF, len(b)]))
                b[24:28] = struct.pack('>L', len(b))
            elif kind == 'replay_dead':
                live = {sa.my_spi for sa in node.ike_sas()}
                old = [x for x in to_me if x['h']['exch'] != 34 and (x['h']['spi_r'] if x['h']['I'] else x['h']['spi_i']) not in live]
                if not old:
                    return
                b = bytearray(old[-1 - (op['pick'] % min(len(old), 6))]['data'])
            orc._r('forge.' + kind)
            w.net.inject(bytes(b), rec['src'], rec['dst'], 0.0, 'spiforge.' + kind)

        def kexpire(w, op):
            node = w.nodes[op['node']]
            if node.state != 'running' or node.exited:
                return
            rr = random.Random(f'kexp:{op["seed"]}')
            kern = node.kernel
            if op['kind'] == 'live':
                keys = sorted(kern.sad)
                if not keys:
                    return
                kern.expire_now(keys[op['pick'] % len(keys)], op['hard'])
                return
            pol = next((p for p in kern.spd), None)
            if pol is None:
                return
            if op['kind'] == 'dead':
                gone = [k for o_, k, _, _ in kern.ledger if o_ == 'del']
                if not gone:
                    return
                spi = gone[op['pick'] % len(gone)][2]
            else:
                spi = bytes(rr.getrandbits(8) for _ in range(4))
            sa = {'sel': pol['sel'], 'daddr_raw': _addr_raw(str(node.addrs[0])), 'spi': spi, 'proto': 50,
                  'saddr_raw': _addr_raw(str(node.addrs[0])), 'lft': pol['lft'], 'add_time': 0, 'reqid': 0,
                  'family': pol['sel']['family'], 'mode': 0, 'replay_window': 0, 'flags': 0}
            kern.raw_event(enc_expire(sa, op['hard']), 'expire_' + op['kind'])
        ctx['handlers'] = {'status': orc.status, 'spiforge': spiforge, 'kexpire': kexpire}
    try:
        w = execute(scenario, setup, ctx)
    finally:
        if 'probe' in ctx:
            ctx['probe'].restore()
    orc = ctx['oracle']
    reach = dict(orc.reach)
    dupd = w.fault_counts.get('net.dup', 0)
    for l in w.logs:
        if 'Retransmission detected' in l[3]:
            reach['dup_rekey_or_delete'] = reach.get('dup_rekey_or_delete', 0) + 1
    forged = sum(v for k, v in reach.items() if k.startswith('forge.'))
    st = workload.base_stats(w, ctx['cov'], {'reach': reach, 'nontrivial': orc.max_table >= 2 and (dupd + forged) > 0})
    st['reach']['max_table'] = orc.max_table
    if scenario.get('seed', 0) % 83 == 0 or w.violations:
        st['sample'] = {'seed': scenario.get('seed'), 'meta': scenario.get('meta'),
                        'ops': [o for o in scenario['ops'] if o['op'] != 'packet'][:14], 'reach': reach}
    res = {'violations': w.violations, 'stats': st, 'digest': w.hexdigest()}
    if w.violations:
        res['scenario'] = replayable(scenario, w)
    if scenario.get('keep_events'):
        res['trace'] = w.events[-300:] + [f'LOG {l}' for l in w.logs[-60:]]
    return res
