"""C03 - unprotected or forged messages cannot affect an IKE_SA that has keys.

PAIR running an ordinary seeded workload (so that every state with keys is visited on both roles); at seeded
instants an off-path forger (addresses, SPIs and message ids known by observation, no keys) injects ONE datagram
at a target IKE_SA; the target node is stepped with only that datagram readable, no timer due and the clock
frozen, and everything an unauthenticated sender must not move is compared before/after."""
import random
import struct

from sim import workload, refike as R
from sim.observe import WireLog, parse_header, snap_node, diff_snap, EXCH
from sim.scenario import execute, replayable
from checks.c08 import timers_due

PROP = 'C03'
LEVEL = 'exploration'
BUDGET = {'quick': {'runs': 1400, 'wall': 50, 'chunk': 10, 'min_wall': 60},
          'thorough': {'runs': 400000, 'wall': 900, 'chunk': 20, 'min_wall': 120}}
RULE = ('one evaluation = one simulated run of two real daemons with 4-25 isolated forged datagrams; non-trivial = at '
        'least 3 forgeries were delivered to an IKE_SA holding keys; distinct = distinct sequence of (event kind, node, '
        'exchange, request/response) over the run; reach counts (state x injection class) cells')
COMPONENTS = {'real': ['ikesa.py', 'ikesacontroller.py (main_loop)', 'message.py', 'crypto.py', 'xfrm.py', 'netlink.py',
                       'configuration.py'], 'stub': ['clock', 'select', 'sockets', 'XFRM kernel model', 'randomness', 'forger']}
ASSUMPTIONS = ['the forger reads SPIs and message ids from the daemon instead of sniffing them (they are cleartext header '
               'fields on the wire)', 'a forged IKE_SA_INIT *request* legitimately creates a new half-open responder IKE_SA; '
               'only pre-existing IKE_SAs are compared for it']
KINDS = ('clear_req', 'clear_res', 'header_only', 'flip', 'trunc', 'extend', 'cross_sa', 'reflect', 'flags', 'clear_init_res')
EXPECT_REACH = ['inj.clear_req', 'inj.clear_res', 'inj.flip', 'inj.trunc', 'inj.cross_sa', 'inj.reflect', 'inj.flags',
                'inj.header_only', 'inj.extend']


def _plausible(r, what, sa):
    """Payload lists a handler would act on if it read the cleartext list."""
    child = sa.child_sas[0] if sa.child_sas else None
    spi4 = child.inbound_spi if child is not None and r.random() < 0.7 else bytes(r.getrandbits(8) for _ in range(4))
    nonce = {'type': R.P_NONCE, 'data': bytes(r.getrandbits(8) for _ in range(32))}
    ike_sa = {'type': R.P_SA, 'proposals': [{'num': 1, 'proto': 1, 'spi': bytes(r.getrandbits(8) for _ in range(8)),
              'transforms': [{'type': 1, 'id': 12, 'keylen': 256}, {'type': 3, 'id': 12}, {'type': 2, 'id': 5}, {'type': 4, 'id': 19}]}]}
    esp_sa = {'type': R.P_SA, 'proposals': [{'num': 1, 'proto': 3, 'spi': bytes(r.getrandbits(8) for _ in range(4)),
              'transforms': [{'type': 1, 'id': 12, 'keylen': 256}, {'type': 3, 'id': 12}, {'type': 5, 'id': 0}]}]}
    ke = {'type': R.P_KE, 'group': 19, 'data': R.dh_public(19, r.getrandbits(128) + 2)}
    fam6 = sa.my_addr.version == 6
    alen = 16 if fam6 else 4
    ts = lambda t: {'type': t, 'selectors': [{'ts_type': 8 if fam6 else 7, 'proto': 0, 'sport': 0, 'eport': 65535,
                                              'saddr': b'\0' * alen, 'eaddr': b'\xff' * alen}]}
    if what == 'delete_ike':
        return 37, [{'type': R.P_DELETE, 'proto': 1, 'spi_size': 0, 'spis': []}]
    if what == 'delete_child':
        return 37, [{'type': R.P_DELETE, 'proto': r.choice([3, 2]), 'spi_size': 4, 'spis': [spi4]}]
    if what == 'dpd':
        return 37, []
    if what == 'rekey_ike':
        return 36, [ike_sa, nonce, ke]
    if what == 'new_child':
        return 36, [ts(R.P_TSi), ts(R.P_TSr), esp_sa, nonce]
    if what == 'rekey_child':
        return 36, [{'type': R.P_NOTIFY, 'proto': 3, 'ntype': R.N_REKEY_SA, 'spi': spi4, 'data': b''}, ts(R.P_TSi), ts(R.P_TSr), esp_sa, nonce]
    if what == 'auth':
        return 35, [{'type': R.P_IDi, 'id_type': 2, 'data': b'mallory'}, {'type': R.P_AUTH, 'method': 2, 'data': b'\0' * 32},
                    esp_sa, ts(R.P_TSi), ts(R.P_TSr)]
    if what == 'error':
        return r.choice([35, 36, 37]), [{'type': R.P_NOTIFY, 'proto': 0, 'ntype': r.choice([1, 4, 4, 5, 7, 9, 11, 14, 17, 24, 34, 35, 36, 37, 38, 39, 40, 41, 43, 44, 45, 16384, 16393]),
                                          'spi': b'', 'data': b'\0\x13' if r.random() < 0.3 else b''}]
    if what == 'unknown_exch':
        return r.choice([33, 38, 99, 0, 255]), []
    if what == 'critical_unknown':
        # a payload of a type nobody knows with the critical bit set (alone, or in front of payloads a handler would act on)
        crit = {'type': r.choice([49, 99, 200, 255]), 'data': bytes(r.getrandbits(8) for _ in range(r.choice([0, 4, 16]))), 'critical': True}
        rest = r.choice([[], [], [{'type': R.P_DELETE, 'proto': 1, 'spi_size': 0, 'spis': []}], [nonce]])
        return r.choice([35, 36, 37]), ([crit] + rest if r.random() < 0.7 else rest + [crit])
    return 37, []


WHATS = ('delete_ike', 'delete_child', 'dpd', 'rekey_ike', 'new_child', 'rekey_child', 'auth', 'error', 'unknown_exch', 'critical_unknown')
ID_DELTAS = (-2, -1, 0, 0, 0, 1, 'zero', 'max')


class Forger:
    def __init__(self, world, wire, ctx):
        self.w, self.wire, self.ctx = world, wire, ctx
        self.reach = {}
        self.delivered = 0

    def _r(self, k):
        self.reach[k] = self.reach.get(k, 0) + 1

    def __call__(self, w, op):
        node = w.nodes[op['node']]
        if node.state != 'running' or node.exited or node.stalled_until > w.now:
            return self._r('skip.node_not_parked')
        if node.has_readable() or any(s.queue for s in node.kernel.event_socks):
            return self._r('skip.other_input_pending')
        if timers_due(node):
            return self._r('skip.timer_due')
        cands = [sa for sa in node.ike_sas() if sa.ike_sa_keyring is not None or getattr(sa, 'peer_crypto', None) is not None or getattr(sa, 'my_crypto', None) is not None]     # (ever derived keys, whichever attribute says so)
        if not cands:
            return self._r('skip.no_sa_with_keys')
        sa = cands[op.get('sa', 0) % len(cands)]
        r = random.Random(f'forge:{op["seed"]}')
        built = self.build(op, r, node, sa)
        if built is None:
            return self._r('skip.no_material.' + op['kind'])
        data, label = built
        if self.wire.is_authentic(data) and op['kind'] not in ('reflect',):
            return self._r('skip.became_authentic')
        peer_addr = str(sa.peer_addr)
        if op.get('seed', 0) % 4 == 0:
            # a forger does not have to spoof the peer's source address: datagrams are routed by SPI, wherever they come from
            peer_addr = '203.0.113.66' if sa.my_addr.version == 4 else '2001:db8::66'
            self._r('inj.from_foreign_address')
        sock = node.udp.get(str(sa.my_addr))
        if sock is None:
            return
        state = sa.state.name
        role = 'initiator' if sa.is_initiator else 'responder'
        pre = snap_node(node, timers=True)
        sent_before = len(self.wire.by_sender.get(node.name, []))
        sock.queue.append((data, (peer_addr, 500)))
        w.net._count('adv.forge.' + op['kind'])
        w.record(('forge', node.name, op['kind'], label))
        w.release(node, ('forged', op['kind']))
        self.delivered += 1
        self._r('inj.' + op['kind'])
        self._r(f'cell.{state}.{op["kind"]}')
        if w.poisoned:
            return
        if node.state != 'running' or node.exited:
            if not w.violations:
                w.violation(PROP, 'daemon_died', {'kind': op['kind'], 'state': state}, f'{node.name} died on a forged {label}: {node.death}')
            w.poisoned = True
            return
        post = snap_node(node, timers=True)
        emitted = self.wire.by_sender.get(node.name, [])[sent_before:]
        h = parse_header(data)
        is_init_req = h is not None and h['exch'] == 34 and not h['R']
        ignore = ('sent',)
        changed = diff_snap(pre, post, ignore=ignore)
        if is_init_req:
            # a new half-open responder IKE_SA may appear; pre-existing IKE_SAs and the kernel must not move
            pre_spis = {s['my_spi'] for s in pre['table']}
            post2 = dict(post, table=[s for s in post['table'] if s['my_spi'] in pre_spis])
            changed = diff_snap(pre, post2, ignore=ignore)
            emitted = [e for e in emitted if e['h'] is None or e['h']['spi_i'] != h['spi_i'] or
                       (e['h']['spi_r'].hex() in pre_spis)]
        sig = {'kind': op['kind'], 'state': state, 'role': role}
        if op['kind'] in ('clear_req', 'clear_res'):
            sig['what'] = op.get('what')
        if changed:
            w.violation(PROP, 'forged_datagram_changed_state', sig,
                        f'{node.name}: forged {label} aimed at IKE_SA {sa.my_spi.hex()} ({role}, {state}) changed: {changed[:8]}')
            w.poisoned = True
        elif emitted:
            w.violation(PROP, 'forged_datagram_elicited_reply', sig,
                        f'{node.name}: forged {label} aimed at IKE_SA {sa.my_spi.hex()} ({role}, {state}) made it send '
                        f'{[(EXCH.get(e["h"]["exch"]), "res" if e["h"]["R"] else "req", e["h"]["id"]) for e in emitted if e["h"]]}')
            w.poisoned = True

    def build(self, op, r, node, sa):
        kind = op['kind']
        spi_i, spi_r = (sa.my_spi, sa.peer_spi) if sa.is_initiator else (sa.peer_spi, sa.my_spi)
        peer_I = not sa.is_initiator

        def mid(base):
            d = op.get('id_delta', 0)
            if d == 'zero':
                return 0
            if d == 'max':
                return 0xFFFFFFFF
            return max(0, min(base + d, 0xFFFFFFFF))
        to_me = [rec for rec in self.wire.sent if rec['dst'] == str(sa.my_addr) and rec['h'] is not None and
                 (rec['h']['spi_i'], rec['h']['spi_r']) == (spi_i, spi_r)]
        by_me = [rec for rec in self.wire.by_sender.get(node.name, []) if rec['h'] is not None and
                 (rec['h']['spi_i'], rec['h']['spi_r']) == (spi_i, spi_r)]
        if kind in ('clear_req', 'clear_res'):
            exch, pls = _plausible(r, op.get('what', 'dpd'), sa)
            is_res = kind == 'clear_res'
            I = peer_I if not op.get('wrong_role') else (not peer_I)
            h = {'spi_i': spi_i, 'spi_r': spi_r, 'exch': exch, 'I': I, 'R': is_res,
                 'id': mid(sa.my_msg_id if is_res else sa.peer_msg_id)}
            return R.encode(h, pls), f'cleartext {EXCH.get(exch, exch)} {"response" if is_res else "request"} id {h["id"]} ({op.get("what")})'
        if kind == 'clear_init_res':
            h = {'spi_i': spi_i, 'spi_r': spi_r, 'exch': 34, 'I': peer_I, 'R': True, 'id': mid(0)}
            pls = [{'type': R.P_NOTIFY, 'proto': 0, 'ntype': r.choice([R.N_COOKIE, R.N_INVALID_KE_PAYLOAD, 14]), 'spi': b'',
                    'data': r.choice([b'\0\x13', bytes(32)])}] if r.random() < 0.7 else []
            return R.encode(h, pls), f'cleartext IKE_SA_INIT response id {h["id"]}'
        if kind == 'header_only':
            is_res = r.random() < 0.5
            m = mid(sa.my_msg_id if is_res else sa.peer_msg_id)
            exch = r.choice([35, 36, 37, 34])
            return R.enc_header(spi_i, spi_r, r.choice([0, 0, 46]), exch, (8 if peer_I else 0) | (32 if is_res else 0), m, 28), \
                f'header-only {EXCH.get(exch)} {"response" if is_res else "request"} id {m}'
        if kind in ('flip', 'trunc', 'extend', 'flags', 'hdr'):
            if not to_me:
                return None
            rec = to_me[-1 - (op.get('pick', 0) % min(len(to_me), 4))]
            b = bytearray(rec['data'])
            if kind == 'hdr':
                # one header field of an authentic datagram set to another meaningful value (the checksum covers the header)
                field = op.get('field', 'exch')
                if field == 'exch':
                    v = op.get('value', 34)
                    if b[18] == v:
                        v = 37 if v != 37 else 36
                    b[18] = v
                elif field == 'version':
                    b[17] = op.get('value', 0x21) & 0xFF if b[17] != (op.get('value', 0x21) & 0xFF) else 0x22
                elif field == 'msgid':
                    b[20:24] = struct.pack('>L', (rec['h']['id'] + op.get('value', 1)) & 0xFFFFFFFF)
                else:
                    b[16] = op.get('value', 0) & 0xFF if b[16] != (op.get('value', 0) & 0xFF) else 41
                lab = f'authentic {EXCH.get(rec["h"]["exch"])} id {rec["h"]["id"]} with header field {field} rewritten to {op.get("value")}'
            elif kind == 'flip':
                pos = op.get('pos', 0) % len(b)
                b[pos] ^= op.get('mask', 1) or 1
                lab = f'authentic {EXCH.get(rec["h"]["exch"])} id {rec["h"]["id"]} with octet {pos} ^ {op.get("mask", 1):#x}'
            elif kind == 'trunc':
                cut = op.get('pos', 0) % len(b)
                b = b[:cut]
                lab = f'authentic {EXCH.get(rec["h"]["exch"])} id {rec["h"]["id"]} truncated to {cut} octets'
            elif kind == 'extend':
                b += bytes(r.getrandbits(8) for _ in range(op.get('len', 4)))
                if op.get('fix_length'):
                    b[24:28] = struct.pack('>L', len(b))
                lab = f'authentic {EXCH.get(rec["h"]["exch"])} id {rec["h"]["id"]} extended'
            else:
                newf = op.get('flags', 0x20) & 0xFF
                if b[19] == newf:
                    newf ^= 0x20
                b[19] = newf
                lab = f'authentic {EXCH.get(rec["h"]["exch"])} id {rec["h"]["id"]} with flags {newf:#x}'
            return bytes(b), lab
        if kind == 'cross_sa':
            others = [rec for rec in self.wire.sent if rec['h'] is not None and rec['h']['exch'] != 34 and
                      (rec['h']['spi_i'], rec['h']['spi_r']) != (spi_i, spi_r)]
            if not others:
                return None
            rec = others[-1 - (op.get('pick', 0) % min(len(others), 6))]
            b = bytearray(rec['data'])
            b[0:8], b[8:16] = spi_i, spi_r
            if op.get('fix_flags', True):
                b[19] = (b[19] & ~0x08) | (0x08 if peer_I else 0)
            if op.get('fix_id'):
                b[20:24] = struct.pack('>L', mid(sa.my_msg_id if b[19] & 0x20 else sa.peer_msg_id))
            return bytes(b), f'{EXCH.get(rec["h"]["exch"])} of another IKE_SA ({rec["h"]["spi_i"].hex()[:8]}) with the target SPIs patched in'
        if kind == 'reflect':
            if not by_me:
                return None
            rec = by_me[-1 - (op.get('pick', 0) % min(len(by_me), 3))]
            b = bytearray(rec['data'])
            if op.get('fix_flags'):
                b[19] ^= 0x08
            return bytes(b), f'its own {EXCH.get(rec["h"]["exch"])} id {rec["h"]["id"]} reflected back' + (' (I flag toggled)' if op.get('fix_flags') else '')
        return None


def generate(seed, tier):
    r = random.Random(f'C03gen:{seed}')
    o = {'conf': {'profile': 'fast', 'entries': 2}, 'faults': [k for k in ('drop', 'delay') if r.random() < 0.25],
         'forced': 4, 'duration': r.choice([20, 40, 70]), 'packets': r.randint(1, 4), 'intensity': 0.6}
    sc = workload.pair_scenario(seed, PROP, o)
    T = sc['until']
    for _ in range(r.randint(4, 25)):
        kind = r.choice(KINDS)
        op = {'t': round(r.uniform(1.05, T), 3), 'op': 'call', 'name': 'forge', 'node': r.choice('AB'), 'kind': kind,
              'sa': r.randrange(4), 'seed': r.randrange(2 ** 31), 'pick': r.randrange(8)}
        if kind in ('clear_req', 'clear_res'):
            op['what'] = r.choice(WHATS)
            op['id_delta'] = r.choice(ID_DELTAS)
            op['wrong_role'] = r.random() < 0.1
        elif kind in ('header_only', 'clear_init_res'):
            op['id_delta'] = r.choice(ID_DELTAS)
        elif kind in ('flip', 'trunc'):
            op['pos'] = r.randrange(0, 2000)
            op['mask'] = 1 << r.randrange(8)
        elif kind == 'extend':
            op['len'] = r.choice([1, 4, 16])
            op['fix_length'] = r.random() < 0.5
        elif kind == 'flags':
            op['flags'] = r.choice([0x00, 0x08, 0x20, 0x28, 0x10, 0x18, 0x30, 0x38])
        elif kind == 'cross_sa':
            op['fix_flags'] = r.random() < 0.8
            op['fix_id'] = r.random() < 0.6
            op['id_delta'] = 0
        elif kind == 'reflect':
            op['fix_flags'] = r.random() < 0.5
        sc['ops'].append(op)
    # bursts right after the handshake and around rekeys are where the interesting states live
    sc['ops'].sort(key=lambda x: x['t'])
    return sc


def run(scenario):
    ctx = {}

    def setup(w, ctx):
        ctx['wire'] = WireLog(w)
        ctx['cov'] = workload.Coverage(w)
        ctx['forger'] = Forger(w, ctx['wire'], ctx)
        ctx['handlers'] = {'forge': ctx['forger']}
    w = execute(scenario, setup, ctx)
    fg = ctx['forger']
    reach = dict(fg.reach)
    st = workload.base_stats(w, ctx['cov'], {'reach': reach, 'nontrivial': fg.delivered >= 3})
    st['foreign'] = {}
    for n in w.nodes.values():
        if n.death and not any(v['class'] == 'daemon_died' for v in w.violations):
            st['foreign']['C17:daemon_died'] = 1
    if scenario.get('seed', 0) % 89 == 0 or w.violations:
        st['sample'] = {'seed': scenario.get('seed'), 'meta': scenario.get('meta'),
                        'forge_ops': [o for o in scenario['ops'] if o.get('name') == 'forge'][:10],
                        'cells': {k: v for k, v in reach.items() if k.startswith('cell.')}}
    res = {'violations': w.violations, 'stats': st, 'digest': w.hexdigest()}
    if w.violations:
        res['scenario'] = replayable(scenario, w)
    if scenario.get('keep_events'):
        res['trace'] = w.events[-300:] + [f'LOG {l}' for l in w.logs[-60:]]
    return res
