"""C13 - retransmission, dead-peer detection and lifetimes are bounded and faithful.

PAIR under the virtual clock with: loss of subsets of the transmissions of each request kind, peer crash at a seeded
syscall or a permanent partition, idle periods longer than DPD, IKE lifetimes elapsing with the peer reachable /
unreachable, node stalls (coarse ticks), clock jumps (separate batch: only the count / bytes / teardown clauses)."""
import random

from sim import workload, configs, seams
from sim.monitors import LedgerInvariant, tracked_kernel_keys
from sim.observe import WireLog, parse_header, local_spi, EXCH, sha
from sim.scenario import execute, replayable

PROP = 'C13'
LEVEL = 'exploration'
BUDGET = {'quick': {'runs': 1300, 'wall': 52, 'chunk': 8, 'min_wall': 60},
          'thorough': {'runs': 300000, 'wall': 1200, 'chunk': 16, 'min_wall': 150}}
RULE = ('one evaluation = one simulated run of two real daemons under the virtual clock; non-trivial = at least one request was '
        'retransmitted or a peer crash / permanent partition was injected or DPD / IKE lifetime fired; distinct = distinct '
        'interleaving signature')
COMPONENTS = {'real': ['ikesa.py timers (check_retransmission_timer, check_dead_peer_detection_timer, check_rekey_ike_sa_timer)',
                       'ikesacontroller.main_loop timer sweep and teardown', 'message.py', 'crypto.py', 'xfrm.py', 'netlink.py'],
              'stub': ['virtual clock (time.time seam)', 'select with 1 s timeout = tick', 'network fates', 'kernel model', 'crash / partition / stall / clock-jump faults']}
ASSUMPTIONS = ['times are read on the acting node clock (virtual now + skew)', 'the retransmission budget and delay are read from '
               'IkeSa.MAX_RETRANSMISSIONS / RETRANSMISSION_DELAY at run time', 'gap monotonicity is judged only in runs without stall or '
               'clock-jump faults', 'DPD / lifetime bounds are judged only for IKE_SAs that were ESTABLISHED for two ticks in a row']
EXPECT_REACH = ['busy_peer_answers', 'retransmissions_seen', 'gave_up_after_budget', 'dpd_started', 'rekey_started', 'crash_bound_checked',
                'init_retry_after_cookie_or_ke', 'answered_requests', 'hard_lifetime_delete']
TICK = 1.0
EPS = 1e-6


class TimerOracle:
    def __init__(self, world, wire, strict_timing):
        self.w, self.wire = world, wire
        self.strict = strict_timing
        IkeSa = seams.M['ikesa'].IkeSa
        self.MAX = IkeSa.MAX_RETRANSMISSIONS
        self.DELAY = IkeSa.RETRANSMISSION_DELAY
        self.budget = sum(i * self.DELAY for i in range(1, self.MAX + 1))
        self.tx = {}            # (node, own spi, id) -> {'first': bytes, 'times': [...], 'answered': bool, 'exch': int, 'gen': n}
        self.sa = {}            # (node, own spi) -> {'created', 'last_rx', 'est_since', 'ticks_est', 'state'}
        self.reach = {}
        self.conf = {n: configs.read_conf(nd['conf']) for n, nd in world.scenario['nodes'].items()}
        self.pending_cur = None
        self.crash = None       # (victim, t) for the crash-bound clause
        self.sent_idx = {}
        self.crash_checked = set()
        self.hard_grace = None
        world.monitors.append(self)

    def _r(self, k, n=1):
        self.reach[k] = self.reach.get(k, 0) + n

    def viol(self, cls, sig, detail):
        self.w.violation(PROP, cls, sig, detail)
        self.w.poisoned = True

    def conn(self, node, sa):
        return self.conf[node.name].get((sa.my_addr, sa.peer_addr))

    def before_step(self, node, cause):
        heads = [s.queue[0][0] for s in node.udp.values() if s.queue] if node.udp else []
        self.pending_cur = (node.name, heads, node.clock())

    def after_step(self, node, cause):
        if self.w.poisoned:
            return
        N = node.name
        now = node.clock()
        name, heads, t_before = self.pending_cur or (None, [], now)
        heads = heads if name == N else []
        running = node.state == 'running' and not node.exited
        tab = {sa.my_spi.hex(): sa for sa in node.ike_sas()} if running else {}
        # ---- deliveries: authentic receipts reset the liveness clock; responses answer requests
        init_res_delivered = set()
        for data in heads:
            h = parse_header(data)
            if h is None or not self.wire.is_authentic(data):
                continue
            own = local_spi(h).hex()
            rec = self.wire.authentic.get(sha(data))
            if rec is not None and rec['sender'] == N:
                continue                       # reflection of its own datagram: not from the peer
            st = self.sa.get((N, own))
            if st is not None and h['exch'] != 34 and st['state'] != '(not registered)':
                st['last_rx'] = now            # IKE_SA_INIT copies are unprotected: nobody can tell they are authentic
            if h['R']:
                key = (N, own, h['id'])
                t = self.tx.get(key)
                if t is not None and not t['answered']:
                    if h['exch'] == 34:
                        init_res_delivered.add(own)
                    else:
                        t['answered'] = True
                        t['answered_at'] = now
                        self._r('answered_requests')
        # ---- emissions of this step
        lst = self.wire.by_sender.get(N, [])
        start = self.sent_idx.get(N, 0)
        self.sent_idx[N] = len(lst)
        for e in lst[start:]:
            h = e['h']
            if h is None or h['R']:
                continue
            own = (h['spi_i'] if h['I'] else h['spi_r']).hex()
            key = (N, own, h['id'])
            t = self.tx.get(key)
            tn = now
            if t is None:
                self.tx[key] = {'first': e['data'], 'times': [tn], 'answered': False, 'exch': h['exch'], 'n': 1}
                if (N, own) in self.sa:
                    self.sa[(N, own)]['req_since'] = tn     # a new request: the retransmission budget starts here
                continue
            sig = {'exchange': EXCH.get(h['exch'], str(h['exch']))}
            if e['data'] != t['first']:
                if h['exch'] == 34 and own in init_res_delivered:
                    # COOKIE / INVALID_KE_PAYLOAD retry: a new request with Message ID 0, the budget starts again
                    self._r('init_retry_after_cookie_or_ke')
                    self.tx[key] = {'first': e['data'], 'times': [tn], 'answered': False, 'exch': 34, 'n': 1}
                    if (N, own) in self.sa:
                        self.sa[(N, own)]['req_since'] = tn
                    continue
                return self.viol('retransmission_differs', sig,
                                 f'{N} re-sent request id {h["id"]} ({sig["exchange"]}) with different octets '
                                 f'({sha(t["first"])} -> {sha(e["data"])}, lengths {len(t["first"])} -> {len(e["data"])})')
            if h['exch'] == 34 and own in init_res_delivered:
                # identical retry is impossible after COOKIE/KE, but a duplicate response may re-trigger: new budget
                self.tx[key] = {'first': e['data'], 'times': [tn], 'answered': False, 'exch': 34, 'n': 1}
                if (N, own) in self.sa:
                    self.sa[(N, own)]['req_since'] = tn
                continue
            self._r('retransmissions_seen')
            if t['answered']:
                return self.viol('retransmitted_after_answer', sig,
                                 f'{N} retransmitted request id {h["id"]} ({sig["exchange"]}) {tn - t["answered_at"]:.2f}s after its '
                                 f'response had been delivered')
            t['times'].append(tn)
            t['n'] += 1
            if t['n'] > self.MAX:
                return self.viol('too_many_transmissions', sig,
                                 f'{N} transmitted request id {h["id"]} ({sig["exchange"]}) {t["n"]} times (budget {self.MAX}) at '
                                 f'{[round(x, 2) for x in t["times"]]}')
            if self.strict and len(t['times']) >= 3:
                g = [b - a for a, b in zip(t['times'], t['times'][1:])]
                if g[-1] < g[-2] - TICK - EPS:
                    return self.viol('retransmission_gaps_shrink', sig,
                                     f'{N} request id {h["id"]} ({sig["exchange"]}) transmitted at {[round(x, 2) for x in t["times"]]}: '
                                     f'gaps {[round(x, 2) for x in g]} are not non-decreasing (one tick of tolerance)')
        if not running:
            return
        # ---- per IKE_SA timers
        stalled = node.stalled_until > self.w.now - 2 * TICK
        for spi, sa in tab.items():
            st = self.sa.get((N, spi))
            state = sa.state.name
            if st is None:
                st = self.sa[(N, spi)] = {'created': now, 'last_rx': now, 'est_since': now if state == 'ESTABLISHED' else None,
                                          'state': state, 'req_since': None, 'ticks_est': 0, 'pushback': None}
            prev = st['state']
            if state == 'ESTABLISHED':
                if prev != 'ESTABLISHED':
                    st['est_since'] = now
                    st['ticks_est'] = 0
                    if prev == 'REK_IKE_SA_REQ_SENT':
                        st['pushback'] = now       # TEMPORARY_FAILURE: retry within 2 s
                else:
                    st['ticks_est'] += 1
            else:
                st['est_since'] = None
            if state.endswith('_REQ_SENT'):
                if st['req_since'] is None:
                    st['req_since'] = now
            else:
                st['req_since'] = None
            nsa = getattr(sa, 'new_ike_sa', None)
            if nsa is not None and (N, nsa.my_spi.hex()) not in self.sa:
                # the successor object exists from the moment the rekey is started (its timers run from here)
                self.sa[(N, nsa.my_spi.hex())] = {'created': now, 'last_rx': now, 'est_since': None, 'state': '(not registered)',
                                                  'req_since': None, 'ticks_est': 0, 'pushback': None}
            conn = self.conn(node, sa)
            if conn and prev != state:
                if state == 'DPD_REQ_SENT':
                    self._r('dpd_started')
                    if self.strict and now - st['last_rx'] < conn['dpd'] - EPS:
                        return self.viol('dpd_started_early', {}, f'{N}: DPD started {now - st["last_rx"]:.2f}s after the last authentic '
                                                                  f'message (interval {conn["dpd"]})')
                if state == 'REK_IKE_SA_REQ_SENT':
                    self._r('rekey_started')
                    if self.strict and st['pushback'] is None and now - st['created'] < conn['lifetime'] - EPS:
                        return self.viol('rekey_started_early', {}, f'{N}: IKE_SA rekey started at age {now - st["created"]:.2f}s '
                                                                    f'(lifetime {conn["lifetime"]})')
                if state == 'DEL_IKE_SA_REQ_SENT' and prev == 'ESTABLISHED':
                    self._r('hard_lifetime_delete')
            st['state'] = state
            if not conn or not self.strict or stalled:
                continue
            # a request must not stay outstanding longer than the whole retransmission budget
            if st['req_since'] is not None and now - st['req_since'] > self.budget + (self.MAX + 2) * TICK:
                return self.viol('request_outstanding_beyond_budget', {'state': state},
                                 f'{N}: IKE_SA {spi} has been in {state} for {now - st["req_since"]:.1f}s (budget {self.budget}s)')
            if state == 'ESTABLISHED' and st['ticks_est'] >= 2:
                idle = now - max(st['last_rx'], st['est_since'])
                if now - st['last_rx'] > conn['dpd'] + 2 * TICK + EPS and now - st['est_since'] > 2 * TICK:
                    return self.viol('dpd_not_started', {}, f'{N}: IKE_SA {spi} ESTABLISHED, nothing authentic for '
                                                            f'{now - st["last_rx"]:.1f}s (interval {conn["dpd"]}) and no probe sent')
                age = now - st['created']
                if st['pushback'] is None and age > conn['lifetime'] + 5 + 2 * TICK + EPS and now - st['est_since'] > 2 * TICK:
                    return self.viol('rekey_not_started', {}, f'{N}: IKE_SA {spi} ESTABLISHED at age {age:.1f}s '
                                                              f'(lifetime {conn["lifetime"]} + 5 s jitter) and no rekey started')
                if st['pushback'] is not None and now - st['pushback'] > 2 + 2 * TICK + EPS and now - st['est_since'] > 2 * TICK:
                    return self.viol('rekey_not_retried', {}, f'{N}: IKE_SA {spi}: rekey pushed back {now - st["pushback"]:.1f}s ago '
                                                              f'and not retried')
        # ---- hard lifetime: an IKE_SA whose rekey never succeeded is deleted 30 s after its lifetime
        if self.hard_grace is not None:
            for spi, sa in tab.items():
                st = self.sa.get((N, spi))
                conn = self.conn(node, sa)
                if st is None or conn is None or sa.state.name not in ('ESTABLISHED', 'REK_IKE_SA_REQ_SENT'):
                    continue
                age = now - st['created']
                if age > conn['lifetime'] + 5 + 30 + self.hard_grace:
                    return self.viol('ike_sa_outlived_hard_lifetime', {'state': sa.state.name},
                                     f'{N}: IKE_SA {spi} is {age:.1f}s old (lifetime {conn["lifetime"]} + 5 s jitter + 30 s), its rekey never '
                                     f'succeeded, and it has neither been deleted nor asked to be ({sa.state.name})')
        # ---- IKE_SAs that vanished: was it a give-up? then its kernel SAs must be gone in the same step
        for (nn, spi), st in list(self.sa.items()):
            if nn == N and spi not in tab and not st.get('gone'):
                st['gone'] = True
                if st['state'].endswith('_REQ_SENT'):
                    self._r('gave_up_after_budget')
        # ---- crash bound
        if self.crash is not None:
            victim, t_c, deadline = self.crash
            if N != victim and self.w.now > deadline and N not in self.crash_checked:
                self.crash_checked.add(N)
                self._r('crash_bound_checked')
                left = node.kernel.ledger_set()
                if left:
                    return self.viol('kernel_sas_survive_dead_peer', {},
                                     f'{N}: peer {victim} unreachable since t={t_c:.1f}; at t={self.w.now:.1f} (bound {deadline:.1f}) the '
                                     f'kernel still holds {len(left)} SAs: {sorted(k[2].hex() for k in left)}; table '
                                     f'{[(s, x.state.name) for s, x in tab.items()]}')


def generate(seed, tier):
    r = random.Random(f'C13gen:{seed}')
    batch = r.choice(['loss', 'loss', 'crash', 'crash', 'idle', 'stall', 'jump', 'busy'])
    conf = {'profile': 'fast', 'entries': 2}
    o = {'conf': conf, 'packets': r.randint(1, 3), 'forced': 2 if batch != 'crash' else 0, 'both_initiate': r.random() < 0.3,
         'forced_kinds': ['expire_soft', 'expire_hard']}
    if batch == 'loss':
        o['faults'] = ['drop'] + [k for k in ('delay', 'dup') if r.random() < 0.3]
        o['intensity'] = r.choice([1.0, 1.5, 2.0])
        o['duration'] = r.choice([30, 60, 100])
    elif batch == 'crash':
        o['faults'] = [k for k in ('drop',) if r.random() < 0.2]
        o['duration'] = 40          # extended below
    elif batch == 'idle':
        o['faults'] = []
        o['duration'] = r.choice([80, 150])
        conf['ike_lifetime'] = r.choice([20, 45, 60])
    elif batch == 'stall':
        o['faults'] = [k for k in ('drop',) if r.random() < 0.5]
        o['stall'] = 1.0
        o['duration'] = 60
    elif batch == 'busy':
        # the peer answers every IKE_SA rekey request with TEMPORARY_FAILURE (a Byzantine but authentic peer, played by the
        # interposer with the session keys), optionally under coarse ticks: the hard lifetime must still delete the IKE_SA
        o['faults'] = []
        o['forced'] = 0
        o['both_initiate'] = False
        conf['ike_lifetime'] = r.choice([8, 12, 20])
        conf['dpd'] = 60
        o['duration'] = conf['ike_lifetime'] + 5 + 30 + 40
    else:
        o['faults'] = [k for k in ('drop',) if r.random() < 0.5]
        o['forced'] = 4
        o['forced_kinds'] = ['jump_rekey', 'jump_dpd', 'expire_soft']
        o['duration'] = 60
    sc = workload.pair_scenario(seed, PROP, o)
    sc['meta']['batch'] = batch
    if batch in ('loss', 'crash') and r.random() < 0.3:
        # one endpoint always demands a cookie (threshold 0 counts the IKE_SA being created): every initial exchange towards it goes through
        # the COOKIE retry, whose retransmissions are under the same clauses
        who = r.choice('AB')
        sc['controller_attrs'] = {who: {'cookie_threshold': 0}}
        sc['meta']['cookie_mode'] = who
    if batch == 'loss' and r.random() < 0.5:
        # a burst in which (almost) everything from one side is lost: exercises whole retransmission ladders
        t0 = round(r.uniform(1.0, sc['until'] * 0.6), 3)
        sc['ops'].append({'t': t0, 'op': 'partition'})
        sc['ops'].append({'t': round(t0 + r.choice([1.5, 3.0, 7.0, 13.0, 19.0, 23.0]), 3), 'op': 'heal'})
    if batch == 'busy':
        sc['busy'] = {'victim': 'A', 'from': 2.0}
        # B must not start its own rekey (it would succeed): give it a long lifetime
        for c in sc['nodes']['B']['conf'].values():
            c['lifetime'] = 10000
        if r.random() < 0.7:
            tick = r.choice([2.2, 3.0, 4.5])
            t = 3.0
            while t < sc['until']:
                sc['ops'].append({'t': round(t, 3), 'op': 'stall', 'node': 'A', 'dur': round(tick - 0.05, 3)})
                t += tick
            sc['busy']['tick'] = tick
    if batch == 'stall':
        for _ in range(r.randint(1, 4)):
            sc['ops'].append({'t': round(r.uniform(1.0, 50), 3), 'op': 'stall', 'node': r.choice('AB'), 'dur': r.choice([1.5, 2.5, 5.0, 9.0])})
    if batch == 'crash':
        ra = next(iter(configs.read_conf(sc['nodes']['A']['conf']).values()))
        victim = r.choice('AB')
        t_c = round(r.uniform(1.02, 25.0), 3)
        how = r.choice(['crash', 'crash_syscall', 'partition'])
        if how == 'partition':
            sc['ops'].append({'t': t_c, 'op': 'partition'})
        elif how == 'crash':
            sc['ops'].append({'t': t_c, 'op': 'crash', 'node': victim, 'k': 0})
        else:
            sc['ops'].append({'t': t_c, 'op': 'crash', 'node': victim, 'k': r.randint(1, 12)})
        dpd_max = max(c['dpd'] for n in 'AB' for c in configs.read_conf(sc['nodes'][n]['conf']).values())
        sc['crash'] = {'victim': victim, 't': t_c, 'how': how, 'dpd_max': dpd_max}
        sc['until'] = t_c + dpd_max + 20 + 3 + 14.0 + 8
        # no new traffic after the crash (it would create fresh negotiations, which is fine, but keeps the run simple)
        sc['ops'] = [o_ for o_ in sc['ops'] if not (o_['op'] in ('packet', 'expire') and o_['t'] > t_c)]
    if batch == 'loss' and sc['meta'].get('auth') == 'psk' and r.random() < 0.3:
        # the peer is the active reference responder (sim/refpeer.py): it answers an IKE_SA rekey whose KE group it does not prefer with
        # INVALID_KE_PAYLOAD and keeps the IKE_SA (a pyikev2 responder closes it), so the retried rekey request - and its loss - is reached
        g = r.sample(['14', '19', '20'], 2)
        sc['nodes']['A']['conf']['to-b']['dh'] = list(g)
        sc['nodes']['B']['conf']['to-a']['dh'] = list(reversed(g))
        sc['nodes']['A']['conf']['to-b']['lifetime'] = r.choice([8, 12, 20])
        sc['controller_attrs'] = {}
        workload.to_refpeer(sc, r, {'invalid_ke_on_ike_rekey': True, 'cookie': False})
        sc['meta']['batch'] = batch
        sc['meta']['refpeer'] = True
    if batch in ('crash', 'idle', 'loss') and r.random() < 0.4 and 'refpeer' not in sc:
        # an off-path sender keeps addressing datagrams to the IKE_SAs it saw on the wire: right SPIs and flags, but nothing in them passes
        # the integrity check (bare header, Encrypted payload cut off, flipped checksum, unknown exchange).  "Nothing authentic has
        # arrived": none of it may postpone the DPD probe, the rekey or the give-up
        every = r.choice([0.45, 0.8, 1.3, 2.0, 2.7])        # also faster than the daemon's 1 s tick
        t = round(r.uniform(1.0, 4.0), 3)
        n = 0
        only = r.choice([None, None, 'flipped', 'short'])      # a steady stream of one kind, or a mix
        target = r.choice(['A', 'B', None])
        while t < sc['until']:
            sc['ops'].append({'t': round(t, 3), 'op': 'call', 'name': 'noise', 'node': target or r.choice('AB'), 'seed': r.randrange(2 ** 31),
                              'kind': only or r.choice(['bare', 'bare', 'stripped', 'flipped', 'odd_exch', 'as_request', 'short'])})
            t += every
            n += 1
        sc['meta']['noise'] = every
    sc['ops'].sort(key=lambda x: x['t'])
    return sc


def run(scenario):
    ctx = {}
    batch = scenario.get('meta', {}).get('batch')
    strict = batch not in ('stall', 'jump') and not any(o['op'] in ('stall', 'clockjump') for o in scenario['ops'])

    def setup(w, ctx):
        wire = ctx['wire'] = WireLog(w)
        ctx['cov'] = workload.Coverage(w)
        orc = ctx['oracle'] = TimerOracle(w, wire, strict)
        if scenario.get('refpeer'):
            peer = ctx['peer'] = workload.attach_refpeer(w, scenario)
            send0 = peer._send

            def send(data, dst):
                # what the reference peer answers is authentic traffic of the peer (the oracle learns "authentic" from the wire log)
                wire.authentic.setdefault(sha(bytes(data)), {'sender': 'R', 't': w.now})
                return send0(data, dst)
            peer._send = send
        if strict:
            orc.hard_grace = orc.budget + 6 * TICK
        busy = scenario.get('busy')
        if busy:
            from sim.wiretap import Wiretap
            from sim.interpose import Interposer
            from sim import refike as R
            tap = ctx['tap'] = Wiretap(w, check_reencode=False)
            ip = ctx['ip'] = Interposer(w, tap)
            orc.hard_grace = orc.budget + 3 * busy.get('tick', 1.0) + 6 * TICK

            def rule(meta, data):
                if meta['sender'] != busy['victim'] or w.now < busy['from']:
                    return None
                opened = ip.open(data)
                if opened is None:
                    return None
                h, pls, s = opened
                sa_p = next((p for p in pls if p['type'] == R.P_SA), None)
                if h['R'] or h['exch'] != R.CREATE_CHILD_SA or sa_p is None or not sa_p['proposals'] or sa_p['proposals'][0]['proto'] != R.PROTO_IKE:
                    return None
                orc._r('busy_peer_answers')
                rr = random.Random(f'busy:{meta["key"]}')
                resp = ip.seal(s, {'spi_i': h['spi_i'], 'spi_r': h['spi_r'], 'exch': R.CREATE_CHILD_SA, 'I': not h['I'], 'R': True, 'id': h['id']},
                               [{'type': R.P_NOTIFY, 'proto': 0, 'ntype': R.N_TEMPORARY_FAILURE, 'spi': b'', 'data': b''}],
                               bytes(rr.getrandbits(8) for _ in range(16)))
                w.net.inject(resp, meta['dst'], meta['src'], 0.02, 'byz.temporary_failure')
                return []            # the request itself never reaches the peer
            rule.label = 'busy_peer'
            ip.rules.append(rule)
        def noise(w, op):
            node = w.nodes[op['node']]
            if node.state != 'running' or node.exited:
                return
            rr = random.Random(f'noise:{op["seed"]}')
            sas = [sa for sa in node.ike_sas() if sa.peer_spi and sa.peer_spi != b'\0' * 8 and sa.my_crypto is not None]
            if not sas:
                return
            sa = sas[rr.randrange(len(sas))]
            spi_i, spi_r = (sa.my_spi, sa.peer_spi) if sa.is_initiator else (sa.peer_spi, sa.my_spi)
            kind = op['kind']
            # what the peer of this IKE_SA would send: its role flag, a plausible Message ID
            flags = 0 if sa.is_initiator else 0x08
            mid = sa.peer_msg_id
            recorded = [x for x in wire.by_sender.get('B' if node.name == 'A' else 'A', []) if x['h'] is not None and x['h']['exch'] != 34
                        and x['h']['spi_i'] == spi_i and x['h']['spi_r'] == spi_r]
            import struct
            if kind in ('stripped', 'flipped') and not recorded:
                kind = 'bare'
            if kind == 'bare':
                d = spi_i + spi_r + bytes([0, 0x20, 37, flags]) + struct.pack('>LL', mid, 28)
            elif kind == 'as_request':
                d = spi_i + spi_r + bytes([0, 0x20, rr.choice([35, 36, 37]), flags]) + struct.pack('>LL', mid, 28)
            elif kind == 'odd_exch':
                d = spi_i + spi_r + bytes([0, 0x20, rr.choice([38, 43, 5, 240]), flags | rr.choice([0, 0x20])]) + struct.pack('>LL', mid, 28)
            elif kind == 'short':
                d = spi_i + spi_r + bytes(rr.getrandbits(8) for _ in range(rr.randrange(0, 11)))
            elif kind == 'stripped':
                x = recorded[-1]['data']
                d = x[:16] + bytes([0]) + x[17:24] + struct.pack('>L', 28)
            else:
                x = bytearray(recorded[-1]['data'])
                x[-1 - rr.randrange(min(12, len(x) - 28))] ^= 1 << rr.randrange(8)
                d = bytes(x)
            orc._r('noise.' + kind)
            src = str(sa.peer_addr)
            w.net.inject(d, src, str(sa.my_addr), 0.0, 'noise.' + kind)
        ctx['handlers'] = {'noise': noise}
        cr = scenario.get('crash')
        # (the clause follows the operation, not the metadata: minimisation may have removed the crash / partition itself)
        if cr and not any(o_['op'] in ('crash', 'partition') and o_['t'] == cr['t'] for o_ in scenario['ops']):
            cr = None
        if cr and strict:
            # every kernel SA shared with the dead peer is gone within DPD + retransmission budget (+ ticks + latency in flight)
            how = cr['how']
            survivor = 'B' if cr['victim'] == 'A' else 'A'
            conn = next(iter(configs.read_conf(scenario['nodes'][survivor]['conf']).values()))
            if how == 'partition':
                # both survive and both must clean up, each after its own DPD interval: the bound is that of the slower one
                other = next(iter(configs.read_conf(scenario['nodes'][cr['victim']]['conf']).values()))
                conn = dict(conn, dpd=max(conn['dpd'], other['dpd']))
            max_lat = max([scenario['fate_policy'].get('lat_range', [0, 0.05])[1]] +
                          ([scenario['fate_policy'].get('long_range', [0, 0])[1]] if scenario['fate_policy'].get('p_long') else []))
            slack_syscalls = 6.0 if how == 'crash_syscall' else 0.0    # the crash happens at the k-th syscall after t
            deadline = cr['t'] + slack_syscalls + conn['dpd'] + orc.budget + (orc.MAX + 3) * TICK + max_lat + 1.0
            if how == 'partition':
                orc.crash = ('-', cr['t'], deadline)      # both survive, both must clean up
            else:
                orc.crash = (cr['victim'], cr['t'], deadline)
    w = execute(scenario, setup, ctx)
    orc = ctx['oracle']
    reach = dict(orc.reach)
    nontrivial = bool(reach.get('retransmissions_seen') or scenario.get('crash') or reach.get('dpd_started') or reach.get('rekey_started'))
    st = workload.base_stats(w, ctx['cov'], {'reach': reach, 'nontrivial': nontrivial})
    st['reach']['batch.' + str(batch)] = 1
    if scenario.get('seed', 0) % 79 == 0 or w.violations:
        st['sample'] = {'seed': scenario.get('seed'), 'meta': scenario.get('meta'), 'crash': scenario.get('crash'),
                        'ops': scenario['ops'][:12], 'reach': reach}
    res = {'violations': w.violations, 'stats': st, 'digest': w.hexdigest()}
    if w.violations:
        res['scenario'] = replayable(scenario, w)
    if scenario.get('keep_events'):
        res['trace'] = w.events[-300:] + [f'LOG {l}' for l in w.logs[-80:]]
    return res
