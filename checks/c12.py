"""C12 - traffic selectors are only ever narrowed and the mode must match.

PAIR over the selector dimension of the configuration swarm: protect entries on the two sides that are equal, nested either
way, overlapping without nesting, disjoint; ip_proto any vs specific; port 0 vs specific; IPv4 and IPv6; 1-3 entries per side in
both orders; mode equal or different - with traffic drawn inside the entries; natural soft expiries give the rekey case.
Selectors are interpreted by the harness as SETS OF PACKETS (family x protocol x port range x address range)."""
import ipaddress
import random

from sim import workload, configs, refike as R
from sim.childcheck import newsa_index, quad, ts_to_kernel, sel_str, ts_cover, kernel_half_vs_cover
from sim.kernel import K, sel_nets
from sim.observe import WireLog
from sim.scenario import execute, replayable
from sim.wiretap import Wiretap, ts_subset, ts_set

PROP = 'C12'
LEVEL = 'exploration'
BUDGET = {'quick': {'runs': 900, 'wall': 52, 'chunk': 8, 'min_wall': 60},
          'thorough': {'runs': 300000, 'wall': 1200, 'chunk': 16, 'min_wall': 150}}
RULE = ('one evaluation = one simulated run over a seeded pair of selector configurations; non-trivial = at least 2 CHILD_SA negotiations '
        '(accepted or refused) were judged; distinct = distinct (relation of the two sides entries, protocol / port pattern, family, mode pair)')
COMPONENTS = {'real': ['message.py (TrafficSelector.is_subset, from_network, get_network, get_port)', 'ikesa.py (_get_ipsec_configuration, rekey '
                       'selector check, mode checks on both roles, initiator check of the response)', 'xfrm.py (selectors given to the kernel)'],
              'stub': ['active reference responder sim/refpeer.py in place of the second daemon (batch refpeer)', 'set-of-packets interpretation of selectors (sim/wiretap.ts_subset)', 'wiretap', 'kernel model', 'independent configuration reader']}
ASSUMPTIONS = ['widened / mode-flipped RESPONSES and non-CIDR or multi-selector OFFERS need an active peer (Byzantine interposer batch)',
               'a refusal is judged only when NO entry of the responder could admit the request in the requested mode']
EXPECT_REACH = ['children_judged', 'rekeys_judged', 'refusals_expected', 'relation.equal', 'relation.a_wider', 'relation.b_wider', 'relation.overlap',
                'relation.disjoint', 'mode_mismatch', 'narrowed_by_responder', 'kernel_selectors_compared', 'family.6']


def ent_ts(e, side):
    """Selector (as a reference-decoded dict) of one side of a protect entry of the independent reading."""
    net, port = (e['my_net'], e['my_port']) if side == 'my' else (e['peer_net'], e['peer_port'])
    alen = 4 if net.version == 4 else 16
    return {'ts_type': 7 if net.version == 4 else 8, 'proto': e['ip_proto'], 'sport': port, 'eport': port or 65535,
            'saddr': int(net.network_address).to_bytes(alen, 'big'), 'eaddr': int(net.broadcast_address).to_bytes(alen, 'big')}


def generate(seed, tier):
    r = random.Random(f'C12gen:{seed}')
    o = {'conf': {'profile': r.choice(['fast', 'mid']), 'entries': 3, 'mode': 'tunnel' if r.random() < 0.7 else None, 'single': True, 'mixed_family': 0.15},
         'both_initiate': r.random() < 0.4, 'packets': r.randint(2, 6), 'duration': r.choice([25, 45]), 'forced': 2, 'forced_kinds': ['expire_soft'],
         'faults': []}
    sc = workload.pair_scenario(seed, PROP, o)
    ca, cb = sc['nodes']['A']['conf']['to-b'], sc['nodes']['B']['conf']['to-a']
    fam = sc['meta']['family']
    if r.random() < 0.12:
        # batch 'nested': both ends list a small entry in front of a larger one that contains it (same mode, protocol, suite); a CHILD_SA for
        # traffic of the larger entry outside the smaller one is created by one end and rekeyed by either end, several times: every policy
        # lookup made for the rekey meets the smaller entry first, and the selectors must stay those of the replaced CHILD_SA
        nets = {4: (('10.1.1.0/24', '10.2.2.0/24'), ('10.1.0.0/16', '10.2.0.0/16')), 6: (('fd00:1:1::/48', 'fd00:2:2::/48'), ('fd00:1::/32', 'fd00:2::/32'))}[fam]
        base_a, base_b = dict(ca['protect'][0]), dict(cb['protect'][0])
        pa, pb_ = [], []
        for i, (na, nb) in enumerate(nets):
            ea, eb = dict(base_a, mode='tunnel', my_subnet=na, peer_subnet=nb, index=301 + i), dict(base_b, mode='tunnel', my_subnet=nb, peer_subnet=na, index=401 + i)
            for e in (ea, eb):
                e['lifetime'] = 600
                for k in ('my_port', 'peer_port'):
                    e.pop(k, None)
                e['ip_proto'] = 'any'
            pa.append(ea)
            pb_.append(eb)
        who = r.choice('AB')
        other = 'B' if who == 'A' else 'A'
        shape = r.choice(['one_side', 'one_side', 'both'])
        if shape == 'one_side':
            # only the end that creates the CHILD_SA lists the small entry (in front); the other end knows the large one only and answers with it,
            # so the CHILD_SA has the large selectors and the creator later meets its small entry first when the peer rekeys
            if who == 'A':
                pb_ = pb_[1:]
            else:
                pa = pa[1:]
        ca['protect'], cb['protect'] = pa, pb_
        ents = next(iter(configs.read_conf(sc['nodes'][who]['conf']).values()))['protect']
        big, small = ents[-1], ents[0]
        for _ in range(20):
            flow = configs.flow_for_entry(r, None, None, big)
            if ipaddress.ip_address(flow['saddr']) not in small['my_net'] or ipaddress.ip_address(flow['daddr']) not in small['peer_net']:
                break
        ops = [op for op in sc['ops'] if op['op'] == 'start']
        ops.append({'t': 1.0, 'op': 'packet', 'node': who, 'flow': flow, 'entry': len(ents) - 1})
        t = 2.5
        for k in range(r.randint(2, 4)):
            ops.append({'t': round(t, 3), 'op': 'expire', 'node': other if k == 0 else r.choice('AB'), 'which': 0, 'dir': r.choice(['in', 'out']), 'hard': 0})
            t += r.choice([1.5, 2.5])
        sc['ops'] = ops
        sc['until'] = sc['quiet_from'] = round(t + 3.0, 3)
        sc['meta']['nested_shape'] = shape
        sc['meta']['relation'] = 'nested'
        return sc
    rel = r.choice(['equal', 'equal', 'a_wider', 'b_wider', 'overlap', 'disjoint', 'mode', 'proto_any', 'port', 'mixed', 'mixed'])
    for pb in cb['protect']:
        if rel == 'mode':
            pb['mode'] = 'transport' if pb.get('mode') == 'tunnel' else 'tunnel'
            if pb['mode'] == 'transport':
                pb.pop('my_subnet', None)
                pb.pop('peer_subnet', None)
            continue
        if rel == 'proto_any':
            pb['ip_proto'] = 'any'
            pb['my_port'] = pb['peer_port'] = 0
            continue
        if rel == 'port':
            pb['my_port'] = r.choice([0, pb.get('my_port', 0), 9])
            continue
        for key in ('my_subnet', 'peer_subnet'):
            if key not in pb:
                continue
            net = ipaddress.ip_network(pb[key])
            maxp = 32 if net.version == 4 else 128
            if rel == 'mixed':
                # no mirror images: B's own side is wider than what A thinks of it, B's view of A's side is narrower than A's own (or the
                # reverse): a request is then wider than the policy on one side and inside it on the other
                widen = (key == 'my_subnet') == (seed % 2 == 0)
                if widen and net.prefixlen > 8:
                    pb[key] = str(net.supernet(new_prefix=max(1, net.prefixlen - r.choice([1, 4, 8]))))
                elif not widen and net.prefixlen < maxp:
                    pb[key] = str(list(net.subnets(new_prefix=min(maxp, net.prefixlen + r.choice([1, 4, 8]))))[r.choice([0, -1])])
            elif rel == 'a_wider' and net.prefixlen < maxp:          # B's entry is narrower than A's
                pb[key] = str(list(net.subnets(new_prefix=min(maxp, net.prefixlen + r.choice([1, 4, 8]))))[r.choice([0, -1])])
            elif rel == 'b_wider' and net.prefixlen > 8:
                pb[key] = str(net.supernet(new_prefix=max(1, net.prefixlen - r.choice([1, 4, 8]))))
            elif rel == 'overlap' and 8 < net.prefixlen < maxp:
                # a network that shares only part of A's: the sibling half of a supernet's other half
                sup = net.supernet(new_prefix=net.prefixlen - 1)
                pb[key] = str(list(sup.subnets(new_prefix=min(maxp, net.prefixlen + 1)))[1])
            elif rel == 'disjoint':
                pb[key] = str(ipaddress.ip_network((int(net.network_address) ^ (1 << (maxp - 3)), net.prefixlen), strict=False))
    sc['meta']['relation'] = rel
    if r.random() < 0.2:
        # the responder is a conforming third party (sim/refpeer.py) with B's (drifted) policy: it narrows to either of the offered selectors
        # or to its own smaller entry, as RFC 7296 2.9 allows, and keeps the selectors on a rekey
        if sc['meta'].get('auth') == 'psk':
            workload.to_refpeer(sc, r)
            return sc
    if r.random() < 0.4:
        from sim import byz
        sc['byz'] = {'kind': r.choice(byz.KINDS_C12), 'seed': r.randrange(2 ** 31)}
        sc['meta']['byz'] = sc['byz']['kind']
        if sc['byz']['kind'] in ('narrow_rekey_response', 'widen_response') and r.random() < 0.6:
            # PFS with preference lists in opposite orders: every CREATE_CHILD_SA goes through an INVALID_KE_PAYLOAD round first, and the
            # answer that is tampered with is the answer to the *retried* request
            g = r.sample(['14', '19', '20'], 2)
            for pa_, pb_ in zip(ca['protect'], cb['protect']):
                pa_['dh'], pb_['dh'] = list(g), list(reversed(g))
            sc['meta']['pfs_retry'] = True
    return sc


def judge(w, tap, scenario, reach):
    V = lambda cls, sig, detail: w.violation(PROP, cls, sig, detail)
    nodes = workload.refpeer_nodes(scenario) if scenario.get('refpeer') else scenario['nodes']
    conf = {n: configs.read_conf(nd['conf']) for n, nd in nodes.items()}

    def conn_of(node, my, peer):
        return conf[node].get((ipaddress.ip_address(my), ipaddress.ip_address(peer)))
    by_spi = {}
    idx = {n: newsa_index(node) for n, node in w.nodes.items()}
    for ch in tap.children:
        if not ch['tsi'] or not ch['tsr']:
            return V('response_without_selectors', {}, 'a successful CHILD_SA response carries no TSi/TSr')
        a, b = ch['tsi'][0], ch['tsr'][0]
        tag = {'kind': 'initial' if ch['initial'] else ('rekey' if ch['rekey_of'] else 'additional')}
        reach['children_judged'] = reach.get('children_judged', 0) + 1
        # 0. a selector whose range ends before it starts denotes no packet: it is inside nothing, such a request or answer is refused
        for nm, t_ in (('TSi', a), ('TSr', b)):
            if t_['saddr'] > t_['eaddr'] or t_['sport'] > t_['eport']:
                return V('inverted_selector_accepted', dict(tag, which=nm, what='addresses' if t_['saddr'] > t_['eaddr'] else 'ports'),
                         f'CHILD_SA {ch["spi_init"].hex()}: negotiated with {nm} {ts_set(t_)}, a range that ends before it starts')
        # 1. contained in what the initiator proposed
        if not any(ts_subset(a, x) for x in ch['tsi_offer']) or not any(ts_subset(b, x) for x in ch['tsr_offer']):
            return V('selectors_not_inside_the_offer', tag, f'CHILD_SA {ch["spi_init"].hex()}: chosen TSi {ts_set(a)} / TSr {ts_set(b)} are not inside the '
                                                            f'offered {[ts_set(x) for x in ch["tsi_offer"]]} / {[ts_set(x) for x in ch["tsr_offer"]]}')
        # 2. contained in an entry of the responder's policy whose mode is the negotiated one
        conn = conn_of(ch['x_resp'], ch['x_resp_addr'], ch['x_init_addr'])
        if conn is not None:
            fits = [e for e in conn['protect'] if ts_subset(a, ent_ts(e, 'peer')) and ts_subset(b, ent_ts(e, 'my'))]
            if not fits:
                return V('selectors_wider_than_responder_policy', tag, f'CHILD_SA {ch["spi_init"].hex()}: chosen TSi {ts_set(a)} / TSr {ts_set(b)} fit no protect '
                                                                       f'entry of {ch["x_resp"]}: {[(str(e["peer_net"]), e["peer_port"], str(e["my_net"]), e["my_port"], e["ip_proto"]) for e in conn["protect"]]}')
            if ch['transport_q'] != ch['transport_r']:
                return V('mode_changed_by_responder', tag, f'request transport={ch["transport_q"]}, response transport={ch["transport_r"]}')
            if not any((e['mode'] == 'transport') == ch['transport_q'] for e in fits):
                return V('mode_differs_from_responder_policy', tag, f'CHILD_SA {ch["spi_init"].hex()} negotiated in '
                                                                    f'{"transport" if ch["transport_q"] else "tunnel"} mode but the responder entries that '
                                                                    f'contain the selectors are {[e["mode"] for e in fits]}')
            off_a = ch['tsi_offer'][-1] if ch['tsi_offer'] else None
            if off_a is not None and ts_set(a) != ts_set(off_a) and ts_subset(a, off_a):
                reach['narrowed_by_responder'] = reach.get('narrowed_by_responder', 0) + 1
        # 3. a rekey keeps the selectors of the replaced CHILD_SA
        per_node = {ch['x_init']: ts_set(a), ch['x_resp']: ts_set(b)}
        if ch['rekey_of']:
            old = by_spi.get(ch['rekey_of'])
            if old is not None:
                reach['rekeys_judged'] = reach.get('rekeys_judged', 0) + 1
                if old != per_node:
                    return V('rekey_changed_the_selectors', {}, f'rekey of CHILD_SA {ch["rekey_of"].hex()}: selectors {per_node}, replaced SA had {old}')
        by_spi[ch['spi_init']] = per_node
        by_spi[ch['spi_resp']] = per_node
        # 4. the kernel selector denotes exactly the negotiated selector (CIDR block x {one port | all ports})
        q = quad(w, ch, idx)
        ka, kb = ts_to_kernel(a), ts_to_kernel(b)
        if q is not None and ka is not None and kb is not None:
            for rec, src, dst, who in ((q[0], ka, kb, 'initiator outbound'), (q[1], ka, kb, 'responder inbound'), (q[2], kb, ka, 'initiator inbound'),
                                       (q[3], kb, ka, 'responder outbound')):
                if rec is None:
                    continue
                sel = rec['decoded']['sa']['sel']
                nets = sel_nets(sel)
                reach['kernel_selectors_compared'] = reach.get('kernel_selectors_compared', 0) + 1
                got = (str(nets[0]), str(nets[1]), sel['sport'], sel['sport_mask'], sel['dport'], sel['dport_mask'], sel['proto']) if nets else None
                # a packet has one protocol and must be admitted by TSi and by TSr: "any" on one side and UDP on the other denotes UDP (the
                # responder may legally pair the general TSi with the specific TSr of a request; survey with relation 'mixed', seed 1000165)
                if src[3] and dst[3] and src[3] != dst[3]:
                    reach['contradictory_ts_protocols'] = reach.get('contradictory_ts_protocols', 0) + 1
                    continue
                want = (str(src[0]), str(dst[0]), src[1], src[2], dst[1], dst[2], src[3] or dst[3])
                if got != want:
                    return V('kernel_selector_not_the_negotiated_one', {'role': who.split()[1]}, f'{who}: kernel selector {sel_str(sel)} but negotiated {want}')
        elif q is not None:
            # ... and for a selector that is a real range (addresses that are no CIDR block, ports first..last) the smallest network that
            # holds it, and never more ports than were negotiated
            ca, cb = ts_cover(a), ts_cover(b)
            for rec, src, dst, who in ((q[0], ca, cb, 'initiator outbound'), (q[1], ca, cb, 'responder inbound'), (q[2], cb, ca, 'initiator inbound'),
                                       (q[3], cb, ca, 'responder outbound')):
                if rec is None:
                    continue
                sel = rec['decoded']['sa']['sel']
                nets = sel_nets(sel)
                if not nets:
                    continue
                reach['kernel_selectors_compared_ranges'] = reach.get('kernel_selectors_compared_ranges', 0) + 1
                bad = kernel_half_vs_cover(nets[0], sel['sport'], sel['sport_mask'], src) or kernel_half_vs_cover(nets[1], sel['dport'], sel['dport_mask'], dst)
                if bad:
                    return V('kernel_selector_not_the_negotiated_one', {'role': who.split()[1], 'field': bad, 'selectors': 'ranges'},
                             f'{who}: kernel selector {sel_str(sel)} for negotiated TSi {ts_set(a)} / TSr {ts_set(b)}: the {bad} is not what these '
                             f'ranges denote (smallest network holding the addresses; all ports only if all were negotiated, else one of the range)')
    # ---- refusals: when no entry of the responder could admit the request in the requested mode, the answer is TS_UNACCEPTABLE
    for m in tap.messages:
        if m['clear'] or not m['h']['R'] or m.get('request') is None or m['h']['exch'] not in (R.IKE_AUTH, R.CREATE_CHILD_SA):
            continue
        q = m['request']
        tsi_q = next((p for p in q['payloads'] if p['type'] == R.P_TSi), None)
        tsr_q = next((p for p in q['payloads'] if p['type'] == R.P_TSr), None)
        if tsi_q is None or tsr_q is None:
            continue
        if any(p['type'] == R.P_NOTIFY and p['ntype'] == R.N_REKEY_SA for p in q['payloads']):
            continue
        conn = conn_of(m['sender'], m['src'], m['dst'])
        if conn is None:
            continue
        transport = any(p['type'] == R.P_NOTIFY and p['ntype'] == R.N_USE_TRANSPORT_MODE for p in q['payloads'])
        admits = False
        for e in conn['protect']:
            if (e['mode'] == 'transport') != transport:
                continue
            for x in tsi_q['selectors']:
                for y in tsr_q['selectors']:
                    ex, ey = ent_ts(e, 'peer'), ent_ts(e, 'my')
                    if (ts_subset(x, ex) and ts_subset(y, ey)) or (ts_subset(ex, x) and ts_subset(ey, y)):
                        admits = True
        errs = [p['ntype'] for p in m['payloads'] if p['type'] == R.P_NOTIFY and p['ntype'] < 16384]
        has_sa = any(p['type'] == R.P_SA for p in m['payloads'])
        if not admits:
            if any(e in (R.N_TEMPORARY_FAILURE, R.N_AUTHENTICATION_FAILED, R.N_INVALID_SYNTAX) for e in errs):
                continue
            reach['refusals_expected'] = reach.get('refusals_expected', 0) + 1
            if has_sa:
                return V('unacceptable_request_accepted', {'transport': transport}, f'{m["sender"]}: no protect entry admits TSi {[ts_set(x) for x in tsi_q["selectors"]]} / '
                                                                                   f'TSr {[ts_set(x) for x in tsr_q["selectors"]]} in {"transport" if transport else "tunnel"} mode, yet a CHILD_SA was created')
            if R.N_TS_UNACCEPTABLE not in errs:
                return V('refusal_not_ts_unacceptable', {'got': str(sorted(errs))}, f'{m["sender"]}: request matching no policy / mode answered with notifies {errs}')
    return None


def run(scenario):
    ctx = {}

    def setup(w, ctx):
        ctx['wire'] = WireLog(w)
        ctx['cov'] = workload.Coverage(w)
        ctx['tap'] = Wiretap(w, check_reencode=False)
        ctx['reach'] = {}
        if scenario.get('refpeer'):
            ctx['peer'] = workload.attach_refpeer(w, scenario)
        if scenario.get('byz'):
            from sim import byz
            from sim.interpose import Interposer
            ip = ctx['ip'] = Interposer(w, ctx['tap'])
            rule, verdict = byz.make(scenario['byz']['kind'], scenario['byz']['seed'], w, ip, ctx['tap'], ctx['reach'])
            ip.rules.append(rule)
            ctx['byz_verdict'] = verdict
            w.established_log = []

            class EstLog:
                def after_step(self, node, cause):
                    for sa in node.ike_sas():
                        if int(sa.state) >= 10 and id(sa) not in seen:
                            seen.add(id(sa))
                            w.established_log.append({'node': node.name, 'spi_i': sa.my_spi if sa.is_initiator else sa.peer_spi,
                                                      'spi_r': sa.peer_spi if sa.is_initiator else sa.my_spi})
            seen = set()
            w.monitors.append(EstLog())

    def at_end(w, ctx):
        if ctx.get('byz_verdict'):
            v = ctx['byz_verdict'](w)
            if v is not None:
                w.violation(PROP, v[0], v[1], v[2])
                return
        if scenario.get('refpeer'):
            peer = ctx['peer']
            ctx['reach']['batch.refpeer'] = 1
            for k_, v_ in peer.counts.items():
                ctx['reach']['refpeer.' + k_] = v_
            ctx['reach']['refpeer.narrow.' + peer.k['narrow']] = 1
            # what the conforming responder granted and the daemon installed: inside the daemon's own offer (the reference peer never widens),
            # equal to the replaced selectors on a rekey, and the kernel selector of both SAs of the daemon denotes exactly the granted selectors
            judge(w, workload.PeerView(peer), scenario, ctx['reach'])
            installed = newsa_index(w.nodes['A'])
            for ch in peer.children:
                q = quad(w, ch, {'A': installed})
                if q is not None and (q[0] is not None) != (q[2] is not None):
                    w.violation(PROP, 'granted_child_sa_half_installed', {}, f'CHILD_SA {ch["spi_init"].hex()}/{ch["spi_resp"].hex()} granted by the reference peer: '
                                f'the daemon installed only its {"outbound" if q[0] is not None else "inbound"} SA')
                    return
            return
        judge(w, ctx['tap'], scenario, ctx['reach'])
    ctx['at_end'] = at_end
    w = execute(scenario, setup, ctx)
    reach = ctx.get('reach', {})
    rel = scenario['meta'].get('relation')
    reach['relation.' + str(rel)] = 1
    if rel == 'mode':
        reach['mode_mismatch'] = 1
    reach['family.%d' % scenario['meta']['family']] = 1
    judged = reach.get('children_judged', 0) + reach.get('refusals_expected', 0)
    st = workload.base_stats(w, ctx['cov'], {'reach': reach, 'nontrivial': judged >= 2})
    import hashlib
    ca, cb = scenario['nodes']['A']['conf']['to-b'], (scenario['refpeer']['conf'] if scenario.get('refpeer') else scenario['nodes']['B']['conf'])['to-a']
    shape = lambda c: [(p.get('my_subnet'), p.get('peer_subnet'), p.get('my_port'), p.get('peer_port'), p.get('ip_proto'), p.get('mode')) for p in c['protect']]
    st['sig'] = hashlib.sha256(repr((shape(ca), shape(cb), rel)).encode()).hexdigest()[:16]
    if scenario.get('seed', 0) % 61 == 0 or w.violations:
        st['sample'] = {'seed': scenario.get('seed'), 'meta': scenario.get('meta'), 'A': shape(ca), 'B': shape(cb), 'reach': reach}
    res = {'violations': w.violations, 'stats': st, 'digest': w.hexdigest()}
    if w.violations:
        res['scenario'] = replayable(scenario, w)
    if scenario.get('keep_events'):
        res['trace'] = w.events[-200:] + [f'LOG {l}' for l in w.logs[-60:]]
    return res
