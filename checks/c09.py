"""C09 - colliding exchanges leave both peers consistent: no crash, no deadlock.

PAIR, fast lifetimes; the seven trigger kinds (acquire, soft / hard expire, IKE_SA rekey, IKE_SA delete, DPD) arise both
naturally and forced at seeded instants on either endpoint, with seeded latencies so that requests cross in every order.
Batch 'fifo': lossless, per-direction FIFO.  Batch 'lossy': loss / duplication / reordering, then a lossless drain."""
import random
import re

from sim import workload, configs
from sim.monitors import Survival
from sim.observe import WireLog, parse_header, EXCH
from sim.scenario import execute, replayable, shared_children

PROP = 'C09'
LEVEL = 'exploration'
BUDGET = {'quick': {'runs': 1300, 'wall': 52, 'chunk': 8, 'min_wall': 60},
          'thorough': {'runs': 300000, 'wall': 1200, 'chunk': 16, 'min_wall': 150}}
RULE = ('one evaluation = one simulated run of two real daemons with natural and forced triggers on both ends; non-trivial = '
        'at least one collision (a request delivered to an IKE_SA that itself has a request outstanding) happened; distinct = '
        'distinct interleaving signature; reach = (local state x incoming exchange) cells')
COMPONENTS = {'real': ['ikesa.py state machine', 'ikesacontroller.py main_loop, process_acquire / process_expire', 'message.py', 'crypto.py',
                       'xfrm.py', 'netlink.py'], 'stub': ['clock', 'select', 'network fates', 'kernel model (ACQUIRE / EXPIRE sources)']}
ASSUMPTIONS = ['collision answers (TEMPORARY_FAILURE / CHILD_SA_NOT_FOUND) are judged per first-time in-window authentic request: receiver state '
               'from a call-through wrapper on IkeSa.process_message, request and reply decoded by the reference with wiretap keys; the RFC 2.25 '
               'SHOULDs for which a normal reply is equally conforming (simultaneous rekey of the same SA) accept either',
               'agreement is judged at calm points later than DPD + retransmission budget after the last fault',
               'a CHILD_SA is compared only if both endpoints tracked it at some common instant (the property carve-out)']
EXPECT_REACH = ['collisions', 'answers.judged', 'calm_points_judged', 'trigger.acquire', 'trigger.expire_soft', 'trigger.expire_hard', 'trigger.rekey_ike',
                'trigger.delete_ike', 'trigger.dpd', 'batch.fifo', 'batch.lossy']
REQ_STATES = ('INIT_REQ_SENT', 'AUTH_REQ_SENT', 'NEW_CHILD_REQ_SENT', 'REK_CHILD_REQ_SENT', 'REK_IKE_SA_REQ_SENT', 'DEL_CHILD_REQ_SENT',
              'DEL_IKE_SA_REQ_SENT', 'DEL_AFTER_REKEY_IKE_SA_REQ_SENT', 'DPD_REQ_SENT')


class CollisionOracle:
    WAIT_MAX = 32.0

    def __init__(self, world, wire, fifo, H):
        self.w, self.wire, self.fifo, self.H = world, wire, fifo, H
        self.reach = {}
        self.ever_shared = set()
        self.calm_after = None
        self.last_calm = None
        self.log_idx = 0
        self.err_idx = 0
        self.judged = 0
        self.waiting = {}
        world.monitors.append(self)

    def _r(self, k, n=1):
        self.reach[k] = self.reach.get(k, 0) + n

    def viol(self, cls, sig, detail):
        self.w.violation(PROP, cls, sig, detail)
        self.w.poisoned = True

    def before_delivery(self, node, data, src, dst, meta):
        h = parse_header(data)
        if h is None or h['R']:
            return
        lspi = h['spi_r'] if h['I'] else h['spi_i']
        for sa in node.ike_sas():
            if sa.my_spi == lspi and sa.state.name in REQ_STATES:
                self._r('collisions')
                self._r(f'collision.{sa.state.name}<{EXCH.get(h["exch"], h["exch"])}')

    def after_step(self, node, cause):
        w = self.w
        if w.poisoned:
            return
        for (sa, ch, sb, chb) in shared_children(w):
            self.ever_shared.add(frozenset((bytes(ch.inbound_spi), bytes(ch.outbound_spi))))
        # ---- internal error paths / refused steps
        for (t, nname, text, where, tb) in w.internal_errors[self.err_idx:]:
            self._r('internal_error_path')
            if 'IkeSaStateError' not in text.split(':')[0]:
                # not a refused step but a handler that crashed (AttributeError, TypeError, KeyError...): never legal, in any batch
                self.err_idx = len(w.internal_errors)
                return self.viol('handler_crashed', {'error': text.split(':')[0].split('.')[-1], 'where': where},
                                 f'{nname}: a message handler raised {text} at {where} on authentic traffic')
            if self.fifo:
                self.err_idx = len(w.internal_errors)
                m = re.search(r'Cannot process an? (\S+) (\S+) when in state (\S+)\.', text)
                sig = {'exchange': m.group(1), 'kind': m.group(2), 'state': m.group(3)} if m else {'where': where, 'error': text.split(':')[0]}
                return self.viol('handler_crashed_or_refused_legal_message', sig,
                                 f'{nname}: lossless FIFO delivery, authentic traffic only, yet a handler ended in the generic '
                                 f'exception path: {text} at {where}')
        self.err_idx = len(w.internal_errors)
        for (t, nname, lvl, msg) in w.logs[self.log_idx:]:
            m = re.search(r'Cannot process an? (\S+) (\S+) when in state (\S+)\.', msg) if self.fifo and lvl >= 40 else None
            if m and m.group(2) == 'response':
                # lossless FIFO, authentic traffic only: the answer to a request of its own finds the IKE_SA in a state that cannot take it -
                # the endpoint left the waiting state by a step the state machine does not have
                self.log_idx = len(w.logs)
                return self.viol('own_response_refused_by_state_machine', {'exchange': m.group(1), 'state': m.group(3)},
                                 f'{nname}: lossless FIFO delivery, authentic traffic only: {msg}')
            if 'Error while processing an event' in msg:
                self._r('event_error_caught_by_loop')
                err = msg.split('Omitting it: ')[-1].split('(')[0]
                if err in ('InvalidSyntax', 'UnsupportedCriticalPayload'):
                    # a datagram that does not verify / parse is dropped: the protocol-error family is how the codec says so
                    # (it happens on authentic traffic too: an IKE_SA_INIT retry race leaves the two ends with different keys)
                    self._r('undecodable_datagram_dropped')
                    continue
                if True:
                    self.log_idx = len(w.logs)
                    return self.viol('exception_escaped_entry_point', {'error': err}, f'{nname}: {msg}')
        self.log_idx = len(w.logs)
        # ---- nobody waits for a response for ever: one outstanding request is given up after the retransmission budget (2+4+6+8 s and a tick)
        seen = set()
        for n in w.nodes.values():
            if n.state != 'running' or n.exited:
                continue
            for sa in n.ike_sas():
                if sa.state.name in REQ_STATES:
                    k = (n.name, n.incarnation, id(sa))
                    seen.add(k)
                    # which request: an IKE_SA_INIT retry after COOKIE / INVALID_KE_PAYLOAD is a new request under the same Message ID and
                    # state, with a retransmission budget of its own (survey with VERIF_SEED=3, seed 3000638)
                    last = next((x['data'] for x in reversed(self.wire.by_sender.get(n.name, [])[-40:]) if x['h'] is not None and not x['h']['R']
                                 and sa.my_spi in (x['h']['spi_i'], x['h']['spi_r']) and x['h']['id'] == sa.my_msg_id), b'')
                    cur = (sa.state.name, sa.my_msg_id, last)
                    old = self.waiting.get(k)
                    if old is None or old[0] != cur:
                        self.waiting[k] = (cur, w.now)
                    elif w.now - old[1] > self.WAIT_MAX and n.stalled_until <= w.now:
                        return self.viol('ike_sa_left_waiting_for_a_response', {'state': sa.state.name},
                                         f'{n.name}: IKE_SA {sa.my_spi.hex()} has been in {sa.state.name} with request {sa.my_msg_id} outstanding for '
                                         f'{w.now - old[1]:.0f}s (retransmission budget is about 21 s)')
        for k in [k for k in self.waiting if k not in seen]:
            del self.waiting[k]
        # ---- no lost wake-up: local triggers are queued only while a request is outstanding and are replayed (or dropped as moot) when the
        #      response arrives; an idle IKE_SA that still holds queued triggers will not look at them before its next own exchange completes
        if node.state == 'running' and not node.exited:
            for sa in node.ike_sas():
                if sa.state.name == 'ESTABLISHED' and sa.pending_events:
                    names = [getattr(e[0], '__name__', '?') for e in sa.pending_events]
                    return self.viol('queued_local_trigger_not_replayed', {'first': names[0]},
                                     f'{node.name}: IKE_SA {sa.my_spi.hex()} is idle (ESTABLISHED) after a {cause[0] if isinstance(cause, tuple) else cause} '
                                     f'step, yet {len(names)} local trigger(s) queued during an earlier exchange are still waiting: {names}')
        # ---- calm points, agreement
        qf = w.scenario.get('quiet_from', 0)
        if w.now < qf + self.H:
            return
        if w.net.in_flight:
            return
        nodes = [n for n in w.nodes.values() if n.state == 'running' and not n.exited]
        if len(nodes) != 2:
            return
        if any(sa.state.name in REQ_STATES for n in nodes for sa in n.ike_sas()):
            return
        self.last_calm = w.now
        self._r('calm_points_judged')
        a, b = w.nodes['A'], w.nodes['B']
        est = {}
        for n in (a, b):
            lst = [((sa.my_spi, sa.peer_spi) if sa.is_initiator else (sa.peer_spi, sa.my_spi)) for sa in n.ike_sas()
                   if sa.state.name == 'ESTABLISHED']
            if len(set(lst)) != len(lst):
                return self.viol('ike_sa_listed_twice', {}, f'{n.name} lists an established IKE_SA twice at the calm point')
            est[n.name] = set(lst)
        if est['A'] != est['B']:
            only_a = sorted(f'{i.hex()}/{r.hex()}' for i, r in est['A'] - est['B'])
            only_b = sorted(f'{i.hex()}/{r.hex()}' for i, r in est['B'] - est['A'])
            tabs = {n.name: [(sa.my_spi.hex(), sa.state.name, len(sa.child_sas)) for sa in n.ike_sas()] for n in (a, b)}
            return self.viol('established_ike_sas_differ_at_quiescence', {},
                             f't={w.now:.1f} ({w.now - qf:.0f}s after the last fault, H={self.H:.0f}): established only at A {only_a}, '
                             f'only at B {only_b}; tables {tabs}')
        for sa in a.ike_sas():
            if sa.state.name != 'ESTABLISHED':
                continue
            sb = next((x for x in b.ike_sas() if x.my_spi == sa.peer_spi and x.peer_spi == sa.my_spi), None)
            if sb is None:
                continue
            ca = {frozenset((bytes(c.inbound_spi), bytes(c.outbound_spi))) for c in sa.child_sas}
            cb = {frozenset((bytes(c.inbound_spi), bytes(c.outbound_spi))) for c in sb.child_sas}
            diff = (ca ^ cb)
            bad = [d for d in diff if d in self.ever_shared]
            # the successor of a CHILD_SA known to both (a rekey that succeeded on the wire) is the outcome of a trigger that concerned a
            # CHILD_SA known to both: it counts, even if one end never got as far as tracking it
            shared_spis = {x for pair in self.ever_shared for x in pair}
            for d in diff:
                if d in self.ever_shared or getattr(self, 'tap', None) is None:
                    continue
                ch = next((c for c in self.tap.children if frozenset((c['spi_init'], c['spi_resp'])) == d), None)
                if ch is not None and ch['rekey_of'] is not None and ch['rekey_of'] in shared_spis and not ch['req'].get('rewritten'):
                    self._r('one_sided_rekey_successor')
                    bad.append(d)
            self._r('children_compared', len(ca | cb))
            if diff and not bad:
                self._r('one_sided_child_never_shared', len(diff))
            if bad:
                return self.viol('child_sas_differ_at_quiescence', {},
                                 f't={w.now:.1f}: IKE_SA {sa.my_spi.hex()}: CHILD_SAs known to both earlier are now one-sided: '
                                 f'{[sorted(x.hex() for x in d) for d in bad]} (A has {len(ca)}, B has {len(cb)})')


class CollisionAnswers:
    """Clause 'collisions are answered as RFC 7296 2.25 requires'.  A call-through wrapper on IkeSa.process_message records the
    receiver's state just before it handles a datagram and the reply it returns; request and reply are then decoded by the
    reference (session keys from the wiretap), never by the daemon's own codec.  Judged for every first-time, in-window,
    authentic CREATE_CHILD_SA / INFORMATIONAL request, in every batch (loss and reordering included)."""
    TF, NOT_FOUND, INVALID_SYNTAX = 43, 44, 7
    NEGOTIATION = {14, 38, 17, 43, 44, 35}       # NO_PROPOSAL_CHOSEN, TS_UNACCEPTABLE, INVALID_KE_PAYLOAD, TEMPORARY_FAILURE, CHILD_SA_NOT_FOUND, NO_ADDITIONAL_SAS

    def __init__(self, world, tap, oracle):
        from sim import seams
        from sim.interpose import Interposer
        self.w, self.tap, self.orc = world, tap, oracle
        self.ip = Interposer(world, tap)          # no rules: used for its open() helper only
        self.IkeSa = seams.M['ikesa'].IkeSa
        self.orig = self.IkeSa.process_message
        self.streak = {}
        # with one-way latency L the two retries (first loop tick after +0.3 s and after +1.7 s) are sent between 1 - L and 1 + L seconds apart, and
        # cross again only if that is less than L: judged for L <= 0.2 s only (survey with VERIF_SEED=9, seed 9000192: L = 0.6 s, where the
        # unchanged tree needs luck again)
        self.apart = bool(world.scenario.get('knobs', {}).get('pushback_apart')) and world.scenario['meta'].get('batch') == 'fifo' and \
            world.scenario['meta'].get('fifo_latency', 1.0) <= 0.2
        me = self

        def process_message(sa, data):
            pre = None
            try:
                pre = me.pre_state(sa, data)
            except Exception:
                pre = None
            out = me.orig(sa, data)
            if pre is not None:
                me.judge(sa, pre, bytes(data), out)
            return out
        self.IkeSa.process_message = process_message

    def restore(self):
        self.IkeSa.process_message = self.orig

    @staticmethod
    def pre_state(sa, data):
        h = parse_header(data)
        if h is None or h['R'] or h['exch'] not in (36, 37) or h['id'] != sa.peer_msg_id or sa.ike_sa_keyring is None:
            return None
        spis = set()
        for c in sa.child_sas:
            spis.add(bytes(c.inbound_spi))
            spis.add(bytes(c.outbound_spi))
        st = sa.state.name
        dele = getattr(sa, 'deleting_child_sa', None) if st == 'DEL_CHILD_REQ_SENT' else None
        rek = getattr(sa, 'rekeying_child_sa', None) if st == 'REK_CHILD_REQ_SENT' else None
        return {'state': st, 'spis': spis, 'h': h,
                'deleting': {bytes(dele.inbound_spi), bytes(dele.outbound_spi)} if dele is not None else set(),
                'rekeying': {bytes(rek.inbound_spi), bytes(rek.outbound_spi)} if rek is not None else set()}

    def judge(self, sa, pre, data, out):
        w = self.w
        if w.poisoned or not out:
            return
        q = self.ip.open(data)
        a = self.ip.open(bytes(out))
        if q is None or a is None:
            self.orc._r('answers.undecoded')
            return
        qh, qpl, _ = q
        ah, apl, _ = a
        if not ah['R'] or ah['id'] != qh['id']:
            return
        from sim import refike as R
        notes = [p['ntype'] for p in apl if p['type'] == R.P_NOTIFY and p['ntype'] < 16384]
        st = pre['state']
        if st in ('INITIAL', 'INIT_RES_SENT', 'INIT_REQ_SENT', 'AUTH_REQ_SENT'):
            # a request overtaking the IKE_AUTH response (reordering / loss): the peer is not authenticated yet, RFC 7296 2.25 does
            # not speak about it and refusing is legitimate
            self.orc._r('answers.before_established')
            return
        sig0 = {'state': st}

        def V(cls, sig, detail):
            self.orc.viol(cls, dict(sig0, **sig), detail)
        self.orc._r('answers.judged')
        if qh['exch'] == 37:
            dels = [p for p in qpl if p['type'] == R.P_DELETE]
            if st in REQ_STATES:
                self.orc._r('answers.informational_in_collision')
            if notes and st not in ('DELETED', 'REKEYED'):
                return V('collision_answered_with_error', {'request': 'INFORMATIONAL', 'notify': notes[0]},
                         f'an authentic in-window INFORMATIONAL request ({"DELETE" if dels else "empty"}) received in state {st} was answered with '
                         f'error notify {notes[0]}')
            return
        sa_p = next((p for p in qpl if p['type'] == R.P_SA), None)
        rk = next((p for p in qpl if p['type'] == R.P_NOTIFY and p['ntype'] == R.N_REKEY_SA), None)
        if sa_p is None or not sa_p['proposals']:
            return
        kind = 'ike_rekey' if sa_p['proposals'][0]['proto'] == R.PROTO_IKE else ('child_rekey' if rk is not None else 'child_create')
        if st in REQ_STATES:
            self.orc._r(f'answers.{kind}_in.{st}')
        only = lambda n: notes == [n]
        if kind in ('child_create', 'child_rekey'):
            busy_ike = st in ('REK_IKE_SA_REQ_SENT', 'DEL_IKE_SA_REQ_SENT')
            unknown = kind == 'child_rekey' and bytes(rk['spi']) not in pre['spis']
            being_deleted = kind == 'child_rekey' and bytes(rk['spi']) in pre['deleting']
            if busy_ike and not (only(self.TF) or (unknown and only(self.NOT_FOUND))):
                return V('collision_not_answered_temporary_failure', {'request': kind},
                         f'a {kind} request received while the IKE_SA is being {"rekeyed" if st.startswith("REK") else "deleted"} ({st}) was answered '
                         f'{notes or "with a normal reply"} instead of TEMPORARY_FAILURE (RFC 7296 2.25.2)')
            if unknown and not busy_ike and not only(self.NOT_FOUND):
                return V('rekey_of_unknown_child_not_answered_child_sa_not_found', {'request': kind},
                         f'a request to rekey CHILD_SA {bytes(rk["spi"]).hex()}, which the receiver does not hold (it holds '
                         f'{sorted(x.hex() for x in pre["spis"])}), was answered {notes or "with a normal reply"} instead of CHILD_SA_NOT_FOUND '
                         f'(RFC 7296 2.25.1)')
            being_rekeyed = kind == 'child_rekey' and bytes(rk['spi']) in pre['rekeying']
            if only(self.TF) and not busy_ike and not being_deleted and not being_rekeyed and not unknown and \
                    st in ('ESTABLISHED', 'NEW_CHILD_REQ_SENT', 'REK_CHILD_REQ_SENT', 'DEL_CHILD_REQ_SENT', 'DPD_REQ_SENT'):
                # RFC 7296 2.25 names the collisions that are answered TEMPORARY_FAILURE; a request that collides with nothing the receiver is
                # doing (its own outstanding exchange concerns another CHILD_SA, or only liveness) gets its normal answer - the requester
                # does not retry, so the refusal silently loses its trigger
                return V('non_colliding_request_refused_temporary_failure', {'request': kind},
                         f'a {kind} request{" for CHILD_SA " + bytes(rk["spi"]).hex() if rk is not None else ""} received in state {st} (own exchange concerns '
                         f'{sorted(x.hex() for x in (pre["deleting"] | pre["rekeying"])) or "no CHILD_SA"}) was answered TEMPORARY_FAILURE although it '
                         f'collides with nothing the receiver is doing')
            if being_deleted and not only(self.TF):
                return V('collision_not_answered_temporary_failure', {'request': 'child_rekey_while_deleting'},
                         f'a request to rekey the CHILD_SA the receiver is deleting was answered {notes or "with a normal reply"} instead of '
                         f'TEMPORARY_FAILURE (RFC 7296 2.25.1)')
        else:
            # liveness of the collision rule for IKE_SA rekeys (both ends answer TEMPORARY_FAILURE and push their retry back by a random
            # time): judged on a symmetric loss-free network with the two random draws forced apart (knob pushback_apart), where a correct
            # endpoint pair resolves the collision at the first retry
            key = bytes(sa.my_spi)
            if st == 'REK_IKE_SA_REQ_SENT' and only(self.TF):
                n = self.streak[key] = self.streak.get(key, 0) + 1
                self.orc._r('answers.ike_rekey_collision_round', 1)
                if n >= 2:
                    self.orc._r('answers.ike_rekey_collision_repeated')
                if n >= 5 and self.apart:
                    return V('ike_rekey_collision_never_resolved', {},
                             f'IKE_SA {key.hex()}: {n} consecutive rounds in which both endpoints started an IKE_SA rekey at the same time and '
                             f'refused each other with TEMPORARY_FAILURE, on a loss-free network with constant latency and the two random '
                             f'push-backs 1.4 s apart: the retries are in lockstep (livelock until the IKE_SA lifetime runs out)')
            else:
                self.streak.pop(key, None)
            if st == 'DEL_IKE_SA_REQ_SENT' and not only(self.TF):
                return V('collision_not_answered_temporary_failure', {'request': kind},
                         f'an IKE_SA rekey request received while closing the IKE_SA was answered {notes or "with a normal reply"} instead of '
                         f'TEMPORARY_FAILURE (RFC 7296 2.25.2)')
        bad = [n for n in notes if n not in self.NEGOTIATION]
        if bad and st in REQ_STATES + ('ESTABLISHED',):
            return V('collision_answered_with_error', {'request': kind, 'notify': bad[0]},
                     f'an authentic in-window {kind} request received in state {st} was answered with error notify {bad[0]} '
                     f'(not one of the negotiation / collision answers)')


def generate(seed, tier):
    r = random.Random(f'C09gen:{seed}')
    fifo = r.random() < 0.5
    o = {'conf': {'profile': 'fast', 'entries': 2, 'dpd': r.choice([3, 5, 8, 15])}, 'both_initiate': r.random() < 0.5,
         'packets': r.randint(1, 4), 'duration': r.choice([30, 50, 80]), 'forced': 0}
    if fifo:
        o['faults'] = []
    else:
        o['faults'] = [k for k in ('drop', 'dup', 'delay', 'reorder') if r.random() < 0.5] or ['drop']
    sc = workload.pair_scenario(seed, PROP, o)
    sc['meta']['batch'] = 'fifo' if fifo else 'lossy'
    if fifo:
        L = r.choice([0.003, 0.01, 0.05, 0.2, 0.6])
        sc['fate_policy'] = {'mode': 'random', 'lat_range': [L, L]}
        sc['meta']['fifo_latency'] = L
        sc['knobs'] = {'pushback_apart': r.random() < 0.6}
    T = sc['until']
    natural = fifo and r.random() < 0.15
    if natural:
        # timers left to themselves (no clock jumps, which make an endpoint probe before it rekeys): one end probes an idle IKE_SA every few
        # seconds, the other rekeys the IKE_SA every few seconds, over a slow link: sooner or later a rekey request meets an outstanding probe
        x, y = r.sample('AB', 2)
        cx, cy = next(iter(sc['nodes'][x]['conf'].values())), next(iter(sc['nodes'][y]['conf'].values()))
        cx['dpd'], cx['lifetime'] = 60, r.choice([6, 8, 11])
        cy['dpd'], cy['lifetime'] = r.choice([3, 4]), 10000
        for c_ in (cx, cy):
            for p_ in c_['protect']:
                p_['lifetime'] = 600
        L = r.choice([0.2, 0.4, 0.6])
        sc['fate_policy'] = {'mode': 'random', 'lat_range': [L, L]}
        sc['meta']['fifo_latency'] = L
        sc['meta']['natural_timers'] = True
    ra = next(iter(configs.read_conf(sc['nodes']['A']['conf']).values()))
    rb = next(iter(configs.read_conf(sc['nodes']['B']['conf']).values()))
    # forced triggers, often in tight pairs on both ends so that they collide
    n_forced = r.randint(2, 8) if not natural else 0
    t = 2.0
    for _ in range(n_forced):
        t = round(r.uniform(2.0, T * 0.9), 3)
        pair = r.random() < 0.6
        same_kind = None
        for who, dt in ((r.choice('AB'), 0.0),) + (((r.choice('AB'), r.choice([0.0, 0.001, 0.004, 0.02, 0.3]))) ,) * pair:
            conn = ra if who == 'A' else rb
            kind = r.choice(['acquire', 'expire_soft', 'expire_hard', 'rekey_ike', 'rekey_ike', 'delete_ike', 'dpd']) if not same_kind else same_kind
            if pair and same_kind is None and r.random() < 0.35:
                same_kind = kind          # both ends pull the same trigger (simultaneous rekey / delete / ...)
            tt = round(t + dt, 4)
            if kind == 'acquire':
                ent = r.randrange(len(conn['protect']))
                sc['ops'].append({'t': tt, 'op': 'packet', 'node': who, 'trig': kind,
                                  'flow': configs.flow_for_entry(r, conn['my_addr'], conn['peer_addr'], conn['protect'][ent])})
            elif kind in ('expire_soft', 'expire_hard'):
                sc['ops'].append({'t': tt, 'op': 'expire', 'node': who, 'which': r.randrange(4), 'dir': r.choice(['in', 'out']),
                                  'hard': int(kind == 'expire_hard'), 'trig': kind})
            elif kind == 'rekey_ike':
                sc['ops'].append({'t': tt, 'op': 'clockjump', 'node': who, 'delta': conn['lifetime'] + 6, 'trig': kind, 'wake': pair})
            elif kind == 'delete_ike':
                sc['ops'].append({'t': tt, 'op': 'clockjump', 'node': who, 'delta': conn['lifetime'] + 36, 'trig': kind, 'wake': pair})
            else:
                sc['ops'].append({'t': tt, 'op': 'clockjump', 'node': who, 'delta': conn['dpd'] + 1, 'trig': kind, 'wake': pair})
    if not fifo and r.random() < 0.35:
        # the answer to a CREATE_CHILD_SA request is held back (or lost: the retransmission fetches the stored answer) while the endpoint
        # that gave it gets a local trigger of its own: its request overtakes its own earlier answer
        sc['late_answer'] = {'fires': r.randint(1, 3), 'how': r.choice(['delay', 'delay', 'drop']), 'lat': r.choice([0.6, 1.2, 1.9]),
                             'trigger': r.choice(['expire_hard', 'expire_hard', 'expire_soft', 'dpd']), 'which': r.randrange(4), 'dir': r.choice(['in', 'out']),
                             'after': r.choice([0.001, 0.05, 0.3])}
    dpd_max = max(ra['dpd'], rb['dpd'])
    H = dpd_max + 20 + 5 + 5
    sc['H'] = H
    sc['quiet_from'] = T
    sc['until'] = T + H + 25
    sc['ops'].sort(key=lambda x: x['t'])
    return sc


def run(scenario):
    ctx = {}
    fifo = scenario['meta'].get('batch') == 'fifo'

    def setup(w, ctx):
        wire = ctx['wire'] = WireLog(w)
        ctx['cov'] = workload.Coverage(w)
        workload.QuietTail(w)
        ctx['surv'] = Survival(w, 'C17')
        ctx['oracle'] = CollisionOracle(w, wire, fifo, scenario['H'])
        from sim.wiretap import Wiretap
        ctx['tap'] = Wiretap(w, check_reencode=False)
        ctx['oracle'].tap = ctx['tap']
        ctx['answers'] = CollisionAnswers(w, ctx['tap'], ctx['oracle'])
        la = scenario.get('late_answer')
        if la:
            from sim.scenario import apply_op

            class LateAnswer:
                n = 0
                seen = set()

                def on_wire(self, meta, data):
                    h = parse_header(data)
                    if h is None or h['exch'] != 36 or not h['R'] or self.n >= la['fires'] or w.now >= scenario['quiet_from']:
                        return
                    k = (meta['sender'], h['spi_i'], h['spi_r'], h['I'], h['id'])
                    if k in self.seen:
                        return
                    self.seen.add(k)
                    last = ctx['tap'].children[-1] if ctx['tap'].children else None
                    rek = last is not None and last['res']['raw'] == bytes(data) and last['rekey_of'] is not None
                    if la['trigger'] != 'dpd' and not rek and la['which'] % 2:
                        return          # half of the scenarios aim at the answers to CHILD_SA rekeys only
                    self.n += 1
                    ctx['oracle']._r('late_answer.fired')
                    w.decisions.explicit[meta['key']] = {'fate': 'drop'} if la['how'] == 'drop' else {'fate': 'deliver', 'lat': [la['lat']]}
                    who = meta['sender']
                    conn = next(iter(configs.read_conf(scenario['nodes'][who]['conf']).values()))
                    if la['trigger'] == 'dpd':
                        op = {'op': 'clockjump', 'node': who, 'delta': conn['dpd'] + 1, 'wake': True}
                    elif rek:
                        # the CHILD_SA whose rekey was just answered expires at the answering end (its kernel counts on its own)
                        node = w.nodes[who]
                        old_spis = {last['rekey_of']}
                        keys = [k_ for k_ in node.kernel.sad if k_[2] in old_spis]
                        pair = next((c for sa in node.ike_sas() for c in sa.child_sas if last['rekey_of'] in (bytes(c.inbound_spi), bytes(c.outbound_spi))), None)
                        if pair is not None and la['dir'] == 'out':
                            keys = [k_ for k_ in node.kernel.sad if k_[2] in (bytes(pair.inbound_spi), bytes(pair.outbound_spi)) and k_[2] not in old_spis] or keys
                        hard = la['trigger'] == 'expire_hard'
                        ctx['oracle']._r('late_answer.rekeyed_child_expires')
                        w.after(la['after'], lambda: keys and node.state == 'running' and node.kernel.expire_now(keys[0], hard), 'late_answer.trigger')
                        return
                    else:
                        op = {'op': 'expire', 'node': who, 'which': la['which'], 'dir': la['dir'], 'hard': int(la['trigger'] == 'expire_hard')}
                    w.after(la['after'], lambda: apply_op(w, op, ctx), 'late_answer.trigger')
            w.net.taps.append(LateAnswer())

    def at_end(w, ctx):
        orc = ctx['oracle']
        if not orc.reach.get('calm_points_judged') and all(n.state == 'running' for n in w.nodes.values()):
            # no violation by itself: with short lifetimes new exchanges keep starting in the tail, and one that loses its peer takes the whole
            # retransmission budget (found by the thorough tier, seed 501016401).  "Left waiting" is judged per IKE_SA above (WAIT_MAX).
            orc._r('no_calm_point_in_tail')
    ctx['at_end'] = at_end
    try:
        w = execute(scenario, setup, ctx)
    finally:
        if ctx.get('answers'):
            ctx['answers'].restore()
    orc = ctx['oracle']
    reach = dict(orc.reach)
    for o in scenario['ops']:
        if o.get('trig'):
            reach['trigger.' + o['trig']] = reach.get('trigger.' + o['trig'], 0) + 1
    reach['batch.' + scenario['meta']['batch']] = 1
    reach.update({'pair:' + k: v for k, v in ctx['cov'].pairs.items()})
    viol = [v for v in w.violations]
    st = workload.base_stats(w, ctx['cov'], {'reach': reach, 'nontrivial': bool(orc.reach.get('collisions'))})
    if scenario.get('seed', 0) % 71 == 0 or viol:
        st['sample'] = {'seed': scenario.get('seed'), 'meta': scenario.get('meta'), 'ops': scenario['ops'][:14],
                        'reach': {k: v for k, v in reach.items() if not k.startswith('pair:')}}
    res = {'violations': viol, 'stats': st, 'digest': w.hexdigest()}
    if viol:
        res['scenario'] = replayable(scenario, w)
    if scenario.get('keep_events'):
        res['trace'] = w.events[-300:] + [f'LOG {l}' for l in w.logs[-80:]]
    return res
