"""C11 - algorithm negotiation never selects anything outside both offers.

PAIR over pairs of connection configurations: independently ordered sub-lists per transform type on each side, pairs with an
empty intersection in exactly one type, different key lengths of the same cipher, PFS on one side only, AH vs ESP - for
IKE_SA_INIT, the CHILD_SA piggy-backed on IKE_AUTH, CREATE_CHILD_SA and both kinds of rekey.  Every SA payload exchange is read
from the wire by the wiretap (also the encrypted ones) and judged by a ten-line reference selection function over the harness'
own reading of the responder's configuration."""
import random

from sim import workload, configs, refike as R
from sim.childcheck import newsa_index, PROTO_NUM
from sim.kernel import K, _addr_raw
from sim.observe import WireLog
from sim.scenario import execute, replayable
from sim.wiretap import Wiretap, ts_subset

PROP = 'C11'
LEVEL = 'exploration'
BUDGET = {'quick': {'runs': 900, 'wall': 52, 'chunk': 8, 'min_wall': 60},
          'thorough': {'runs': 300000, 'wall': 1200, 'chunk': 16, 'min_wall': 150}}
RULE = ('one evaluation = one simulated run over a seeded pair of connection configurations; non-trivial = at least 3 SA-payload '
        'negotiations (IKE or CHILD) were judged; distinct = distinct (both IKE transform lists, both child transform lists, negative '
        'dimension)')
COMPONENTS = {'real': ['message.py (Transform identity, Proposal.intersection / is_subset)', 'ikesa.py (_select_best_sa_proposal, DH group checks, '
                       'response validation, handle_invalid_ke)', 'configuration.py'],
              'stub': ['active reference responder sim/refpeer.py in place of the second daemon (batch refpeer)', 'reference selection function (checks/c11.py ref_select)', 'wiretap (reads offers / choices / notifies from the wire)',
                       'independent configuration reader']}
ASSUMPTIONS = ['multi-proposal offers, foreign responses and never-offered suggested groups need an active peer: exercised by the Byzantine '
               'interposer batch (meta.byz), everything else passively', 'for CHILD_SAs the responder entry is identified by the negotiated '
               'selectors and mode (any entry that admits the result is accepted)']
EXPECT_REACH = ['ike_init_judged', 'child_judged', 'ike_rekey_judged', 'no_proposal_chosen_expected', 'invalid_ke_judged',
                'preference_inversion', 'neg.none', 'neg.ike', 'neg.child', 'multi_valued_lists', 'single_valued_lists']
TYPE_ORDER = (R.T_ENCR, R.T_INTEG, R.T_PRF, R.T_DH, R.T_ESN)


def local_ike(conn):
    i = conn['ike']
    return {R.T_ENCR: list(i['encr']), R.T_INTEG: [(x, None) for x in i['integ']], R.T_PRF: [(x, None) for x in i['prf']],
            R.T_DH: [(x, None) for x in i['dh']]}


def local_child(e, with_dh):
    d = {}
    if e['ipsec_proto'] == 'esp':
        d[R.T_ENCR] = list(e['encr'])
    d[R.T_INTEG] = [(x, None) for x in e['integ']]
    if with_dh and e['dh']:
        d[R.T_DH] = [(x, None) for x in e['dh']]
    d[R.T_ESN] = [(0, None)]
    return d


def ref_select(local, offer, proto):
    """First peer proposal (wire order) in which every transform type of the local policy has a common (type, id, keylen);
    within it, per type, the first LOCAL preference the peer proposal contains."""
    for p in offer:
        if p['proto'] != proto:
            continue
        peer = {(t['type'], t['id'], t['keylen']) for t in p['transforms']}
        chosen = set()
        for ttype, prefs in local.items():
            pick = next(((ttype, i, k) for (i, k) in prefs if (ttype, i, k) in peer), None)
            if pick is None:
                break
            chosen.add(pick)
        else:
            return p['num'], chosen
    return None


def tset(p):
    return {(t['type'], t['id'], t['keylen']) for t in p['transforms']}


def generate(seed, tier):
    r = random.Random(f'C11gen:{seed}')
    neg = r.choice(['none', 'none', 'none', 'ike_encr', 'ike_integ', 'ike_prf', 'ike_dh', 'child_encr', 'child_integ', 'child_dh_oneside', 'child_proto'])
    o = {'conf': {'profile': r.choice(['fast', 'mid']), 'entries': 2, 'single': r.random() < 0.35}, 'both_initiate': r.random() < 0.5,
         'packets': r.randint(2, 5), 'duration': r.choice([25, 45]), 'forced': 3, 'forced_kinds': ['expire_soft', 'jump_rekey'], 'faults': []}
    if r.random() < 0.3:
        # several protect entries with one side in common and suites of their own: whichever entry a negotiation (also a rekey, in either
        # direction) belongs to, the suite comes out of THAT entry's policy
        o['conf'].update({'entries': 3, 'share_side': 0.8, 'single': r.random() < 0.8})
        o['forced'] = 8
        o['forced_kinds'] = ['expire_soft']
        o['packets'] = r.randint(4, 7)         # traffic for every entry, from both ends: their CHILD_SAs are rekeyed by either end
        o['both_initiate'] = True
        o['duration'] = 45
    sc = workload.pair_scenario(seed, PROP, o)
    sc['meta']['share_side'] = bool(o['conf'].get('share_side'))
    ca, cb = sc['nodes']['A']['conf']['to-b'], sc['nodes']['B']['conf']['to-a']

    def disjoint(key, universe, da, db):
        u = list(universe)
        r.shuffle(u)
        k = r.randint(1, len(u) - 1)
        da[key], db[key] = u[:k], u[k:]
    if neg == 'ike_encr':
        ca['encr'], cb['encr'] = (['aes128'], ['aes256']) if r.random() < 0.5 else (['aes256'], ['aes128'])
    elif neg == 'ike_integ':
        disjoint('integ', configs.INTEG, ca, cb)
    elif neg == 'ike_prf':
        disjoint('prf', configs.PRF, ca, cb)
    elif neg == 'ike_dh':
        ca['dh'], cb['dh'] = ['19', '20'], ['21', '14']
    elif neg.startswith('child'):
        for pa in ca['protect']:
            pb = next((x for x in cb['protect'] if x.get('my_port') == pa.get('peer_port') and x.get('peer_port') == pa.get('my_port')
                       and x.get('my_subnet') == pa.get('peer_subnet') and x.get('ip_proto') == pa.get('ip_proto')), None)
            if pb is None:
                continue
            if neg == 'child_encr' and pa.get('ipsec_proto', 'esp') == 'esp':
                pa['encr'], pb['encr'] = ['aes128'], ['aes256']
            elif neg == 'child_integ':
                disjoint('integ', configs.INTEG, pa, pb)
            elif neg == 'child_dh_oneside':
                pa['dh'] = ['19']
                pb.pop('dh', None)
            elif neg == 'child_proto':
                pa['ipsec_proto'], pb['ipsec_proto'] = 'esp', 'ah'
                pa.setdefault('encr', ['aes256'])
                pb.pop('encr', None)
    sc['meta']['neg'] = neg
    if r.random() < 0.15 and sc['meta'].get('auth') == 'psk':
        # the responder is a conforming third party (sim/refpeer.py) that selects by ITS preference order, straight or reversed, among what
        # the daemon offered: the daemon must key the IKE_SA and the CHILD_SAs with exactly the suite the response names
        workload.to_refpeer(sc, r, {'prefer': r.choice(['mine', 'reversed', 'reversed'])})
        return sc
    if r.random() < 0.4:
        from sim import byz
        sc['byz'] = {'kind': r.choice(byz.KINDS_C11), 'seed': r.randrange(2 ** 31)}
        sc['meta']['byz'] = sc['byz']['kind']
        if sc['byz']['kind'] == 'multi_proposal_request' and random.Random(f'C11mp:{seed}').random() < 0.6:
            sc['byz']['opts'] = {'also_ike_auth': True}      # the CHILD_SA offer piggy-backed on IKE_AUTH is rewritten as well
        if sc['byz']['kind'] == 'invalid_ke_cross_offer':
            # IKE_SA and CHILD_SAs (PFS) use different groups; CHILD_SAs expire soon (their rekeys are CREATE_CHILD_SA exchanges with PFS started
            # by the IKE_SA that will later rekey itself), the IKE_SA a little later
            ike_g, pfs_g = r.choice([('14', '19'), ('19', '14'), ('20', '19'), ('14', '15')])
            for c in (ca, cb):
                c['dh'] = [ike_g]
                c['lifetime'] = r.choice([14, 20])
                for p_ in c['protect']:
                    p_['dh'] = [pfs_g]
                    p_['lifetime'] = r.choice([4, 6])
        if sc['byz']['kind'] == 'invalid_ke_never_offered' and r.random() < 0.6:
            # group numbers that collide with identifiers of OTHER transform types are the adversary's best bet (only 14 = sha512 is an
            # implemented group): offer sha512 without offering group 14
            for c in (ca, cb):
                if 'sha512' not in c['integ']:
                    c['integ'] = c['integ'] + ['sha512']
                c['dh'] = [d for d in c['dh'] if str(d) not in ('14', 'modp2048')] or ['19']
    return sc


def judge_installed(w, children, reach):
    """What is installed IS the chosen suite: algorithm and key length of every NEWSA of a negotiated CHILD_SA are those of the proposal in
    the response (the suite actually in use must be in both offers, not only the one announced)."""
    from sim.childcheck import quad, alg
    names = {2: ('hmac(sha1)', 160), 12: ('hmac(sha256)', 256), 14: ('hmac(sha512)', 512)}
    idx = {n: newsa_index(node) for n, node in w.nodes.items()}
    for ch in children:
        q = quad(w, ch, idx)
        if q is None:
            continue
        for who, rec in zip((f'{ch["x_init"]} outbound', f'{ch["x_resp"]} inbound', f'{ch["x_init"]} inbound', f'{ch["x_resp"]} outbound'), q):
            if rec is None:
                continue
            reach['installed_suites_compared'] = reach.get('installed_suites_compared', 0) + 1
            c, a = alg(rec, K['XFRMA_ALG_CRYPT']), alg(rec, K['XFRMA_ALG_AUTH'])
            got = ((c[0], c[1]) if c else None, (a[0], a[1]) if a else None)
            want = (('cbc(aes)', ch['encr_bits']) if ch['proto'] == R.PROTO_ESP else None, names.get(ch['integ']))
            if got != want:
                return ('installed_suite_is_not_the_chosen_one', {'role': who.split()[1], 'which': 'encr' if got[0] != want[0] else 'integ'},
                        f'{who}: CHILD_SA {ch["spi_init"].hex()}/{ch["spi_resp"].hex()} was negotiated as {want} (response proposal) but the SA '
                        f'handed to the kernel uses {got}')
    return None


def judge(w, tap, scenario, reach):
    V = lambda cls, sig, detail: w.violation(PROP, cls, sig, detail)
    conf = {n: configs.read_conf(nd['conf']) for n, nd in scenario['nodes'].items()}
    import ipaddress

    def conn_of(node, my, peer):
        return conf[node].get((ipaddress.ip_address(my), ipaddress.ip_address(peer)))

    def notifies(pls):
        return [p for p in pls if p['type'] == R.P_NOTIFY]

    # ---- IKE_SA_INIT: pair each response with the request it answers (same SPIi; for retries the last request before it)
    reqs = {}
    for m in tap.messages:
        if not m['clear']:
            continue
        h = m['h']
        if not h['R']:
            reqs.setdefault(h['spi_i'], []).append(m)
            continue
        if m.get('rewritten'):
            continue             # a response the interposer fabricated: not the daemon's choice
        cands = [q for q in reqs.get(h['spi_i'], []) if q['t'] <= m['t']]
        if not cands:
            continue
        sa_r = next((p for p in m['payloads'] if p['type'] == R.P_SA), None)
        nts = notifies(m['payloads'])
        conn = conn_of(m['sender'], m['src'], m['dst'])
        if conn is None:
            continue
        local = local_ike(conn)
        # the responder may have answered any of the (re)transmitted variants: accept the verdict of whichever fits
        verdicts = []
        for q in cands:
            sa_q = next((p for p in q['payloads'] if p['type'] == R.P_SA), None)
            ke_q = next((p for p in q['payloads'] if p['type'] == R.P_KE), None)
            if sa_q is None:
                continue
            exp = ref_select(local, sa_q['proposals'], R.PROTO_IKE)
            verdicts.append(_judge_reply(exp, sa_r, nts, ke_q, 'IKE_SA_INIT', cookie_ok=True))
        if verdicts and all(v is not None for v in verdicts):
            cls, sig, detail = verdicts[-1]
            return V(cls, sig, f'{m["sender"]} IKE_SA_INIT response: {detail}')
        if verdicts:
            reach['ike_init_judged'] = reach.get('ike_init_judged', 0) + 1
    # ---- protected exchanges carrying an SA payload
    for m in tap.messages:
        if m['clear'] or not m['h']['R'] or m.get('request') is None:
            continue
        q = m['request']
        sa_q = next((p for p in q['payloads'] if p['type'] == R.P_SA), None)
        if sa_q is None or not sa_q['proposals']:
            continue
        sa_r = next((p for p in m['payloads'] if p['type'] == R.P_SA), None)
        nts = notifies(m['payloads'])
        ke_q = next((p for p in q['payloads'] if p['type'] == R.P_KE), None)
        s = m['session']
        resp_node = m['sender']
        my, peer = m['src'], m['dst']
        conn = conn_of(resp_node, my, peer)
        if conn is None:
            continue
        if sa_q['proposals'][0]['proto'] == R.PROTO_IKE:
            if any(n['ntype'] == R.N_TEMPORARY_FAILURE for n in nts):
                continue
            exp = ref_select(local_ike(conn), sa_q['proposals'], R.PROTO_IKE)
            v = _judge_reply(exp, sa_r, nts, ke_q, 'IKE rekey')
            if v is not None:
                return V(v[0], v[1], f'{resp_node} CREATE_CHILD_SA (IKE_SA rekey) response: {v[2]}')
            reach['ike_rekey_judged'] = reach.get('ike_rekey_judged', 0) + 1
            continue
        # CHILD_SA: which entries of the responder could be meant?  (selectors / mode are C12's business: here any entry whose
        # protocol is offered is a candidate policy, and the reply must be the reference choice for at least one of them)
        initial = m['h']['exch'] == R.IKE_AUTH
        errs = [n['ntype'] for n in nts if n['ntype'] < 16384]
        if any(e in (R.N_TS_UNACCEPTABLE, R.N_TEMPORARY_FAILURE, R.N_CHILD_SA_NOT_FOUND, R.N_AUTHENTICATION_FAILED, R.N_INVALID_SYNTAX) for e in errs):
            continue
        if initial and sa_r is None and not errs:
            continue
        cands = []
        tsi_r = next((p for p in m['payloads'] if p['type'] == R.P_TSi), None)
        tsr_r = next((p for p in m['payloads'] if p['type'] == R.P_TSr), None)
        # (a rekey request names the CHILD_SA and carries its selectors: also when it is refused, only the entries those selectors lie in
        #  can have been the policy)
        is_rekey = any(p['type'] == R.P_NOTIFY and p['ntype'] == R.N_REKEY_SA for p in q['payloads'])
        tsi_q = next((p for p in q['payloads'] if p['type'] == R.P_TSi), None)
        tsr_q = next((p for p in q['payloads'] if p['type'] == R.P_TSr), None)
        by_request = sa_r is None and is_rekey and tsi_q and tsr_q and len(tsi_q['selectors']) == 1 and len(tsr_q['selectors']) == 1
        for e in conn['protect']:
            if by_request or (sa_r is not None and tsi_r and tsr_r and tsi_r['selectors'] and tsr_r['selectors']):
                a, b = (tsi_q['selectors'][0], tsr_q['selectors'][0]) if by_request else (tsi_r['selectors'][0], tsr_r['selectors'][0])
                fam = 4 if a['ts_type'] == 7 else 6
                if e['peer_net'].version != fam:
                    continue
                lo = lambda n: int(n.network_address)
                hi = lambda n: int(n.broadcast_address)
                if not (lo(e['peer_net']) <= int.from_bytes(a['saddr'], 'big') and int.from_bytes(a['eaddr'], 'big') <= hi(e['peer_net']) and
                        lo(e['my_net']) <= int.from_bytes(b['saddr'], 'big') and int.from_bytes(b['eaddr'], 'big') <= hi(e['my_net'])):
                    continue
            cands.append(e)
        if not cands:
            continue
        verdicts = []
        for e in cands:
            proto = R.PROTO_ESP if e['ipsec_proto'] == 'esp' else R.PROTO_AH
            exp = ref_select(local_child(e, with_dh=not initial), sa_q['proposals'], proto)
            verdicts.append(_judge_reply(exp, sa_r, nts, ke_q if not initial else None, 'CHILD_SA'))
        if all(v is not None for v in verdicts):
            v = verdicts[0]
            return V(v[0], dict(v[1], exchange='IKE_AUTH' if initial else 'CREATE_CHILD_SA'),
                     f'{resp_node} {"IKE_AUTH" if initial else "CREATE_CHILD_SA"} response: {v[2]} (offer '
                     f'{[sorted(tset(p)) for p in sa_q["proposals"]]})')
        reach['child_judged'] = reach.get('child_judged', 0) + 1
        if sa_r is None:
            reach['no_proposal_chosen_expected'] = reach.get('no_proposal_chosen_expected', 0) + 1
    # ---- the initiator refuses a response whose proposal is not drawn from its own offer: exactly one transform of every type of the
    #      offered proposal with that number, each among the offered ones (an honest but differently configured responder - PFS on one side
    #      only - sends such responses too, no Byzantine peer needed)
    for ch in tap.children:
        if ch['res'].get('rewritten') or ch['req'].get('rewritten'):
            continue
        c = ch['chosen']
        ctypes = [t['type'] for t in c['transforms']]

        def drawn(p):
            offered = {(t['type'], t['id'], t['keylen']) for t in p['transforms']}
            # (IKE_AUTH carries no KE: a DH transform offered there - pyikev2 does send it, against RFC 7296 3.3.2 - cannot be chosen)
            return (p['proto'] == c['proto'] and p['num'] == c['num'] and sorted(set(ctypes)) == sorted(ctypes)
                    and set(ctypes) == {t['type'] for t in p['transforms'] if not (ch['initial'] and t['type'] == R.T_DH)}
                    and all((t['type'], t['id'], t['keylen']) in offered for t in c['transforms']))
        reach['responses_checked_against_offer'] = reach.get('responses_checked_against_offer', 0) + 1
        if any(drawn(p) for p in ch['offer']):
            continue
        reach['response_not_drawn_from_offer'] = reach.get('response_not_drawn_from_offer', 0) + 1
        node = w.nodes.get(ch['x_init'])
        if node is None:
            continue
        if any(key[2] in (ch['spi_resp'], ch['spi_init']) for key in newsa_index(node)):
            missing = sorted({t['type'] for p in ch['offer'] for t in p['transforms']} - set(ctypes))
            return V('response_not_drawn_from_offer_installed', {'missing_types': str(missing), 'initial': ch['initial']},
                     f'{ch["x_init"]} installed CHILD_SA {ch["spi_init"].hex()}/{ch["spi_resp"].hex()} although the response proposal '
                     f'{sorted(tset(c))} is not drawn from its offer {[sorted(tset(p)) for p in ch["offer"]]} (transform types missing: {missing})')
    # ---- what an endpoint offers for a CHILD_SA is its local policy for those selectors - every transform type the policy requires, all its
    #      algorithms, nothing else -, in every generation of a rekey lineage (the suite chosen can then only come out of both policies)
    import ipaddress as _ip
    from checks.c12 import ent_ts
    for m in tap.messages:
        if m['clear'] or m['h']['R'] or m['h']['exch'] not in (R.IKE_AUTH, R.CREATE_CHILD_SA) or m.get('rewritten') or scenario.get('byz'):
            continue
        sa_p = next((p for p in m['payloads'] if p['type'] == R.P_SA), None)
        tsi = next((p for p in m['payloads'] if p['type'] == R.P_TSi), None)
        tsr = next((p for p in m['payloads'] if p['type'] == R.P_TSr), None)
        if sa_p is None or tsi is None or tsr is None or not sa_p['proposals'] or sa_p['proposals'][0]['proto'] == R.PROTO_IKE:
            continue
        try:
            conn = configs.read_conf(scenario['nodes'][m['sender']]['conf']).get((_ip.ip_address(m['src']), _ip.ip_address(m['dst'])))
        except Exception:
            conn = None
        if conn is None:
            continue
        transport = any(p['type'] == R.P_NOTIFY and p['ntype'] == R.N_USE_TRANSPORT_MODE for p in m['payloads'])
        inside = [e for e in conn['protect'] if (e['mode'] == 'transport') == transport and all(ts_subset(x, ent_ts(e, 'my')) for x in tsi['selectors'])
                  and all(ts_subset(y, ent_ts(e, 'peer')) for y in tsr['selectors'])]
        if not inside:
            continue

        def suite_of(e, with_dh):
            t = {(1, i, k) for (i, k) in e['encr']} | {(3, i, None) for i in e['integ']} | {(5, 0, None)}
            if with_dh:
                t |= {(4, i, None) for i in e['dh']}
            return (R.PROTO_ESP if e['ipsec_proto'] == 'esp' else R.PROTO_AH), t
        pr = sa_p['proposals'][0]
        got = (pr['proto'], {(t['type'], t['id'], t['keylen']) for t in pr['transforms']})
        reach['offers_judged'] = reach.get('offers_judged', 0) + 1
        if len(sa_p['proposals']) != 1 or not any(got == suite_of(e, d) for e in inside for d in ((True, False) if m['h']['exch'] == R.IKE_AUTH else (True,))):
            rekey = any(p['type'] == R.P_NOTIFY and p['ntype'] == R.N_REKEY_SA for p in m['payloads'])
            return V('offer_is_not_the_local_policy', {'exchange': 'IKE_AUTH' if m['h']['exch'] == R.IKE_AUTH else 'CREATE_CHILD_SA', 'rekey': rekey},
                     f'{m["sender"]} offered protocol {got[0]} with transforms {sorted(got[1], key=str)} for selectors of a protect entry whose suite is '
                     f'{[(suite_of(e, True)[0], sorted(suite_of(e, True)[1], key=str)) for e in inside][:2]}')
    if not scenario.get('byz'):
        v = judge_installed(w, tap.children, reach)
        if v is not None:
            return V(*v)
    # ---- a refused negotiation installs nothing: every NEWSA belongs to a negotiation the wiretap saw succeed
    ok_spis = {c['spi_init'] for c in tap.children} | {c['spi_resp'] for c in tap.children}
    if not any(s.opaque for s in tap.sessions.values()):
        for n in w.nodes.values():
            for key in newsa_index(n):
                if key[2] not in ok_spis:
                    return V('sa_installed_without_successful_negotiation', {}, f'{n.name} installed an SA with SPI {key[2].hex()} that belongs to no '
                                                                                f'negotiation that succeeded on the wire')
    return None


def _judge_reply(exp, sa_r, nts, ke_q, what, cookie_ok=False):
    """None if the reply is what the reference selection prescribes, else (class, signature, detail)."""
    types = [n['ntype'] for n in nts]
    if cookie_ok and R.N_COOKIE in types:
        return None
    if exp is None:
        if sa_r is not None:
            return ('proposal_chosen_outside_both_offers', {'what': what}, f'no offered proposal is acceptable to the local policy, yet {sorted(tset(sa_r["proposals"][0]))} was chosen')
        if R.N_NO_PROPOSAL_CHOSEN not in types:
            return ('refusal_not_no_proposal_chosen', {'what': what, 'got': str(sorted(types))}, f'no acceptable proposal: expected NO_PROPOSAL_CHOSEN, got notifies {types}')
        return None
    num, chosen = exp
    want_group = next((i for (t, i, k) in chosen if t == R.T_DH), None)
    if want_group is not None and ke_q is not None and ke_q['group'] != want_group:
        inv = [n for n in nts if n['ntype'] == R.N_INVALID_KE_PAYLOAD]
        if sa_r is not None:
            return ('wrong_ke_group_accepted', {'what': what}, f'KE in group {ke_q["group"]} but the chosen group is {want_group}, and an SA was returned')
        if not inv or inv[0]['data'] != want_group.to_bytes(2, 'big'):
            return ('invalid_ke_payload_wrong', {'what': what}, f'KE in group {ke_q["group"]}, chosen group {want_group}: expected INVALID_KE_PAYLOAD '
                                                                f'with data {want_group.to_bytes(2, "big").hex()}, got {[(n["ntype"], n["data"].hex()) for n in nts]}')
        return None
    if sa_r is None:
        return ('acceptable_offer_refused', {'what': what, 'got': str(sorted(types))}, f'the reference selects proposal #{num} {sorted(chosen)} but the '
                                                                                       f'reply carries no SA (notifies {types})')
    if len(sa_r['proposals']) != 1:
        return ('reply_has_several_proposals', {'what': what}, f'{len(sa_r["proposals"])} proposals in the reply')
    got = sa_r['proposals'][0]
    got_list = [(t['type'], t['id'], t['keylen']) for t in got['transforms']]
    if set(got_list) != chosen or len(got_list) != len(chosen):
        kinds = 'extra_or_missing' if {t for t, _, _ in got_list} != {t for t, _, _ in chosen} else 'not_first_local_preference'
        return ('chosen_suite_differs_from_reference_selection', {'what': what, 'kind': kinds},
                f'reply chose {sorted(got_list)}, the reference selection (first acceptable peer proposal, local preference order) is {sorted(chosen)}')
    if got['num'] != num:
        return ('reply_proposal_number_wrong', {'what': what}, f'reply proposal #{got["num"]}, the chosen peer proposal is #{num}')
    return None


def run(scenario):
    ctx = {}

    def setup(w, ctx):
        ctx['wire'] = WireLog(w)
        ctx['cov'] = workload.Coverage(w)
        ctx['tap'] = Wiretap(w, check_reencode=False)
        ctx['reach'] = {}
        if scenario.get('refpeer'):
            ctx['peer'] = workload.attach_refpeer(w, scenario)
        if scenario.get('byz'):
            from sim import byz
            from sim.interpose import Interposer
            ip = ctx['ip'] = Interposer(w, ctx['tap'])
            rule, verdict = byz.make(scenario['byz']['kind'], scenario['byz']['seed'], w, ip, ctx['tap'], ctx['reach'], scenario['byz'].get('opts'))
            ip.rules.append(rule)
            ctx['byz_verdict'] = verdict
            w.established_log = []

            class EstLog:
                def after_step(self, node, cause):
                    for sa in node.ike_sas():
                        if int(sa.state) >= 10 and id(sa) not in seen:
                            seen.add(id(sa))
                            w.established_log.append({'node': node.name, 'spi_i': sa.my_spi if sa.is_initiator else sa.peer_spi,
                                                      'spi_r': sa.peer_spi if sa.is_initiator else sa.my_spi})
            seen = set()
            w.monitors.append(EstLog())

    def at_end(w, ctx):
        if ctx.get('byz_verdict'):
            v = ctx['byz_verdict'](w)
            if v is not None:
                w.violation(PROP, v[0], v[1], v[2])
                return
        if scenario.get('refpeer'):
            peer, reach = ctx['peer'], ctx['reach']
            reach['batch.refpeer'] = 1
            for k_, v_ in peer.counts.items():
                reach['refpeer.' + k_] = v_
            reach['refpeer.prefer.' + peer.k['prefer']] = 1
            for p in peer.problems:
                if p['kind'] == 'cannot_open_protected_message':
                    return w.violation(PROP, 'traffic_not_under_the_chosen_suite', {'generation': p['sig'].get('generation'), 'why': p['sig'].get('why')},
                                       'the reference responder chose (its own preference order) a suite out of the daemon\'s offer, and cannot open what '
                                       'the daemon sends next under the keys of that suite: ' + p['detail'])
            v = judge_installed(w, peer.children, reach)
            if v is not None:
                w.violation(PROP, *v)
            return
        judge(w, ctx['tap'], scenario, ctx['reach'])
    ctx['at_end'] = at_end
    w = execute(scenario, setup, ctx)
    reach = ctx.get('reach', {})
    neg = scenario['meta'].get('neg', 'none')
    reach['neg.' + ('none' if neg == 'none' else neg.split('_')[0])] = 1
    ca, cb = scenario['nodes']['A']['conf']['to-b'], (scenario['refpeer']['conf'] if scenario.get('refpeer') else scenario['nodes']['B']['conf'])['to-a']
    multi = any(len(c.get(k, [])) > 1 for c in (ca, cb) for k in ('encr', 'integ', 'prf', 'dh'))
    reach['multi_valued_lists' if multi else 'single_valued_lists'] = 1
    for k in ('encr', 'integ', 'prf', 'dh'):
        la, lb = [str(x) for x in ca.get(k, [])], [str(x) for x in cb.get(k, [])]
        common = [x for x in la if x in lb]
        if len(common) >= 2 and [x for x in lb if x in la] != common:
            reach['preference_inversion'] = 1
    for l in w.logs:
        if 'Invalid DH group used' in l[3]:
            reach['invalid_ke_judged'] = reach.get('invalid_ke_judged', 0) + 1
    judged = reach.get('ike_init_judged', 0) + reach.get('child_judged', 0) + reach.get('ike_rekey_judged', 0) + reach.get('installed_suites_compared', 0) * bool(scenario.get('refpeer'))
    st = workload.base_stats(w, ctx['cov'], {'reach': reach, 'nontrivial': judged >= 3})
    import hashlib
    st['sig'] = hashlib.sha256(repr((configs.suite_signature(scenario['nodes']['A']['conf']), configs.suite_signature((scenario.get('refpeer') or scenario['nodes'].get('B'))['conf']),
                                     [(p.get('encr'), p.get('integ'), p.get('dh'), p.get('ipsec_proto')) for p in ca['protect']],
                                     [(p.get('encr'), p.get('integ'), p.get('dh'), p.get('ipsec_proto')) for p in cb['protect']], neg)).encode()).hexdigest()[:16]
    if scenario.get('seed', 0) % 61 == 0 or w.violations:
        st['sample'] = {'seed': scenario.get('seed'), 'meta': scenario.get('meta'),
                        'A': {k: ca.get(k) for k in ('encr', 'integ', 'prf', 'dh')}, 'B': {k: cb.get(k) for k in ('encr', 'integ', 'prf', 'dh')},
                        'reach': reach}
    res = {'violations': w.violations, 'stats': st, 'digest': w.hexdigest()}
    if w.violations:
        res['scenario'] = replayable(scenario, w)
    if scenario.get('keep_events'):
        res['trace'] = w.events[-200:] + [f'LOG {l}' for l in w.logs[-60:]]
    return res
