"""C10 - the kernel SAD always equals the CHILD_SAs the daemon tracks.

PAIR histories (negotiation paths, collisions, losses, timeouts, error replies, forced expiries, clock jumps) with the
invariant evaluated after every processed event, plus kernel refusals injected at individual netlink requests.
Thorough tier additionally enumerates, for sampled histories, an errno at each netlink request in turn."""
import copy
import random

from sim import workload
from sim.monitors import LedgerInvariant
from sim.observe import WireLog
from sim.scenario import execute, replayable

PROP = 'C10'
LEVEL = 'exploration'
BUDGET = {'quick': {'runs': 1500, 'wall': 50, 'chunk': 10, 'min_wall': 60},
          'thorough': {'runs': 300000, 'wall': 1200, 'chunk': 16, 'min_wall': 150}}
RULE = ('one evaluation = one simulated run of two real daemons, invariant "ledger == tracked CHILD_SAs" checked after every '
        'processed event of either node; non-trivial = the invariant was checked at least 20 times with a non-empty SAD and '
        'at least one fault (network or kernel refusal) fired; distinct = distinct interleaving signature')
COMPONENTS = {'real': ['ikesa.py', 'ikesacontroller.py (main_loop)', 'xfrm.py', 'netlink.py', 'message.py', 'crypto.py', 'configuration.py'],
              'stub': ['XFRM kernel model (SAD/ledger, errno injection)', 'clock', 'select', 'sockets', 'randomness']}
ASSUMPTIONS = ['tracked CHILD_SAs are read from the daemon (IkeSaController.ike_sas[*].child_sas), the kernel side from the model '
               'ledger (acknowledged NEWSA minus DELSA/FLUSHSA; DELSA answered ESRCH counts as deleted)']
EXPECT_REACH = ['invariant_checks_nonempty', 'kern.err', 'clock.jump', 'byz.bad_reply', 'rekey_ike_handover', 'child_deleted', 'child_rekeyed', 'ike_sa_removed_with_children']


def generate(seed, tier):
    r = random.Random(f'C10gen:{seed}')
    o = {'conf': {'profile': 'fast', 'entries': 3}, 'forced': 5, 'partition': 0.15, 'stall': 0.1,
         'duration': r.choice([25, 50, 90]), 'packets': r.randint(1, 5)}
    sc = workload.pair_scenario(seed, PROP, o)
    T = sc['until']
    if r.random() < 0.6:
        for _ in range(r.randint(1, 4)):
            sc['ops'].append({'t': round(r.uniform(0.95, T), 3), 'op': 'kerr', 'node': r.choice('AB'), 'nth': r.randint(1, 5),
                              'errno': r.choice(['ENOMEM', 'EINVAL', 'EEXIST', 'ESRCH', 'ENOBUFS'])})
    if r.random() < 0.15:
        who = r.choice('AB')
        t0 = round(r.uniform(2, T * 0.7), 3)
        sc['ops'].append({'t': t0, 'op': 'crash', 'node': who, 'k': r.randint(0, 6)})
        sc['ops'].append({'t': round(t0 + r.choice([0.5, 3, 15]), 3), 'op': 'restart', 'node': who})
    if r.random() < 0.15:
        # the wall clock steps (NTP): backwards delays every timer, forwards fires them all at once
        for _ in range(r.randint(1, 3)):
            sc['ops'].append({'t': round(r.uniform(1.5, T), 3), 'op': 'clockjump', 'node': r.choice('AB'),
                              'delta': r.choice([-1.0, -30.0, -300.0, 2.5, 40.0, 400.0])})
    if r.random() < 0.2:
        # netlink transport faults (ENOBUFS on send: the request never reaches the kernel; or the request is carried out and its
        # acknowledgement is lost): not refusals - whatever the daemon concludes, kernel and tables end up in step
        for _ in range(r.randint(1, 3)):
            sc['ops'].append({'t': round(r.uniform(0.95, T), 3), 'op': 'knlfail', 'node': r.choice('AB'), 'nth': r.randint(1, 4),
                              'how': r.choice(['send', 'send', 'recv'])})
        sc['meta']['knlfail'] = True
    if r.random() < 0.3:
        # copies of datagrams the legitimate peer sent (protected ones, bare headers with the right SPIs) arrive from an address nobody lives
        # at: the IKE_SA and its kernel SAs stay bound to the addresses they were set up between
        for _ in range(r.randint(1, 4)):
            sc['ops'].append({'t': round(r.uniform(1.5, T), 3), 'op': 'call', 'name': 'stray_source', 'node': r.choice('AB'), 'pick': r.randrange(1000),
                              'bare': r.random() < 0.4})
        sc['meta']['stray_source'] = True
    sc['ops'].sort(key=lambda x: x['t'])
    if r.random() < 0.25:
        # Byzantine peer batch: replies a conforming peer may send but this implementation never does, and defective replies
        sc['byz'] = {'kind': r.choice(['bad_reply', 'bad_reply', 'auth_malformed', 'reuse_spi_request', 'delete_child_on_rekeyed', 'delete_child_on_rekeyed', 'delete_other_spi', 'delete_other_spi']),
                     'seed': r.randrange(2 ** 31)}
        sc['meta']['byz'] = sc['byz']['kind']
        if sc['byz']['kind'] == 'delete_child_on_rekeyed':
            for nd in sc['nodes'].values():
                for c in nd['conf'].values():
                    c['lifetime'] = r.choice([6, 8, 12])          # IKE_SA rekeys are what this peer waits for
    if tier == 'thorough' and seed % 10 == 0:
        sc['enumerate_kerr'] = 12
    return sc


def _run_once(scenario):
    ctx = {}

    def setup(w, ctx):
        ctx['wire'] = WireLog(w)
        ctx['cov'] = workload.Coverage(w)
        ctx['inv'] = LedgerInvariant(w, PROP)
        _byz(w, ctx, scenario)

    w = execute(scenario, setup, ctx)
    return w, ctx


def _byz(w, ctx, scenario):
    ctx['byz_reach'] = {}

    def stray_source(w, op):
        node = w.nodes[op['node']]
        if node.state != 'running' or node.exited:
            return
        mine = [str(a) for a in node.addrs]
        recs = [x for x in ctx['wire'].sent if x['dst'] in mine and x['h'] is not None and x['h']['exch'] != 34 and x['sender'] != node.name]
        if not recs:
            return
        rec = recs[-1 - (op['pick'] % min(len(recs), 6))]
        data = rec['data'][:16] + bytes([0]) + rec['data'][17:24] + (28).to_bytes(4, 'big') if op.get('bare') else rec['data']
        src = '10.0.0.9' if ':' not in rec['dst'] else 'fd00::9'
        ctx['byz_reach']['stray_source'] = ctx['byz_reach'].get('stray_source', 0) + 1
        w.net.inject(data, src, rec['dst'], 0.0, 'stray_source')
    ctx['handlers'] = {'stray_source': stray_source}

    if scenario.get('byz'):
        from sim import byz
        from sim.interpose import Interposer
        from sim.wiretap import Wiretap
        tap = ctx['tap'] = Wiretap(w, check_reencode=False)
        ip = ctx['ip'] = Interposer(w, tap)
        rule, _ = byz.make(scenario['byz']['kind'], scenario['byz']['seed'], w, ip, tap, ctx['byz_reach'])
        ip.rules.append(rule)


def run(scenario):
    w, ctx = _run_once(scenario)
    inv = ctx['inv']
    reach = {'invariant_checks': inv.checks, 'invariant_checks_nonempty': inv.nonempty}
    for l in w.logs:
        m = l[3]
        if 'created by rekey' in m:
            reach['rekey_ike_handover'] = reach.get('rekey_ike_handover', 0) + 1
        elif 'Removing CHILD_SA' in m:
            reach['child_deleted'] = reach.get('child_deleted', 0) + 1
        elif 'Created CHILD_SA' in m:
            reach['child_created'] = reach.get('child_created', 0) + 1
        elif 'Deleted IKE_SA' in m:
            reach['ike_sa_removed'] = reach.get('ike_sa_removed', 0) + 1
        elif 'REKEY_SA' in m and 'Sent CREATE_CHILD_SA response' in m:
            reach['child_rekeyed'] = reach.get('child_rekeyed', 0) + 1
    for n in w.nodes.values():
        dels = [x for x in n.kernel.ledger if x[0] == 'del']
        if dels and reach.get('ike_sa_removed'):
            reach['ike_sa_removed_with_children'] = 1
    for k, v in w.fault_counts.items():
        if k.startswith('kern.err'):
            reach['kern.err'] = reach.get('kern.err', 0) + v
    reach.update(ctx.get('byz_reach', {}))
    if w.fault_counts.get('clock.jump'):
        reach['clock.jump'] = w.fault_counts['clock.jump']
    violations = list(w.violations)
    enum_runs = 0
    if scenario.get('enumerate_kerr') and not violations:
        # fault enumeration within this sampled history: an errno at each netlink request (after start-up) in turn
        for name in ('A', 'B'):
            n_req = w.nodes[name].kernel.req_no
            start_reqs = 2 + 3 * sum(len(c['protect']) for c in scenario['nodes'][name]['conf'].values())
            idxs = list(range(start_reqs + 1, n_req + 1))[:scenario['enumerate_kerr']]
            for i in idxs:
                for errno in ('ENOMEM',):
                    sc2 = copy.deepcopy(scenario)
                    sc2.pop('enumerate_kerr')
                    sc2['ops'] = [o for o in sc2['ops'] if o['op'] != 'kerr']
                    sc2.setdefault('kernel_inject', {}).setdefault(name, {})[str(i)] = errno
                    w2, ctx2 = _run_once_inject(sc2)
                    enum_runs += 1
                    if w2.violations:
                        violations = list(w2.violations)
                        scenario = sc2
                        w = w2
                        break
                if violations:
                    break
            if violations:
                break
    reach['enumerated_kerr_runs'] = enum_runs
    faults = sum(v for k, v in w.fault_counts.items() if k.startswith(('net.', 'kern.err', 'node.')))
    st = workload.base_stats(w, ctx['cov'], {'reach': reach, 'nontrivial': inv.nonempty >= 20 and faults > 0})
    if scenario.get('seed', 0) % 97 == 0 or violations:
        st['sample'] = {'seed': scenario.get('seed'), 'meta': scenario.get('meta'), 'ops': scenario['ops'][:14],
                        'reach': reach, 'fault_counts': w.fault_counts}
    res = {'violations': violations, 'stats': st, 'digest': w.hexdigest()}
    if violations:
        res['scenario'] = replayable(scenario, w)
    if scenario.get('keep_events'):
        res['trace'] = w.events[-300:] + [f'LOG {l}' for l in w.logs[-60:]]
    return res


def _run_once_inject(scenario):
    from sim.scenario import ERRNOS
    ctx = {}

    def setup(w, ctx):
        ctx['wire'] = WireLog(w)
        ctx['cov'] = workload.Coverage(w)
        ctx['inv'] = LedgerInvariant(w, PROP)
        _byz(w, ctx, scenario)
        for name, m in scenario.get('kernel_inject', {}).items():
            for i, e in m.items():
                w.nodes[name].kernel.inject[int(i)] = ERRNOS[e]
    w = execute(scenario, setup, ctx)
    return w, ctx
