"""C17 - no datagram, kernel event or send failure can stop or wedge the daemon.

World: D (node B, under test) serves the legitimate peer P (node A, real daemon, initiator) while a hostile
source throws datagrams at D in every state of the D-P session; legit traffic is corrupted in flight; D's kernel
delivers odd events and refuses requests; sendto fails.  Line-budget tracer on (a wedged loop becomes a verdict)."""
import copy
import random

from sim import workload, hostile, configs
from sim.kernel import K, enc_acquire, enc_expire, enc_nlmsg, _addr_raw
from sim.monitors import Survival, Wedge, data_plane_probe
from sim.observe import WireLog, parse_header
from sim.scenario import execute, replayable
from checks.c08 import timers_due

PROP = 'C17'
LEVEL = 'exploration'
BUDGET = {'quick': {'runs': 700, 'wall': 55, 'chunk': 6, 'min_wall': 60},
          'thorough': {'runs': 200000, 'wall': 1200, 'chunk': 12, 'min_wall': 150}}
RULE = ('one evaluation = one simulated run: real daemon D serving real daemon P while hostile datagrams, corrupted '
        'legit traffic, odd kernel events, netlink refusals and sendto failures hit D; non-trivial = at least 3 hostile '
        'events reached D while it held an IKE_SA; distinct = distinct sequence of (event kind, node, exchange, req/resp)')
COMPONENTS = {'real': ['ikesacontroller.main_loop (real thread per node)', 'ikesa.py', 'message.py', 'crypto.py', 'xfrm.py',
                       'netlink.py', 'configuration.py'],
              'stub': ['clock', 'select', 'sockets', 'XFRM kernel model', 'randomness', 'hostile source (generator)', 'Byzantine interposer + reference codec/key schedule (sim/byz.py, sim/refike.py)']}
ASSUMPTIONS = ['bounded time = interpreted-line budget 20000 + 250 per received octet per loop iteration',
               'authenticated-but-malformed input is produced by an interposer that re-makes the protected messages of the two daemons with the '
               'session keys the wiretap derived (sim/byz.py auth_malformed); it stops at the start of the fault-free tail',
               '"keeps serving": (a) a restarted peer obtains a working CHILD_SA in the fault-free tail (differential against the run without '
               'hostile input), (b) no run of 6 idle timer ticks that all end in the loop catch-all with the same error (event_loop_wedged)']
EXPECT_REACH = ['hostile_delivered', 'hostile_while_sa', 'kernel_oddity', 'sendto_failure', 'receive_failure', 'netlink_refusal',
                'probe_served', 'byz.auth_malformed', 'byz.auth_malformed.request', 'byz.auth_malformed.response']
NOT_EXERCISED = []
PROBE_EVERY = 11.0
QUIET = 95.0


def generate(seed, tier):
    r = random.Random(f'C17gen:{seed}')
    o = {'conf': {'profile': r.choice(['fast', 'mid']), 'entries': 2}, 'both_initiate': False,
         'faults': [k for k in ('corrupt', 'drop') if r.random() < 0.5], 'duration': r.choice([15, 30, 60]),
         'packets': r.randint(1, 3), 'quiet_tail': QUIET, 'intensity': 0.7}
    sc = workload.pair_scenario(seed, PROP, o)
    sc['trace_lines'] = True
    T = sc['quiet_from']
    # D = node B gets a second configured connection (peer Q: nobody lives there; the hostile source may spoof it)
    fam = sc['meta']['family']
    q_addr = '10.0.0.3' if fam == 4 else 'fd00::3'
    cb = sc['nodes']['B']['conf']
    base = copy.deepcopy(cb['to-a'])
    base['peer_addr'] = q_addr
    base['protect'] = [{'index': 900, 'mode': 'transport', 'ip_proto': 'tcp', 'peer_port': 7}]
    cb['to-q'] = base
    sc['meta']['q_addr'] = q_addr
    ops = sc['ops']
    for _ in range(r.randint(3, 14)):
        op = hostile.random_op(r, round(r.uniform(0.3, T), 3), 'B')
        if op['kind'] in ('vendor_bin', 'init_existing_spi'):
            op['spoof'] = 'q' if r.random() < 0.6 else False
        ops.append(op)
    if r.random() < 0.5:
        # well-formed but unexpected: copies of authentic datagrams D has already received (requests and responses of the legitimate peer),
        # played to it again later
        for _ in range(r.randint(1, 5)):
            ops.append({'t': round(r.uniform(1.5, T), 3), 'op': 'call', 'name': 'hostile', 'node': 'B', 'kind': 'replay', 'pick': r.randrange(1000),
                        'seed': r.randrange(2 ** 31)})
    for _ in range(r.randint(0, 4)):
        ops.append({'t': round(r.uniform(0.3, T), 3), 'op': 'call', 'name': 'kodd', 'node': 'B',
                    'kind': r.choice(['unknown_type', 'truncated', 'acquire_unknown_peer', 'acquire_unknown_index',
                                      'expire_unknown_spi', 'zeros', 'done']), 'seed': r.randrange(2 ** 31)})
    for _ in range(r.randint(0, 3)):
        ops.append({'t': round(r.uniform(0.3, T), 3), 'op': 'sendfail', 'node': 'B', 'nth': r.randint(1, 4),
                    'exc': r.choice(['oserror', 'gaierror', 'eperm'])})
    if r.random() < 0.2:
        ops.append({'t': round(r.uniform(0.3, T), 3), 'op': 'clockjump', 'node': 'B', 'delta': r.choice([-1.0, -60.0, -3600.0, 90.0, 3600.0])})
    for _ in range(r.randint(0, 2)):
        ops.append({'t': round(r.uniform(0.3, T), 3), 'op': 'recvfail', 'node': 'B', 'sock': r.choice(['udp', 'udp', 'nl']),
                    'exc': r.choice(['refused', 'noroute'])})
    for _ in range(r.randint(0, 3)):
        ops.append({'t': round(r.uniform(0.3, T), 3), 'op': 'kerr', 'node': 'B', 'nth': r.randint(1, 6),
                    'errno': r.choice(['ENOMEM', 'EINVAL', 'EEXIST', 'ESRCH', 'ENOBUFS'])})
    # liveness in the quiet tail: P is restarted (fresh incarnation, kernel flushed by its start-up) and its kernel
    # keeps seeing traffic for entry 0, so D has to serve a brand-new negotiation after the hostile input stopped
    pk = next(o_ for o_ in ops if o_['op'] == 'packet')
    ops.append({'t': round(T + 0.2, 3), 'op': 'crash', 'node': 'A', 'k': 0})
    ops.append({'t': round(T + 0.7, 3), 'op': 'restart', 'node': 'A'})
    tt = T + 1.5
    while tt < T + QUIET - 2:
        ops.append({'t': round(tt, 3), 'op': 'call', 'name': 'probe', 'flow': pk['flow']})
        tt += PROBE_EVERY
    ops.sort(key=lambda x: x['t'])
    sc['probe_flow'] = pk['flow']
    if r.random() < 0.4:
        sc['byz'] = {'kind': 'auth_malformed', 'seed': r.randrange(2 ** 31)}
        sc['meta']['byz'] = 'auth_malformed'
    if r.random() < 0.25:
        # D is (or is easily pushed) under load: it asks for a COOKIE, so the legitimate peer is served through the COOKIE retry path,
        # also after the hostile input stopped (half-open IKE_SAs left by the hostile source are never reaped)
        sc['controller_attrs'] = {'B': {'cookie_threshold': r.choice([0, 0, 1, 2])}}
        sc['meta']['cookie_threshold'] = sc['controller_attrs']['B']['cookie_threshold']
    if r.random() < 0.5:
        # a stray datagram aimed at the SPI pair of a handshake in progress, delivered between D's IKE_SA_INIT response and P's IKE_AUTH request
        sc['halfopen_stray'] = {'seed': r.randrange(2 ** 31), 'p': r.choice([0.5, 1.0])}
    if r.random() < 0.3:
        # ... or at P's IKE_SA_INIT request while it waits for the answer: a forged cleartext answer (INVALID_KE_PAYLOAD naming a group P never
        # offered, NO_PROPOSAL_CHOSEN, a COOKIE).  That attempt may fail; the next ones must not
        sc['init_stray'] = {'seed': r.randrange(2 ** 31), 'p': r.choice([0.3, 0.6, 1.0])}
    if r.random() < 0.3:
        # a kernel with sub-policies, marks or interface ids: its ACQUIRE / EXPIRE events carry XFRMA_POLICY_TYPE, XFRMA_MARK, XFRMA_IF_ID
        sc['kernel_event_attrs'] = r.sample(['policy_type', 'mark', 'if_id'], r.randint(1, 3))
        sc['meta']['kernel_event_attrs'] = True
    if r.random() < 0.15:
        # netlink transport faults (send() fails with ENOBUFS / the acknowledgement is lost): not refusals by the kernel
        for _ in range(r.randint(1, 3)):
            sc['ops'].append({'t': round(r.uniform(1.5, max(2.0, sc.get('quiet_from', sc['until']) * 0.9)), 3), 'op': 'knlfail', 'node': 'B', 'nth': r.randint(1, 3),
                              'how': r.choice(['send', 'send', 'recv'])})
        sc['ops'].sort(key=lambda x: x['t'])
        sc['meta']['knlfail'] = True
    return sc


def _handlers(ctx):
    wire = ctx['wire']

    def do_hostile(w, op):
        node = w.nodes[op['node']]
        if node.state != 'running':
            return
        meta = w.scenario['meta']
        dst = str(node.addrs[0])
        peer = meta['a_addr'] if op['node'] == 'B' else meta['b_addr']
        o = dict(op)
        if op.get('spoof') == 'q':
            o['spoof'] = True
            peer = meta.get('q_addr', peer)
        if op['kind'] == 'replay':
            got = [d for d in ctx.get('delivered', {}).get(op['node'], []) if wire.is_authentic(d)]
            if not got:
                return
            data, src = got[-1 - (op['pick'] % min(len(got), 8))], peer
        else:
            data, src = hostile.make(o, wire, dst, peer, meta['family'])
        had_sa = any(sa.ike_sa_keyring is not None for sa in node.ike_sas())
        ctx['reach']['hostile_delivered'] = ctx['reach'].get('hostile_delivered', 0) + 1
        ctx['reach']['hostile.' + op['kind']] = ctx['reach'].get('hostile.' + op['kind'], 0) + 1
        if had_sa:
            ctx['reach']['hostile_while_sa'] = ctx['reach'].get('hostile_while_sa', 0) + 1
        w.net.inject(data, src, dst, 0.0, 'forge.' + op['kind'])

    def do_kodd(w, op):
        node = w.nodes[op['node']]
        if node.state != 'running':
            return
        kern = node.kernel
        r = random.Random(f'kodd:{op["seed"]}')
        kind = op['kind']
        ctx['reach']['kernel_oddity'] = ctx['reach'].get('kernel_oddity', 0) + 1
        ctx['reach']['kodd.' + kind] = ctx['reach'].get('kodd.' + kind, 0) + 1
        pol = next((p for p in kern.spd if p['dir'] == K['XFRM_POLICY_OUT']), None)
        if kind == 'unknown_type':
            kern.raw_event(enc_nlmsg(r.choice([0x20, 0x1B, 0x15, 0x40, 0xFFF]), 0, 0, 0, bytes(r.getrandbits(8) for _ in range(r.choice([0, 8, 64])))), kind)
        elif kind == 'zeros':
            kern.raw_event(b'\0' * r.choice([4, 16, 64]), kind)
        elif kind == 'done':
            kern.raw_event(enc_nlmsg(K['NLMSG_DONE'], 0, 0, 0, b'\0\0\0\0'), kind)
        elif pol is None:
            return
        elif kind == 'truncated':
            flow = {'family': pol['sel']['family'], 'saddr': str(node.addrs[0]), 'daddr': w.scenario['meta']['a_addr'],
                    'proto': 6, 'sport': 1, 'dport': 2}
            full = enc_acquire(pol, flow)
            kern.raw_event(full[:r.choice([16, 17, 40, 100, len(full) - 70, len(full) - 1])], kind)
        elif kind in ('acquire_unknown_peer', 'acquire_unknown_index'):
            p2 = copy.deepcopy(pol)
            fam = p2['sel']['family']
            flow = {'family': fam, 'saddr': str(node.addrs[0]), 'daddr': w.scenario['meta']['a_addr'],
                    'proto': 6, 'sport': 1, 'dport': 2}
            if kind == 'acquire_unknown_peer':
                unk = '10.77.0.9' if fam == K['AF_INET'] else 'fd00::77'
                p2['tmpls'][0]['id']['daddr_raw'] = _addr_raw(unk)
                p2['tmpls'][0]['mode'] = K['XFRM_MODE_TUNNEL']
                flow['daddr'] = unk
            else:
                p2['index'] = (r.randrange(2 ** 21, 2 ** 22) << 3) | 1
            kern.raw_event(enc_acquire(p2, flow), kind)
        elif kind == 'expire_unknown_spi':
            sa = {'sel': pol['sel'], 'daddr_raw': _addr_raw(str(node.addrs[0])), 'spi': bytes(r.getrandbits(8) for _ in range(4)),
                  'proto': 50, 'saddr_raw': _addr_raw(w.scenario['meta']['a_addr']), 'lft': pol['lft'], 'add_time': 0,
                  'reqid': 0, 'family': pol['sel']['family'], 'mode': 0, 'replay_window': 0, 'flags': 0}
            kern.raw_event(enc_expire(sa, r.random() < 0.5), kind)
    def do_probe(w, op):
        ok, why = data_plane_probe(w, 'A', 'B', op['flow'])
        ctx.setdefault('probes', []).append((round(w.now, 2), ok, why))
        if not ok:
            # no SA right now: let P's kernel see traffic (ACQUIRE) and look again once a lossless handshake has had time
            # (looking only at probe instants would make the verdict depend on how the probe period resonates with lifetimes)
            w.packet('A', op['flow'])

            def recheck():
                ok2, why2 = data_plane_probe(w, 'A', 'B', op['flow'])
                ctx['probes'].append((round(w.now, 2), ok2, why2))
            w.after(2.0, recheck, 'probe.recheck')
    return {'hostile': do_hostile, 'kodd': do_kodd, 'probe': do_probe}


def _execute(scenario, with_hostile=True):
    ctx = {'reach': {}}
    sc = scenario
    if not with_hostile:
        sc = copy.deepcopy(scenario)
        sc['ops'] = [o for o in sc['ops'] if not (o['op'] in ('sendfail', 'recvfail', 'kerr', 'kraw', 'clockjump', 'knlfail') or
                                                  (o['op'] == 'call' and o['name'] in ('hostile', 'kodd')))]
        sc.pop('byz', None)
        sc.pop('halfopen_stray', None)
        sc.pop('init_stray', None)
        sc['fate_policy'] = {'mode': 'random', 'lat_range': [0.005, 0.05]}
        sc['fates'] = {k: v for k, v in sc.get('fates', {}).items() if v.get('fate') in ('deliver',)}

    def setup(w, ctx):
        ctx['wire'] = WireLog(w)
        ctx['cov'] = workload.Coverage(w)
        workload.QuietTail(w)
        ctx['surv'] = Survival(w, PROP)
        ctx['wedge'] = Wedge(w, PROP)
        if sc.get('byz'):
            # authenticated-but-malformed input: P's (and D's) protected messages are re-made by a peer holding the session keys
            from sim import byz
            from sim.interpose import Interposer
            from sim.wiretap import Wiretap
            tap = ctx['tap'] = Wiretap(w, check_reencode=False)
            ip = ctx['ip'] = Interposer(w, tap)
            rule, _ = byz.make(sc['byz']['kind'], sc['byz']['seed'], w, ip, tap, ctx['reach'])
            ip.rules.append(rule)
        ctx['handlers'] = _handlers(ctx)
        ist = sc.get('init_stray')
        if ist:
            import struct as _st
            from sim import refike as _R

            class InitStray:
                n = 0

                def on_wire(self, meta, data):
                    h = parse_header(data)
                    if h is None or meta['sender'] not in w.nodes or h['exch'] != 34 or h['R'] or w.now >= sc['quiet_from']:
                        return
                    self.n += 1
                    r = random.Random(f'initstray:{ist["seed"]}:{self.n}')
                    if r.random() >= ist['p']:
                        return
                    offered = set()
                    try:
                        for p_ in _R.dec_chain(bytes(data)[28:], _R.dec_header(bytes(data))['next']):
                            d_ = _R.dec_payload(p_)
                            if d_['type'] == _R.P_SA:
                                offered = {t['id'] for pr in d_['proposals'] for t in pr['transforms'] if t['type'] == _R.T_DH}
                    except _R.DecodeError:
                        pass
                    kind = r.choice(['invalid_ke_never_offered', 'invalid_ke_never_offered', 'no_proposal_chosen', 'cookie', 'invalid_ke_short'])
                    if kind == 'invalid_ke_never_offered':
                        g = r.choice([x for x in (1, 2, 5, 14, 15, 16, 19, 20, 21, 31) if x not in offered] or [2])
                        ntype, ndata = 17, _st.pack('>H', g)
                    elif kind == 'invalid_ke_short':
                        ntype, ndata = 17, r.choice([b'', b'\x0e'])
                    elif kind == 'no_proposal_chosen':
                        ntype, ndata = 14, b''
                    else:
                        ntype, ndata = 16390, bytes(r.getrandbits(8) for _ in range(r.choice([1, 32, 64])))
                    body = _st.pack('>BBHBBH', 0, 0, 8 + len(ndata), 0, 0, ntype) + ndata
                    spi_r = r.choice([b'\0' * 8, bytes(r.getrandbits(8) for _ in range(8))])
                    dgram = h['spi_i'] + spi_r + bytes([41, 0x20, 34, 0x20]) + _st.pack('>LL', 0, 28 + len(body)) + body
                    ctx['reach']['init_stray.' + kind] = ctx['reach'].get('init_stray.' + kind, 0) + 1
                    w.net.inject(dgram, meta['dst'], meta['src'], 0.0, 'forge.init_stray')
            w.net.taps.append(InitStray())
        hs = sc.get('halfopen_stray')
        if hs:
            import struct

            class HalfOpenStray:
                """Tap + monitor.  The datagram is unauthenticated (nobody but P holds keys for this SPI pair, and P did not make it): the
                handshake it is aimed at must still be there for P's IKE_AUTH request."""
                n = 0
                pending = None

                def on_wire(self, meta, data):
                    h = parse_header(data)
                    if h is None or meta['sender'] != 'B' or h['exch'] != 34 or not h['R'] or h['spi_r'] == b'\0' * 8 or w.now >= sc['quiet_from']:
                        return
                    self.n += 1
                    r = random.Random(f'stray:{hs["seed"]}:{self.n}')
                    if r.random() >= hs['p']:
                        return
                    kind = r.choice(['clear_informational', 'auth_garbage', 'header_only', 'wrong_id', 'response_flag', 'not_initiator', 'unknown_exchange',
                                     'own_response_back'])
                    exch, flags, mid, body, nxt = 37, 0x08, 0, b'', 0
                    if kind == 'auth_garbage':
                        exch, mid, nxt = 35, 1, 46
                        inner = bytes(r.getrandbits(8) for _ in range(r.choice([8, 48, 200])))
                        body = struct.pack('>BBH', r.choice([35, 0]), 0, 4 + len(inner)) + inner
                    elif kind == 'header_only':
                        exch, mid = r.choice([35, 36]), 1
                    elif kind == 'wrong_id':
                        exch, mid = r.choice([35, 36, 37]), r.choice([2, 7, 0xFFFFFFFF])
                    elif kind == 'response_flag':
                        exch, flags, mid = r.choice([35, 37]), 0x28, r.choice([0, 1])
                    elif kind == 'not_initiator':
                        exch, flags, mid = r.choice([35, 37]), 0x00, 1
                    elif kind == 'unknown_exchange':
                        exch, mid = r.choice([0, 33, 38, 255]), 1
                    if kind == 'own_response_back':
                        dgram = bytes(data)
                    else:
                        dgram = h['spi_i'] + h['spi_r'] + bytes([nxt, 0x20, exch, flags]) + struct.pack('>LL', mid, 28 + len(body)) + body
                    meta_ = w.scenario['meta']
                    src = meta['dst'] if r.random() < 0.6 else ('203.0.113.77' if meta_['family'] == 4 else '2001:db8::77')
                    ctx['reach']['halfopen_stray.' + kind] = ctx['reach'].get('halfopen_stray.' + kind, 0) + 1
                    w.net.inject(dgram, src, meta['src'], 0.0, 'forge.halfopen_stray')
                    self.kind = kind

                def before_delivery(self, node, data, src, dst, meta):
                    if (meta or {}).get('sender') != 'forge.halfopen_stray' or len(data) < 28:
                        return
                    spi = bytes(data[8:16])
                    for sa in node.ike_sas():
                        if sa.my_spi == spi:
                            self.pending = (node.name, spi, sa.state.name, self.kind)

                def after_step(self, node, cause):
                    p = self.pending
                    if p is None or p[0] != node.name or node.has_readable():
                        return
                    self.pending = None
                    if w.poisoned:
                        return
                    ctx['reach']['halfopen_stray_judged'] = ctx['reach'].get('halfopen_stray_judged', 0) + 1
                    if not any(sa.my_spi == p[1] for sa in node.ike_sas()):
                        w.violation(PROP, 'handshake_in_progress_dropped_by_stray_datagram', {'kind': p[3], 'state': p[2]},
                                    f'{node.name}: an unauthenticated datagram ({p[3]}) carrying the SPI pair of the handshake in progress '
                                    f'({p[1].hex()}, {p[2]}) removed that IKE_SA from the table: the IKE_AUTH request of the legitimate peer will '
                                    f'find nobody')
                        w.poisoned = True
            st = HalfOpenStray()
            w.net.taps.append(st)
            w.monitors.append(st)

        class SessionSurvives:
            """'Keeps serving other peers correctly afterwards': a datagram nobody authenticated (the hostile source holds no keys) must not
            end an IKE_SA that has keys and is established with the legitimate peer."""
            pending = None

            def before_delivery(self, node, data, src, dst, meta):
                if not str((meta or {}).get('sender', '')).startswith('forge.') and node.state == 'running':
                    ctx.setdefault('delivered', {}).setdefault(node.name, []).append(bytes(data))      # (what the replayer may play again)
                if not str((meta or {}).get('sender', '')).startswith('forge.') or timers_due(node) or node.has_readable() and len(node.udp) > 1:
                    return
                if any(s_.queue for s_ in node.kernel.event_socks):
                    return
                live = {bytes(sa.my_spi): sa.state.name for sa in node.ike_sas() if sa.ike_sa_keyring is not None and int(sa.state) >= 10
                        and sa.state.name not in ('DELETED', 'REKEYED', 'DEL_IKE_SA_REQ_SENT', 'DEL_AFTER_REKEY_IKE_SA_REQ_SENT')}
                if live and sum(len(s_.queue) for s_ in node.udp.values()) == 1:
                    self.pending = (node.name, live, meta['sender'], bytes(data[:28]))

            def after_step(self, node, cause):
                p = self.pending
                if p is None or p[0] != node.name:
                    return
                self.pending = None
                if w.poisoned or node.state != 'running' or node.exited:
                    return
                ctx['reach']['hostile_vs_established_judged'] = ctx['reach'].get('hostile_vs_established_judged', 0) + 1
                now = {bytes(sa.my_spi): sa.state.name for sa in node.ike_sas()}
                for spi, st in p[1].items():
                    if now.get(spi) in (None, 'DELETED'):
                        w.violation(PROP, 'established_session_ended_by_hostile_datagram', {'kind': p[2].split('.', 1)[-1], 'state': st},
                                    f'{node.name}: IKE_SA {spi.hex()} ({st}, with keys) is gone after one datagram of the hostile source ({p[2]}, header '
                                    f'{p[3].hex()}), which holds no key of it')
                        w.poisoned = True
                        return
        ss = SessionSurvives()
        w.monitors.append(ss)

        class Zombie:
            def after_step(self, node, cause):
                for sa in node.ike_sas():
                    if sa.state.name == 'INITIAL':
                        ck = cause[0] if isinstance(cause, tuple) else cause
                        w.violation(PROP, 'zombie_initial_ike_sa', {'trigger': ck, 'role': 'initiator' if sa.is_initiator else 'responder'},
                                    f'{node.name} keeps an IKE_SA in state INITIAL (peer {sa.peer_addr}) after a {ck} event')
                        w.poisoned = True
                        return
        w.monitors.append(Zombie())

    def at_end(w, ctx):
        pr = ctx.get('probes', [])
        ok = any(p[1] for p in pr)
        ctx['served'] = (ok, 'never in %d probes: %s' % (len(pr), sorted(set(p[2] for p in pr))))
        ctx['tables'] = {n.name: [(sa.state.name, str(sa.peer_addr), len(sa.child_sas)) for sa in n.ike_sas()]
                         for n in w.nodes.values()}
    ctx['at_end'] = at_end
    w = execute(sc, setup, ctx)
    return w, ctx


def run(scenario):
    w, ctx = _execute(scenario, True)
    reach = ctx['reach']
    for k, v in w.fault_counts.items():
        if k.startswith('sys.sendto'):
            reach['sendto_failure'] = reach.get('sendto_failure', 0) + v
        if k.startswith('kern.err'):
            reach['netlink_refusal'] = reach.get('netlink_refusal', 0) + v
        if k.startswith('sys.recvfrom') or k.startswith('sys.nl_recv'):
            reach['receive_failure'] = reach.get('receive_failure', 0) + v
    served = ctx.get('served')
    if served is not None and not w.violations:
        if served[0]:
            reach['probe_served'] = 1
        else:
            # differential: is the legitimate session served when the hostile input is removed?
            w2, ctx2 = _execute(scenario, False)
            s2 = ctx2.get('served')
            if s2 is not None and s2[0] and not w2.violations:
                states = ctx.get('tables')
                w.violation(PROP, 'legit_session_not_served', {},
                            f'after the hostile input stopped, {QUIET}s of lossless network and repeated traffic did not give '
                            f'P a working CHILD_SA with D ({served[1]}); without the hostile input it does. tables: {states}')
            else:
                reach['probe_unserved_also_in_control'] = 1
    reach.update({'pair:' + k: v for k, v in ctx['cov'].pairs.items()})
    st = workload.base_stats(w, ctx['cov'], {'reach': reach, 'nontrivial': reach.get('hostile_while_sa', 0) >= 3})
    st['reach']['lines_traced'] = sum(n.lines for n in w.nodes.values())
    if scenario.get('seed', 0) % 53 == 0 or w.violations:
        st['sample'] = {'seed': scenario.get('seed'), 'meta': scenario.get('meta'),
                        'ops': [o for o in scenario['ops'] if o['op'] != 'packet'][:14], 'reach': {k: v for k, v in reach.items() if not k.startswith('pair:')}}
    res = {'violations': w.violations, 'stats': st, 'digest': w.hexdigest()}
    if w.violations:
        res['scenario'] = replayable(scenario, w)
    if scenario.get('keep_events'):
        res['trace'] = w.events[-300:] + [f'LOG {l}' for l in w.logs[-60:]]
    return res
