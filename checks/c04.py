"""C04 - key material is derived exactly as RFC 7296 prescribes.

The wiretap's independent key schedule (own prf / prf+, own SKEYSEED / SK_* split, own KEYMAT, RFC 3526 primes recomputed
from their defining formula, fixed-width encodings) follows every PAIR history over the suite swarm: keys on the wire side
(every protected datagram must verify and decrypt under the reference keys, for every IKE_SA generation), keys on the
kernel side (KEYMAT bytes inside XFRM_MSG_NEWSA), KE payload widths.  Shared secrets and public values with leading zero octets
occur at their natural rate (1/256 per exchange, counted in evidence); a swarm knob biases nonce lengths to 16 / 255."""
import random

from sim import workload, configs, seams, refike as R
from sim.childcheck import newsa_index, quad, alg
from sim.kernel import K
from sim.observe import WireLog
from sim.scenario import execute, replayable
from sim.wiretap import Wiretap

PROP = 'C04'
LEVEL = 'exploration'
BUDGET = {'quick': {'runs': 700, 'wall': 52, 'chunk': 6, 'min_wall': 60},
          'thorough': {'runs': 200000, 'wall': 1500, 'chunk': 12, 'min_wall': 150}}
RULE = ('one evaluation = one simulated run of two real daemons followed by the reference key schedule; non-trivial = at least one '
        'IKE_SA was followed to its first CHILD_SA and the KEYMAT compared with the kernel; distinct = distinct (PRF, INTEG, ENCR key '
        'length, DH group, PFS group, rekey generations, leading-zero secret seen)')
COMPONENTS = {'real': ['crypto.py (Prf, prf+, Cipher, Integrity, MODPDH, ECDH)', 'ikesa.py (generate_ike_sa_key_material, '
                       'generate_child_sa_key_material, rekey derivation)', 'message.py', 'xfrm.py'],
              'stub': ['active reference responder sim/refpeer.py in place of the second daemon (batch refpeer)', 'reference key schedule (sim/refike.py: hmac/hashlib, pow() over recomputed RFC 3526 primes, library EC point '
                       'multiplication)', 'DH scalars from the seam', 'kernel model']}
ASSUMPTIONS = ['in the main batch the two daemons run the same code and the symmetry is broken only by the passive reference (wiretap); in the '
               'refpeer batch (30 %) the other end is the active reference responder sim/refpeer.py, which derives every key itself from the RFC',
               'prf+ is exercised at the output lengths the key schedule requests (68..448 octets), not at every length']
NOT_EXERCISED = ['elliptic curves are the cryptography library\'s named curves (P-256/384/521): their parameters are not re-derived, only used']
EXPECT_REACH = ['batch.refpeer', 'refpeer.keymat_compared', 'refpeer.ike_rekeys', 'refpeer.invalid_ke_on_ike_rekey', 'refpeer.children_pfs', 'sessions_followed', 'children_keymat_compared', 'ike_rekeys_followed', 'children_pfs', 'prf.2', 'prf.5', 'prf.7',
                'integ.2', 'integ.12', 'integ.14', 'encr.128', 'encr.256', 'dh.14', 'dh.19', 'dh.20', 'dh.21', 'dh.15', 'dh.16',
                'leading_zero_shared', 'leading_zero_public', 'nonce_16', 'nonce_long']


def generate(seed, tier):
    r = random.Random(f'C04gen:{seed}')
    slow = r.random() < (0.2 if tier == 'quick' else 0.4)
    o = {'conf': {'profile': r.choice(['fast', 'mid']), 'entries': 2, 'slow_dh': slow}, 'both_initiate': r.random() < 0.3,
         'packets': r.randint(1, 4), 'duration': r.choice([20, 40, 70]), 'forced': 3, 'forced_kinds': ['expire_soft', 'jump_rekey'],
         'faults': []}
    refpeer = r.random() < 0.3
    if refpeer:
        # batch 'refpeer': the other end is not a second copy of the same code but the active reference responder (sim/refpeer.py): own
        # preference order, nonce lengths 16..256, COOKIE and INVALID_KE_PAYLOAD rounds - also on an IKE_SA rekey, keeping the IKE_SA -,
        # vendor IDs / unknown notifies / unknown non-critical payloads, extra padding
        o['conf'].update(auth='psk', ike_lifetime=r.choice([6, 10, 16, 30]), slow_dh=False)
        o['both_initiate'] = False
        o['forced_kinds'] = ['expire_soft', 'expire_hard', 'jump_rekey', 'jump_dpd']
    sc = workload.pair_scenario(seed, PROP, o)
    sc['knobs'] = {'nonce_edges': r.random() < 0.4}      # bias the daemon's nonce-length draws to the boundaries 16 / 255
    if refpeer:
        cb = sc['nodes'].pop('B')
        sc['ops'] = [op for op in sc['ops'] if op.get('node') != 'B']
        sc['refpeer'] = {'seed': r.randrange(2 ** 31), 'conf': cb['conf'], 'addr': cb['addrs'][0]}
        sc['meta']['batch'] = 'refpeer'
    return sc


def run(scenario):
    ctx = {}

    def setup(w, ctx):
        ctx['wire'] = WireLog(w)
        ctx['cov'] = workload.Coverage(w)
        ctx['tap'] = Wiretap(w)
        if scenario.get('refpeer'):
            from sim.refpeer import RefPeer
            rp = scenario['refpeer']
            conn = next(iter(configs.read_conf(rp['conf']).values()))
            # (40 % of these peers pick their DH scalars so that the shared secret begins with a zero octet; decided from the peer's seed)
            ctx['peer'] = RefPeer(w, rp['addr'], conn, rp['seed'], {'zero_lead_secret': random.Random(f"zl:{rp['seed']}").random() < 0.4})

    def judge_refpeer(w, ctx, reach):
        peer = ctx['peer']
        for k_, v_ in peer.counts.items():
            reach['refpeer.' + k_] = v_
        for k_, v_ in peer.k.items():
            reach[f'refpeer.knob.{k_}.{v_}'] = 1
        for p in peer.problems:
            if p['kind'] == 'cannot_open_protected_message':
                return w.violation(PROP, 'traffic_not_under_rfc_keys', dict(p['sig'], peer='reference'), p['detail'])
            if p['kind'] == 'ike_auth_to_spi_of_no_sa_response':
                return w.violation(PROP, 'traffic_not_under_rfc_keys', {'peer': 'reference', 'why': 'spi_r'}, p['detail'])
            if p['kind'] in ('ke_wrong_length', 'ke_invalid'):
                return w.violation(PROP, 'ke_not_fixed_width', {'peer': 'reference'}, p['detail'])
            foreign = {'auth_does_not_verify': 'C02', 'retransmission_differs': 'C13', 'request_id_outside_window': 'C08', 'initiator_flag_clear': 'C08',
                       'ike_sa_init_request_with_responder_spi': 'C08', 'cookie_not_returned_unchanged': 'C18', 'cookie_not_first_payload': 'C18'}
            w.violation(foreign.get(p['kind'], 'C05'), 'reference_peer.' + p['kind'], {}, p['detail'])
        # the daemon must accept what a conforming peer sends under the RFC keys: a checksum / syntax error on a reference message means
        # its keys (or its parser) differ
        for (t, nname, lvl, msg) in w.logs:
            if 'Error while processing an event' in msg and 'CHECKSUM' in msg:
                return w.violation(PROP, 'reference_message_rejected', {'error': 'checksum'},
                                   f'{nname} at t={t:.2f}: a message of the reference peer, protected under the keys RFC 7296 gives for the IKE_SA, was '
                                   f'refused: {msg[-160:]}')
            if 'Error while processing an event' in msg and ('InvalidSyntax' in msg or 'UnsupportedCritical' in msg):
                # the keys fit (the checksum verified): what the parser objects to is the codec's business (C05 / C06)
                w.violation('C05', 'reference_peer.well_formed_message_rejected', {}, f'{nname} at t={t:.2f}: {msg[-200:]}')
        node = w.nodes['A']
        idx = newsa_index(node)
        from sim.kernel import _addr_raw
        from sim.childcheck import PROTO_NUM
        a_addr = scenario['meta']['a_addr']
        for ch in peer.children:
            proto = PROTO_NUM.get(ch['proto'])
            km = ch['keymat']
            for key, want_e, want_a, who in (((_addr_raw(peer.addr), proto, ch['spi_resp']), km['ei'], km['ai'], 'daemon outbound'),
                                             ((_addr_raw(a_addr), proto, ch['spi_init']), km['er'], km['ar'], 'daemon inbound')):
                rec = idx.get(key)
                if rec is None:
                    reach['refpeer.child_not_installed'] = reach.get('refpeer.child_not_installed', 0) + 1
                    continue
                c, a = alg(rec, K['XFRMA_ALG_CRYPT']), alg(rec, K['XFRMA_ALG_AUTH'])
                got = (c[2] if c else b'', a[2] if a else b'')
                reach['children_keymat_compared'] = reach.get('children_keymat_compared', 0) + 1
                reach['refpeer.keymat_compared'] = reach.get('refpeer.keymat_compared', 0) + 1
                if got != (want_e, want_a):
                    which = 'encryption' if got[0] != want_e else 'integrity'
                    return w.violation(PROP, 'keymat_differs_from_rfc', {'key': which, 'pfs': ch['pfs'], 'initial': ch['initial'], 'proto': ch['proto'], 'peer': 'reference'},
                                       f'CHILD_SA {ch["spi_init"].hex()}/{ch["spi_resp"].hex()} granted by the reference peer ({who}): the {which} key in '
                                       f'XFRM_MSG_NEWSA is not the RFC 7296 2.17 KEYMAT slice')
        for s_ in peer.sessions.values():
            reach['prf.%d' % s_.suite.prf] = 1
            reach['integ.%d' % s_.suite.integ] = 1
            reach['encr.%d' % (s_.suite.ek * 8)] = 1
            reach['dh.%d' % s_.suite.dh] = 1
            if s_.parent is not None:
                reach['refpeer.rekeyed_generations'] = max(reach.get('refpeer.rekeyed_generations', 0), peer._generation(s_))

    def at_end(w, ctx):
        tap = ctx['tap']
        reach = ctx.setdefault('reach', {})
        if scenario.get('refpeer'):
            reach['batch.refpeer'] = 1
            return judge_refpeer(w, ctx, reach)
        if scenario.get('seed', 0) % 25 == 0:
            # pure-function residue of the statement (no schedule or fault in it; evaluated directly, seeded inputs): prf+ at every output
            # length up to 255 blocks' worth, and the MODP primes against the ones recomputed from pi (RFC 3526)
            from sim import seams
            rr = random.Random(f'C04residue:{scenario.get("seed")}')
            crypto, message = seams.M['crypto'], seams.M['message']
            for pid in (2, 5, 7):
                prf = crypto.Prf(message.Transform(message.Transform.Type.PRF, pid))
                key = bytes(rr.getrandbits(8) for _ in range(rr.choice([0, 1, 20, 32, 64, 65, 200])))
                seed_ = bytes(rr.getrandbits(8) for _ in range(rr.choice([0, 1, 48, 100])))
                hs = R.prf_len(pid)
                for n in sorted({0, 1, hs - 1, hs, hs + 1, 2 * hs, 7 * hs + 3, rr.randrange(1, 255 * hs), 255 * hs}):
                    if bytes(prf.prfplus(key, seed_, n)) != R.prf_plus(pid, key, seed_, n):
                        return w.violation(PROP, 'prf_plus_differs_from_definition', {'prf': pid}, f'prf+ (PRF {pid}) of {n} octets differs from RFC 7296 2.13')
                reach['prf_plus_lengths_checked'] = reach.get('prf_plus_lengths_checked', 0) + 1
            for g, bits in R.MODP_BITS.items():
                gd = crypto.MODPDH._group_dict
                key = next((k for k in gd if int(k) == g), None)
                if key is not None and int(gd[key], 16) != R.modp_prime(bits):
                    return w.violation(PROP, 'modp_prime_differs_from_rfc3526', {'group': g}, f'the prime of group {g} is not the RFC 3526 {bits}-bit MODP prime')
            reach['modp_primes_checked'] = 1
        for p in tap.problems:
            if p['kind'] == 'cannot_open_protected_message':
                return w.violation(PROP, 'traffic_not_under_rfc_keys', p['sig'], p['detail'])
            if p['kind'] == 'ike_auth_to_spi_of_no_sa_response':
                return w.violation(PROP, 'traffic_not_under_rfc_keys', {'stage': 'first', 'why': 'responder SPI of another round'}, p['detail'])
            if p['kind'] == 'ike_rekey_skeyseed_prf':
                return w.violation(PROP, 'ike_rekey_skeyseed_prf', p['sig'], p['detail'])
            if p['kind'] == 'ke_wrong_length':
                return w.violation(PROP, 'ke_not_fixed_width', p['sig'], p['detail'])
        idx = {n: newsa_index(node) for n, node in w.nodes.items()}
        for ch in tap.children:
            q = quad(w, ch, idx)
            if q is None:
                continue
            km = ch['keymat']
            for rec, want_e, want_a, who in ((q[0], km['ei'], km['ai'], 'initiator outbound'), (q[1], km['ei'], km['ai'], 'responder inbound'),
                                             (q[2], km['er'], km['ar'], 'initiator inbound'), (q[3], km['er'], km['ar'], 'responder outbound')):
                if rec is None:
                    continue
                c, a = alg(rec, K['XFRMA_ALG_CRYPT']), alg(rec, K['XFRMA_ALG_AUTH'])
                got = (c[2] if c else b'', a[2] if a else b'')
                reach['children_keymat_compared'] = reach.get('children_keymat_compared', 0) + 1
                if got != (want_e, want_a):
                    which = 'encryption' if got[0] != want_e else 'integrity'
                    return w.violation(PROP, 'keymat_differs_from_rfc', {'key': which, 'pfs': ch['pfs'], 'initial': ch['initial'], 'proto': ch['proto']},
                                       f'CHILD_SA {ch["spi_init"].hex()}/{ch["spi_resp"].hex()} ({who}): the {which} key in XFRM_MSG_NEWSA is not '
                                       f'the RFC 7296 2.17 KEYMAT slice (prf+ (SK_d, {"g^ir | " if ch["pfs"] else ""}Ni | Nr), encryption before integrity, '
                                       f'initiator direction first)')
    ctx['at_end'] = at_end
    w = execute(scenario, setup, ctx)
    tap = ctx['tap']
    reach = ctx.get('reach', {})
    reach['sessions_followed'] = tap.counts.get('sessions', 0)
    reach['ike_rekeys_followed'] = tap.counts.get('ike_rekeys', 0)
    reach['ike_rekeys_prf_changed'] = tap.counts.get('ike_rekeys_prf_changed', 0)
    reach['children_pfs'] = tap.counts.get('children_pfs', 0)
    reach['opaque_messages'] = tap.counts.get('opaque_messages', 0)
    suites = set()
    for s in tap.sessions.values():
        if s.suite is not None:
            reach['prf.%d' % s.suite.prf] = 1
            reach['integ.%d' % s.suite.integ] = 1
            reach['encr.%d' % (s.suite.ek * 8)] = 1
            reach['dh.%d' % s.suite.dh] = 1
            suites.add(s.suite.key())
            if s.shared and s.shared[0] == 0:
                reach['leading_zero_shared'] = reach.get('leading_zero_shared', 0) + 1
            for n in (s.ni, s.nr):
                if n is not None and len(n) == 16:
                    reach['nonce_16'] = 1
                if n is not None and len(n) >= 200:
                    reach['nonce_long'] = 1
    for pub in list(seams.DH_SCALARS):
        if pub[0] == 0:
            reach['leading_zero_public'] = reach.get('leading_zero_public', 0) + 1
    for ch in tap.children:
        if ch['pfs']:
            reach['child_pfs_group'] = 1
    st = workload.base_stats(w, ctx['cov'], {'reach': reach, 'nontrivial': reach.get('children_keymat_compared', 0) > 0})
    import hashlib
    st['sig'] = hashlib.sha256(repr((sorted(suites), tap.counts.get('max_generation', 0), bool(reach.get('children_pfs')),
                                     bool(reach.get('leading_zero_shared')))).encode()).hexdigest()[:16]
    if scenario.get('seed', 0) % 53 == 0 or w.violations:
        st['sample'] = {'seed': scenario.get('seed'), 'meta': scenario.get('meta'), 'suites': sorted(suites),
                        'wiretap_counts': tap.counts, 'reach': reach}
    res = {'violations': w.violations, 'stats': st, 'digest': w.hexdigest()}
    if w.violations:
        res['scenario'] = replayable(scenario, w)
    if scenario.get('keep_events'):
        res['trace'] = w.events[-200:] + [f'LOG {l}' for l in w.logs[-60:]] + [f'TAP {p}' for p in tap.problems[:10]]
    return res
