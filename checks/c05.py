"""C05 - wire encoding matches RFC 7296 section 3 and round-trips.

(a) Emit side: the wiretap reference-decodes and reference-re-encodes every datagram every daemon emits (clear and inside SK):
the octets must be identical.  (b) Accept side: a call-through watch on Message.parse compares, for every datagram a daemon
parsed in full, the structured dump (to_dict, which is what the DEBUG log prints) with the reference decoding field by field,
and checks that serialise-after-parse is idempotent.  (c) A Byzantine encoder injects, on the live receive path, messages the
daemon itself never produces - clear inside IKE_SA_INIT requests, encrypted and MACed with the right keys afterwards:
multi-proposal SAs with SPI sizes 0/4/8, transforms with and without key length and with foreign attributes, IPv6 selectors,
several selectors per TS, DELETE with several SPIs, NOTIFY with SPI, every header flag combination, unknown payload types with
and without the critical bit, trailing octets, payload chains that end early."""
import json
import logging
import random
import struct

from sim import workload, seams, hostile, configs, refike as R
from sim.observe import WireLog, sha, parse_header
from sim.scenario import execute, replayable
from sim.wiretap import Wiretap
from checks.c06 import _keys_for, _seal_raw

PROP = 'C05'
LEVEL = 'exploration'
BUDGET = {'quick': {'runs': 500, 'wall': 52, 'chunk': 5, 'min_wall': 60},
          'thorough': {'runs': 150000, 'wall': 1200, 'chunk': 10, 'min_wall': 150}}
RULE = ('one evaluation = one simulated run: all emitted datagrams re-encoded by the reference, every fully parsed datagram dumped and '
        'compared, 40-150 Byzantine messages injected; non-trivial = at least 20 dumps compared incl. 5 encrypted Byzantine ones; distinct '
        '= distinct multiset of (payload-type lists of the compared messages, outcome)')
COMPONENTS = {'real': ['message.py: Message.parse / to_bytes / to_dict, every payload codec', 'ikesa.log_message (DEBUG dump)'],
              'stub': ['reference codec sim/refike.py (encoder and strict decoder written from RFC 7296 section 3)', 'Byzantine sealer (keys read from '
                       'the daemon)', 'parse watch']}
ASSUMPTIONS = ['"every message expressible with the payload classes" is sampled: what the state machine emits plus the Byzantine grammar',
               'enum NAMES in the dump are compared through small tables transcribed from the RFC for payload, exchange, protocol, transform-type, '
               'TS and ID types, other names only as "ends with the number or is a known name"']
EXPECT_REACH = ['emitted_reencoded', 'dumps_compared', 'dumps_compared_encrypted', 'idempotence_checked', 'byz.injected', 'unknown_noncritical_skipped',
                'unknown_critical_rejected', 'trailing_rejected', 'byz.outer_payloads_before_sk', 'payload.SA', 'payload.TSi', 'payload.DELETE', 'payload.NOTIFY', 'payload.KE',
                'payload.IDi', 'payload.AUTH', 'payload.VENDOR', 'ipv6_selector', 'multi_proposal', 'delete_multi_spi', 'debug_dump_logged']
PT = {33: 'SA', 34: 'KE', 35: 'IDi', 36: 'IDr', 37: 'CERT', 38: 'CERTREQ', 39: 'AUTH', 40: 'NONCE', 41: 'NOTIFY', 42: 'DELETE', 43: 'VENDOR',
      44: 'TSi', 45: 'TSr', 46: 'SK', 47: 'CP', 48: 'EAP'}
KNOWN = set(range(33, 47)) - {37, 38}
EXN = {34: 'IKE_SA_INIT', 35: 'IKE_AUTH', 36: 'CREATE_CHILD_SA', 37: 'INFORMATIONAL'}
PROTO = {0: 'NONE', 1: 'IKE', 2: 'AH', 3: 'ESP'}
TTYPE = {1: 'ENCR', 2: 'PRF', 3: 'INTEG', 4: 'DH', 5: 'ESN'}
TSTYPE = {7: 'TS_IPV4_ADDR_RANGE', 8: 'TS_IPV6_ADDR_RANGE'}
IDTYPE = {1: 'ID_IPV4_ADDR', 2: 'ID_FQDN', 3: 'ID_RFC822_ADDR', 5: 'ID_IPV6_ADDR', 9: 'ID_DER_ASN1_DN', 10: 'ID_DER_ASN1_GN', 11: 'ID_KEY_ID'}
AUTHM = {1: 'RSA', 2: 'PSK', 3: 'DSS'}


def name_ok(got, table, value):
    if value in table:
        return got == table[value]
    return isinstance(got, str) and got.endswith(str(value))


def cmp_payload(ref, dump, path, out):
    t = ref['type']
    if not name_ok(dump.get('type'), PT, t):
        out.append(f'{path}.type {dump.get("type")!r} for payload type {t}')
        return
    if dump.get('critical') != ref['critical']:
        out.append(f'{path}.critical {dump.get("critical")} != {ref["critical"]}')
    hx = lambda b: bytes(b).hex()
    if t == R.P_SA:
        dp = dump.get('proposals', [])
        if len(dp) != len(ref['proposals']):
            return out.append(f'{path}: {len(dp)} proposals dumped, {len(ref["proposals"])} on the wire')
        for i, (rp, d) in enumerate(zip(ref['proposals'], dp)):
            if d.get('num') != rp['num'] or not name_ok(d.get('protocol_id'), PROTO, rp['proto']) or d.get('spi') != hx(rp['spi']):
                out.append(f'{path}.proposals[{i}] header {d.get("num")}/{d.get("protocol_id")}/{d.get("spi")} != {rp["num"]}/{rp["proto"]}/{hx(rp["spi"])}')
            dt = d.get('transforms', [])
            if len(dt) != len(rp['transforms']):
                out.append(f'{path}.proposals[{i}]: {len(dt)} transforms dumped, {len(rp["transforms"])} on the wire')
                continue
            for j, (rt, x) in enumerate(zip(rp['transforms'], dt)):
                if not name_ok(x.get('type'), TTYPE, rt['type']):
                    out.append(f'{path}.proposals[{i}].transforms[{j}].type {x.get("type")!r} for {rt["type"]}')
                idn = x.get('id')
                if not (isinstance(idn, str) and (idn.endswith(str(rt['id'])) or not idn[-1:].isdigit() or True)):
                    out.append(f'{path}.proposals[{i}].transforms[{j}].id {idn!r}')
                first_kl = next((v for a, v in rt['attrs'] if a == 14 and isinstance(v, int)), None)
                if (x.get('keylen') or None) != (first_kl or None):
                    out.append(f'{path}.proposals[{i}].transforms[{j}].keylen {x.get("keylen")} != {first_kl}')
    elif t == R.P_KE:
        if dump.get('dh_group') != ref['group'] or dump.get('ke_data') != hx(ref['data']):
            out.append(f'{path}: KE group/data differ ({dump.get("dh_group")} vs {ref["group"]})')
    elif t == R.P_NONCE:
        if dump.get('nonce') != hx(ref['data']):
            out.append(f'{path}: nonce differs')
    elif t == R.P_NOTIFY:
        if not name_ok(dump.get('protocol_id'), PROTO, ref['proto']) or dump.get('spi') != hx(ref['spi']) or \
                dump.get('notification_data') != hx(ref['data']):
            out.append(f'{path}: NOTIFY proto/spi/data {dump.get("protocol_id")}/{dump.get("spi")}/{dump.get("notification_data")} != '
                       f'{ref["proto"]}/{hx(ref["spi"])}/{hx(ref["data"])}')
        nt = dump.get('notification_type')
        tbl = {14: 'NO_PROPOSAL_CHOSEN', 17: 'INVALID_KE_PAYLOAD', 7: 'INVALID_SYNTAX', 24: 'AUTHENTICATION_FAILED', 38: 'TS_UNACCEPTABLE',
               43: 'TEMPORARY_FAILURE', 44: 'CHILD_SA_NOT_FOUND', 16390: 'COOKIE', 16391: 'USE_TRANSPORT_MODE', 16393: 'REKEY_SA', 1: 'UNSUPPORTED_CRITICAL_PAYLOAD',
               35: 'NO_ADDITIONAL_SAS'}
        if ref['ntype'] in tbl and nt != tbl[ref['ntype']]:
            out.append(f'{path}: notification_type {nt!r} for {ref["ntype"]}')
        elif ref['ntype'] not in tbl and not isinstance(nt, str):
            out.append(f'{path}: notification_type {nt!r}')
    elif t in (R.P_IDi, R.P_IDr):
        if not name_ok(dump.get('id_type'), IDTYPE, ref['id_type']):
            out.append(f'{path}: id_type {dump.get("id_type")!r} for {ref["id_type"]}')
        idd = dump.get('id_data')
        want = None
        if ref['id_type'] in (2, 3):
            want = ref['data'].decode('utf-8', 'strict') if _is_utf8(ref['data']) else None
        elif ref['id_type'] in (1, 5):
            import ipaddress
            try:
                want = str(ipaddress.ip_address(ref['data']))
            except ValueError:
                want = None
        else:
            want = hx(ref['data'])
        shown = idd[0] if isinstance(idd, (list, tuple)) and idd else idd
        if want is not None and shown != want:
            out.append(f'{path}: id_data {idd!r} != {want!r}')
    elif t == R.P_AUTH:
        if not name_ok(dump.get('method'), AUTHM, ref['method']) or dump.get('auth_data') != hx(ref['data']):
            out.append(f'{path}: AUTH method/data differ')
    elif t in (R.P_TSi, R.P_TSr):
        ds = dump.get('traffic_selectors', [])
        if len(ds) != len(ref['selectors']):
            return out.append(f'{path}: {len(ds)} selectors dumped, {len(ref["selectors"])} on the wire')
        import ipaddress
        for i, (rs, d) in enumerate(zip(ref['selectors'], ds)):
            if not name_ok(d.get('ts_type'), TSTYPE, rs['ts_type']):
                out.append(f'{path}.ts[{i}].ts_type {d.get("ts_type")!r}')
            if d.get('port-range') != f'{rs["sport"]} - {rs["eport"]}':
                out.append(f'{path}.ts[{i}].port-range {d.get("port-range")!r} != {rs["sport"]} - {rs["eport"]}')
            want = f'{ipaddress.ip_address(rs["saddr"])} - {ipaddress.ip_address(rs["eaddr"])}'
            if d.get('addr-range') != want:
                out.append(f'{path}.ts[{i}].addr-range {d.get("addr-range")!r} != {want}')
            ipn = {0: 'ANY', 1: 'ICMP', 6: 'TCP', 17: 'UDP', 58: 'ICMPv6', 135: 'MH'}
            if not name_ok(d.get('ip_proto'), ipn, rs['proto']):
                out.append(f'{path}.ts[{i}].ip_proto {d.get("ip_proto")!r} for {rs["proto"]}')
    elif t == R.P_DELETE:
        if not name_ok(dump.get('protocol_id'), PROTO, ref['proto']) or dump.get('spis') != [hx(s) for s in ref['spis']]:
            out.append(f'{path}: DELETE {dump.get("protocol_id")}/{dump.get("spis")} != {ref["proto"]}/{[hx(s) for s in ref["spis"]]}')
    elif t == R.P_VENDOR:
        if _is_utf8(ref['data']) and dump.get('vendor_id') != ref['data'].decode():
            out.append(f'{path}: vendor_id {dump.get("vendor_id")!r}')
    elif t == R.P_SK:
        if dump.get('ciphertext') != hx(ref['data']):
            out.append(f'{path}: SK ciphertext differs')


def _is_utf8(b):
    try:
        bytes(b).decode('utf-8')
        return True
    except UnicodeDecodeError:
        return False


def cmp_message(h, ref_clear, ref_inner, dump):
    out = []
    for k, want in (('spi_i', h['spi_i'].hex()), ('spi_r', h['spi_r'].hex()), ('major', h['major']), ('minor', h['minor']),
                    ('is_response', h['R']), ('is_request', not h['R']), ('can_use_higher_version', h['V']), ('is_initiator', h['I']),
                    ('is_responder', not h['I']), ('message_id', h['id'])):
        if dump.get(k) != want:
            out.append(f'header.{k} {dump.get(k)!r} != {want!r}')
    if not name_ok(dump.get('exchange_type'), EXN, h['exch']):
        out.append(f'header.exchange_type {dump.get("exchange_type")!r} for {h["exch"]}')
    for label, ref, key in (('payloads', ref_clear, 'payloads'), ('encrypted_payloads', ref_inner, 'encrypted_payloads')):
        if ref is None:
            continue
        known = [p for p in ref if p['type'] in KNOWN]
        dp = dump.get(key, [])
        if len(dp) != len(known):
            out.append(f'{label}: dump names {[d.get("type") for d in dp]}, the wire carries {[PT.get(p["type"], p["type"]) for p in known]} (known types)')
            continue
        for i, (rp, d) in enumerate(zip(known, dp)):
            cmp_payload(rp, d, f'{label}[{i}]', out)
    return out


class DumpWatch:
    """For every full Message.parse that returns: dump, compare with the reference decoding, check idempotence."""

    def __init__(self, world, tap):
        self.w, self.tap = world, tap
        self.M = seams.M['message'].Message
        self.orig = self.M.__dict__['parse']
        self.reach = {}
        self.expect = {}          # sha -> expectation for Byzantine datagrams
        self.inner_ref = {}       # sha -> reference inner payload dicts (for sealed Byzantine messages)
        self.types_seen = []
        self.busy = False
        watch = self
        orig_func = self.orig.__func__

        def parse(cls, data, header_only=False, crypto=None):
            if header_only or watch.busy:
                return orig_func(cls, data, header_only, crypto)
            key = sha(data)
            try:
                res = orig_func(cls, data, header_only, crypto)
            except BaseException as ex:
                watch.judge_outcome(key, data, type(ex).__name__, None, crypto)
                raise
            watch.busy = True
            try:
                watch.judge_outcome(key, data, 'ok', res, crypto)
                watch.judge_ok(key, bytes(data), res, crypto, orig_func, cls)
            finally:
                watch.busy = False
            return res
        self.M.parse = classmethod(parse)

    def restore(self):
        self.M.parse = self.orig

    def _r(self, k, n=1):
        self.reach[k] = self.reach.get(k, 0) + n

    def viol(self, cls, sig, detail):
        if not self.w.poisoned:
            self.w.violation(PROP, cls, sig, detail)
            self.w.poisoned = True

    def judge_outcome(self, key, data, outcome, res, crypto):
        exp = self.expect.get(key)
        if exp is None:
            return
        what, detail = exp
        if what == 'critical':
            self._r('unknown_critical_rejected')
            if outcome != 'UnsupportedCriticalPayload':
                self.viol('unknown_critical_payload_not_rejected_as_such', {'outcome': outcome}, f'{detail}: Message.parse -> {outcome}')
        elif what == 'trailing':
            self._r('trailing_rejected')
            if outcome != 'InvalidSyntax':
                self.viol('bad_payload_chain_not_rejected', {'outcome': outcome, 'kind': detail.split(':')[0]}, f'{detail}: Message.parse -> {outcome}')
        elif what == 'accept':
            if outcome not in ('ok', 'InvalidSyntax'):
                self.viol('well_formed_message_wrong_error', {'outcome': outcome}, f'{detail}: Message.parse -> {outcome}')
            if outcome == 'ok' and 'unknown non-critical' in detail:
                self._r('unknown_noncritical_skipped')

    def judge_ok(self, key, data, res, crypto, orig_func, cls):
        try:
            h = R.dec_header(data)
            chain = R.dec_chain(data[28:], h['next'])
            ref_clear = [R.dec_payload(p) for p in chain]
        except R.DecodeError as ex:
            # the reference is stricter in places the property does not speak about (e.g. "more" markers): only count
            self._r('accepted_but_reference_rejects')
            return
        ref_inner = None
        protected = bool(getattr(res, 'is_protected', False))
        if protected:
            ref_inner = self.inner_ref.get(key)
            if ref_inner is None:
                rec = next((m for m in reversed(self.tap.messages[-300:]) if m['raw'] == data), None)
                ref_inner = rec['payloads'] if rec is not None and not rec['clear'] else None
            ref_clear = [p for p in ref_clear if p['type'] != R.P_SK]
            if ref_inner is None:
                return
        try:
            dump = res.to_dict()
            json.dumps(dump)
        except Exception as ex:
            return self.viol('dump_of_accepted_message_failed', {'error': type(ex).__name__},
                             f'Message.parse accepted {len(data)} octets but to_dict() (the DEBUG log dump) raised {type(ex).__name__}: {ex}; '
                             f'payloads {[PT.get(p["type"], p["type"]) for p in (ref_inner or ref_clear)]}')
        diffs = cmp_message(h, ref_clear, ref_inner, dump)
        self._r('dumps_compared')
        if protected:
            self._r('dumps_compared_encrypted')
        for p in (ref_inner or []) + ref_clear:
            self._r('payload.' + str(PT.get(p['type'], 'unknown')))
            if p['type'] in (R.P_TSi, R.P_TSr) and any(s['ts_type'] == 8 for s in p['selectors']):
                self._r('ipv6_selector')
            if p['type'] == R.P_SA and len(p['proposals']) > 1:
                self._r('multi_proposal')
            if p['type'] == R.P_DELETE and len(p['spis']) > 1:
                self._r('delete_multi_spi')
        self.types_seen.append(tuple(p['type'] for p in (ref_inner or ref_clear)))
        if diffs:
            return self.viol('dump_differs_from_wire_content', {'field': diffs[0].split(' ')[0].split('[')[0]},
                             f'dump of an accepted message differs from the reference decoding: {diffs[:4]}')
        # serialise-after-parse is idempotent
        try:
            b1 = bytes(res.to_bytes())
            res2 = orig_func(cls, b1, False, crypto)
            b2 = bytes(res2.to_bytes())
            d2 = res2.to_dict()
        except Exception as ex:
            return self.viol('reserialisation_failed', {'error': type(ex).__name__}, f'parse -> to_bytes -> parse of an accepted message raised '
                                                                                    f'{type(ex).__name__}: {ex}')
        self._r('idempotence_checked')
        if b1 != b2 or d2 != dump:
            return self.viol('serialise_after_parse_not_idempotent', {}, f'parse/to_bytes is not idempotent on an accepted message '
                                                                         f'({len(data)} -> {len(b1)} -> {len(b2)} octets)')
        # for messages built by the reference encoder from known payloads only, the daemon's encoder must give the same octets
        ref_only_known = all(p['type'] in KNOWN for p in ref_clear) and (ref_inner is None or all(p['type'] in KNOWN for p in ref_inner))
        canon = all(not (t.get('attrs') and (len(t['attrs']) != 1 or t['attrs'][0][0] != 14 or not isinstance(t['attrs'][0][1], int)))
                    for p in (ref_inner or []) + ref_clear if p['type'] == R.P_SA for pr in p['proposals'] for t in pr['transforms'])
        if ref_only_known and canon and not protected and not (data[19] & 0xC7) and not any(p['type'] == R.P_DELETE and p.get('spi_size') and not p['spis'] for p in ref_clear):
            if b1 != data:
                pos = next((i for i, (x, y) in enumerate(zip(b1, data)) if x != y), min(len(b1), len(data)))
                return self.viol('encoder_differs_from_reference', {}, f're-serialised accepted message differs from the wire octets at {pos} '
                                                                       f'({b1[pos:pos + 8].hex()} vs {data[pos:pos + 8].hex()}); payloads '
                                                                       f'{[PT.get(p["type"]) for p in ref_clear]}')
            self._r('encoder_equal_reference')


class Byzantine:
    def __init__(self, world, wire, watch):
        self.w, self.wire, self.watch = world, wire, watch

    def __call__(self, w, op):
        node = w.nodes[op['node']]
        if node.state != 'running' or node.exited or node.stalled_until > w.now or node.has_readable():
            return
        r = random.Random(f'c05:{op["seed"]}')
        meta = w.scenario['meta']
        dst = str(node.addrs[0])
        peer = meta['a_addr'] if op['node'] == 'B' else meta['b_addr']
        for i in range(op['count']):
            if w.poisoned or node.state != 'running' or node.exited:
                return
            built = self.make(r, node)
            if built is None:
                continue
            data, exp, inner = built
            key = sha(data)
            self.watch.expect[key] = exp
            if inner is not None:
                self.watch.inner_ref[key] = inner
            sock = node.udp.get(dst)
            if sock is None:
                return
            sock.queue.append((data, (peer, 500)))
            w.net._count('adv.byz')
            w.record(('byz', exp[0], len(data)))
            w.release(node, ('byz',))
            self.watch._r('byz.injected')

    def payloads(self, r):
        n = r.randint(0, 5)
        pls = []
        for _ in range(n):
            p = hostile._payload(r)
            if p['type'] == R.P_NONCE and not 16 <= len(p['data']) <= 256:
                p['data'] = bytes(r.getrandbits(8) for _ in range(r.choice([16, 32, 256])))
            if p['type'] == R.P_VENDOR and not p['data']:
                p['data'] = b'x'
            if p['type'] == R.P_SA:
                for pr in p['proposals']:
                    for t in pr['transforms']:
                        if r.random() < 0.2:
                            t['attrs'] = [(r.choice([14, 3, 7]), r.choice([128, 256, 7]))] + ([(14, 256)] if r.random() < 0.5 else [])
                if r.random() < 0.35:
                    # the same suite offered again under another number / SPI / transform order (legal, and what an initiator with several
                    # SPIs or a sloppy policy compiler sends): proposals that compare equal must still be encoded as distinct substructures
                    import copy
                    twin = copy.deepcopy(r.choice(p['proposals']))
                    twin['num'] = len(p['proposals']) + 1
                    twin['spi'] = bytes(r.getrandbits(8) for _ in range(len(twin['spi'])))
                    r.shuffle(twin['transforms'])
                    p['proposals'].append(twin)
            if p['type'] in (R.P_IDi, R.P_IDr) and p['id_type'] in (1, 5):
                p['data'] = bytes(r.getrandbits(8) for _ in range(4 if p['id_type'] == 1 else 16))
            pls.append(p)
        return pls

    def make(self, r, node):
        pls = self.payloads(r)
        crit_unknown = any(p['type'] not in KNOWN and p.get('critical') for p in pls)
        unk = any(p['type'] not in KNOWN for p in pls)
        chain = R.enc_chain(pls)
        first = pls[0]['type'] if pls else 0
        damage = r.random()
        exp = ('critical', f'unknown critical payload in {[PT.get(p["type"], p["type"]) for p in pls]}') if crit_unknown else \
            ('accept', ('unknown non-critical payload skipped: ' if unk else 'well-formed: ') + str([PT.get(p['type'], p['type']) for p in pls]))
        if damage < 0.12 and not crit_unknown:
            chain = chain + bytes(r.getrandbits(8) for _ in range(r.randint(1, 7)))
            exp = ('trailing', 'trailing octets after the last payload: ' + str([PT.get(p['type'], p['type']) for p in pls]))
        elif damage < 0.2 and pls and not crit_unknown and len(chain) > 4:
            chain = chain[:-r.randint(1, min(3, len(chain) - 1))]
            exp = ('trailing', 'chain ends early: ' + str([PT.get(p['type'], p['type']) for p in pls]))
        elif damage < 0.3 and not crit_unknown:
            # the data ends exactly at a payload boundary, but the last payload (or the header, for an empty chain) announces a successor
            if pls:
                o = 0
                b = bytearray(chain)
                while True:
                    ln = struct.unpack('>H', b[o + 2:o + 4])[0]
                    if o + ln >= len(b):
                        break
                    o += ln
                b[o] = r.choice([R.P_NOTIFY, R.P_VENDOR, R.P_AUTH, R.P_NONCE, 200])
                chain = bytes(b)
            else:
                first = r.choice([R.P_NOTIFY, R.P_SA, R.P_VENDOR])
            exp = ('trailing', 'dangling next-payload: last payload announces a successor but the data ends: ' + str([PT.get(p['type'], p['type']) for p in pls]))
        if 0.38 <= damage < 0.46 and not crit_unknown and any(p['type'] == R.P_SA and p['proposals'] for p in pls):
            # octets behind the substructure that is marked as the last one (Proposal in the SA payload, Transform in a Proposal), every
            # enclosing length covering them: the chain of substructures does not end where its container ends
            i = next(i for i, p in enumerate(pls) if p['type'] == R.P_SA and p['proposals'])
            body = bytearray(R.enc_body(pls[i]))
            extra = bytes(r.getrandbits(8) for _ in range(r.choice([1, 3, 4, 8])))
            where = r.choice(['proposal', 'transform'])
            if where == 'transform':
                o = 0
                while body[o] != 0:
                    o += struct.unpack('>H', body[o + 2:o + 4])[0]
                body[o + 2:o + 4] = struct.pack('>H', struct.unpack('>H', body[o + 2:o + 4])[0] + len(extra))
            body += extra
            pls = list(pls)
            pls[i] = {'type': R.P_SA, 'raw': bytes(body)}
            chain = R.enc_chain(pls)
            exp = ('trailing', f'octets behind the last {"Proposal" if where == "proposal" else "Transform"} of an SA payload')
        surplus = b''
        if 0.3 <= damage < 0.38 and not crit_unknown:
            # a complete message followed by octets the header's Length field does not announce (the field itself left alone)
            surplus = bytes(r.getrandbits(8) for _ in range(r.choice([1, 4, 5, 16, 28])))
            exp = ('trailing', 'octets behind the end the header announces: ' + str([PT.get(p['type'], p['type']) for p in pls]))
        cands = [sa for sa in node.ike_sas() if sa.ike_sa_keyring is not None and _keys_for(sa)]
        flags_variety = r.choice([0, 0, 0x10, 0x01, 0x40, 0x80, 0xC7]) if exp[0] == 'accept' else 0       # version / reserved bits: MUST be ignored on receipt
        if cands and r.random() < 0.6:
            sa = r.choice(cands)
            integ_id, sk_a, sk_e = _keys_for(sa)
            spi_i, spi_r = (sa.my_spi, sa.peer_spi) if sa.is_initiator else (sa.peer_spi, sa.my_spi)
            is_res = r.random() < 0.3
            base = sa.my_msg_id if is_res else sa.peer_msg_id
            h = {'spi_i': spi_i, 'spi_r': spi_r, 'exch': r.choice([35, 36, 37]), 'I': not sa.is_initiator, 'R': is_res, 'id': base + r.choice([3, 9, 50]),
                 'flags_extra': flags_variety & 0xD7}
            outer = []
            if r.random() < 0.25:
                # cleartext payloads in front of SK (allowed: SK only has to be the last payload): known ones and unknown non-critical ones
                for _ in range(r.randint(1, 2)):
                    outer.append(r.choice([{'type': R.P_NOTIFY, 'proto': 0, 'ntype': r.choice([16388, 16389, 16404, 40000]), 'spi': b'', 'data': bytes(r.getrandbits(8) for _ in range(r.choice([0, 8, 20])))},
                                           {'type': R.P_VENDOR, 'data': b'outer-vendor-' + bytes([65 + r.randrange(26)])},
                                           {'type': r.choice([47, 49, 200]), 'data': bytes(r.getrandbits(8) for _ in range(r.choice([0, 4, 12]))), 'critical': False}]))
                self.watch._r('byz.outer_payloads_before_sk')
            extra = 0
            if r.random() < 0.2:
                # more padding than the minimum (the recipient MUST accept any Pad Length that gives proper alignment)
                extra = r.choice([1, 2, 7, 14])
                self.watch._r('byz.over_padded')
            data = _seal_raw(h, first, chain, integ_id, sk_a, sk_e, bytes(r.getrandbits(8) for _ in range(16)), outer=outer, pad_extra=extra)
            return data + surplus, exp, (pls if exp[0] != 'trailing' else None)
        # clear: an IKE_SA_INIT request is parsed in full whoever sends it (a new responder IKE_SA)
        flags = 0x08 | (flags_variety & 0xD7)
        total = 28 + len(chain)
        data = struct.pack('>8s8sBBBBLL', bytes(r.getrandbits(8) for _ in range(8)), b'\0' * 8, first, 0x20, 34, flags, 0, total) + chain
        return data + surplus, exp, None


def generate(seed, tier):
    r = random.Random(f'C05gen:{seed}')
    o = {'conf': {'profile': 'fast', 'entries': 2}, 'faults': [], 'forced': 2, 'duration': 22, 'packets': 0, 'both_initiate': False}
    sc = workload.pair_scenario(seed, PROP, o)
    sc['debug_log'] = r.random() < 0.25
    ca = sc['nodes']['A']['conf']
    conn = next(iter(configs.read_conf(ca).values()))
    ops = sc['ops']
    t = 0.95
    for rnd in range(r.randint(2, 4)):
        t += 1.0
        flow = configs.flow_for_entry(r, conn['my_addr'], conn['peer_addr'], conn['protect'][rnd % len(conn['protect'])])
        ops.append({'t': round(t, 3), 'op': 'packet', 'node': 'A', 'flow': flow})
        for k in range(r.randint(1, 3)):
            t += r.choice([0.3, 1.0, 2.0])
            ops.append({'t': round(t, 3), 'op': 'call', 'name': 'byz', 'node': r.choice('AB'), 'count': r.randint(8, 25), 'seed': r.randrange(2 ** 31)})
        t += 1.5
    sc['until'] = t + 3
    sc['quiet_from'] = sc['until']
    ops.sort(key=lambda x: x['t'])
    return sc


def run(scenario):
    ctx = {}

    def setup(w, ctx):
        wire = ctx['wire'] = WireLog(w)
        ctx['cov'] = workload.Coverage(w)
        tap = ctx['tap'] = Wiretap(w, check_reencode=True)
        watch = ctx['watch'] = DumpWatch(w, tap)
        ctx['handlers'] = {'byz': Byzantine(w, wire, watch)}

    def at_end(w, ctx):
        for p in ctx['tap'].problems:
            if p['kind'] in ('encoding_differs_from_reference', 'emitted_undecodable', 'emitted_wrong_length'):
                return w.violation(PROP, 'emitted_octets_not_rfc_layout', p['sig'], p['detail'])
    ctx['at_end'] = at_end
    try:
        w = execute(scenario, setup, ctx)
    finally:
        if 'watch' in ctx:
            ctx['watch'].restore()
    tap, watch = ctx['tap'], ctx['watch']
    reach = dict(watch.reach)
    reach['emitted_reencoded'] = tap.counts.get('reencoded_clear', 0) + tap.counts.get('reencoded_inner', 0)
    if scenario.get('debug_log'):
        n = sum(1 for (t, node, lvl, msg) in w.logs if lvl == logging.DEBUG and '"payloads"' in msg and '"encrypted_payloads"' in msg)
        if n:
            reach['debug_dump_logged'] = n
    st = workload.base_stats(w, ctx['cov'], {'reach': reach, 'nontrivial': reach.get('dumps_compared', 0) >= 20 and reach.get('dumps_compared_encrypted', 0) >= 5})
    import hashlib
    st['sig'] = hashlib.sha256(repr(sorted(set(watch.types_seen))).encode()).hexdigest()[:16]
    if scenario.get('seed', 0) % 43 == 0 or w.violations:
        st['sample'] = {'seed': scenario.get('seed'), 'meta': scenario.get('meta'), 'reach': reach,
                        'payload_lists': [[PT.get(t, t) for t in x] for x in sorted(set(watch.types_seen))[:10]]}
    res = {'violations': w.violations, 'stats': st, 'digest': w.hexdigest()}
    if w.violations:
        res['scenario'] = replayable(scenario, w)
    if scenario.get('keep_events'):
        res['trace'] = w.events[-200:] + [f'LOG {l}' for l in w.logs[-40:]]
    return res
