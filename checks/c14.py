"""C14 - netlink/XFRM requests are byte-exact for the kernel ABI and say what was meant.

The kernel model IS the ABI oracle: it decodes every request with the layout compiled from <linux/xfrm.h> and validates it
the way net/xfrm/xfrm_user.c does.  The decoded parameters are compared with the INTENT, known independently: policies from
the harness' own reading of the configuration, SAs from the wiretap's reference negotiation result.  In the other direction
ACQUIRE / EXPIRE events are encoded by the kernel model with the kernel layout over wide value ranges and the daemon's
reaction (decoded from the protected traffic by the wiretap) shows what it decoded."""
import ipaddress
import random

from sim import workload, configs, refike as R
from sim.childcheck import newsa_index, quad, alg, ts_to_kernel, sel_str, PROTO_NUM
from sim.kernel import K, INF, sel_nets, _addr, _addr_raw
from sim.observe import WireLog
from sim.scenario import execute, replayable
from sim.wiretap import Wiretap
from checks.c15 import expected_policies, installed_policies

PROP = 'C14'
LEVEL = 'exploration'
BUDGET = {'quick': {'runs': 700, 'wall': 52, 'chunk': 6, 'min_wall': 60},
          'thorough': {'runs': 200000, 'wall': 1200, 'chunk': 12, 'min_wall': 150}}
RULE = ('one evaluation = one simulated run whose every netlink request is decoded with the kernel layout and compared with the '
        'intent; non-trivial = at least 4 NEWSA requests and 6 NEWPOLICY requests were compared field by field and at least one ACQUIRE '
        'and one EXPIRE reaction was decoded; distinct = distinct (family, prefix lengths, port pattern, protocol, mode, algorithms, '
        'lifetime kind)')
COMPONENTS = {'real': ['xfrm.py (ctypes mirrors, create_sa / create_policy / delete_sa / flush_*, parse_message)', 'netlink.py (header, '
                       'attribute TLVs, reply / error handling, NetlinkStructure.parse)', 'ikesacontroller.py (process_acquire / process_expire)'],
              'stub': ['kernel model with layout from tools/layout.c (gcc + <linux/xfrm.h> at setup)', 'wiretap (intent of every CHILD_SA)']}
ASSUMPTIONS = ['the real kernel is not consulted (this sandbox kernel refuses SA creation); trusted base = <linux/xfrm.h> + the transcription '
               'of the xfrm_user.c verification rules in sim/kernel.py', 'NLMSG_DONE / multipart / padded replies are not produced by the model '
               '(Linux answers these requests with a single NLMSG_ERROR ack)']
NOT_EXERCISED = ['NLMSG_DONE, multi-part and padded replies', 'ACQUIRE for ICMP flows (type/code instead of ports)']
EXPECT_REACH = ['newsa_compared', 'key_bytes_compared', 'policies_compared', 'acquire_decoded', 'expire_soft_decoded', 'expire_hard_decoded', 'delsa_checked',
                'family.4', 'family.6', 'family.mixed', 'port.sentinel', 'lifetime.infinite', 'lifetime.finite', 'proto.ah', 'proto.esp', 'mode.tunnel',
                'mode.transport', 'kernel_error_surfaced']
AUTH_NAME = {2: 'hmac(sha1)', 12: 'hmac(sha256)', 14: 'hmac(sha512)'}
AUTH_KEYBITS = {2: 160, 12: 256, 14: 512}


def generate(seed, tier):
    r = random.Random(f'C14gen:{seed}')
    o = {'conf': {'profile': r.choice(['fast', 'mid']), 'entries': 3, 'wide_nets': True, 'infinite_lifetimes': 0.25, 'mixed_family': 0.25},
         'both_initiate': r.random() < 0.4, 'packets': r.randint(2, 6), 'duration': r.choice([25, 45]), 'forced': 4,
         'forced_kinds': ['expire_soft', 'expire_hard'], 'faults': []}
    sc = workload.pair_scenario(seed, PROP, o)
    if r.random() < 0.2:
        # configurations that are no mirror images: one end protects "any protocol, any port" where the other names TCP / UDP and ports; the
        # CHILD_SAs then pair a general selector with a specific one, and a packet must be admitted by both
        side = sc['nodes'][r.choice('AB')]['conf']
        for c_ in side.values():
            for p_ in c_['protect']:
                if p_.get('ip_proto', 'any') != 'any':
                    p_['ip_proto'] = 'any'
                    p_['my_port'] = p_['peer_port'] = 0
        sc['meta']['proto_any_one_side'] = True
    if r.random() < 0.4:
        for _ in range(r.randint(1, 2)):
            sc['ops'].append({'t': round(r.uniform(0.95, sc['until']), 3), 'op': 'kerr', 'node': r.choice('AB'), 'nth': r.randint(1, 4),
                              'errno': r.choice(['ENOMEM', 'EINVAL', 'ENOBUFS', 'EEXIST'])})
    if r.random() < 0.12:
        # the kernel refuses one of the requests of B's start-up (flush of SPD / SAD, one of the NEWPOLICYs): "kernel errors surface as
        # errors" - a daemon that goes on into its event loop has treated the refusal as a success
        tb = next(o_['t'] for o_ in sc['ops'] if o_['op'] == 'start' and o_['node'] == 'B')
        nth, err = r.randint(1, 2 + 9), r.choice(['ENOMEM', 'EINVAL', 'EEXIST', 'EPERM'])
        if tb >= 0.002:
            # (strictly before the start: operations at one instant may be re-ordered by minimisation / replay)
            sc['ops'].append({'t': round(tb - 0.001, 4), 'op': 'kerr_boot', 'node': 'B', 'nth': nth, 'errno': err})
            sc['meta']['kerr_boot'] = True
    sc['ops'].sort(key=lambda x: x['t'])
    if r.random() < 0.2:
        # a peer that proposes, for a new or rekeyed CHILD_SA, an SPI it already uses with us: the kernel refuses the duplicate with a
        # genuine EEXIST, and whatever clean-up follows must not name the healthy SA that owns the triple
        sc['byz'] = {'kind': 'reuse_spi_request', 'seed': r.randrange(2 ** 31)}
        sc['meta']['byz'] = 'reuse_spi_request'
    elif r.random() < 0.2:
        # a peer whose selectors are real ranges (no CIDR block, ports first..last)
        sc['byz'] = {'kind': 'range_request', 'seed': r.randrange(2 ** 31)}
        sc['meta']['byz'] = 'range_request'
    if r.random() < 0.25:
        # a kernel with sub-policies, marks or interface ids: its ACQUIRE / EXPIRE events carry XFRMA_POLICY_TYPE, XFRMA_MARK, XFRMA_IF_ID
        sc['kernel_event_attrs'] = r.sample(['policy_type', 'mark', 'if_id'], r.randint(1, 3))
        sc['meta']['kernel_event_attrs'] = True
    return sc


def entry_for(conf, my_addr, peer_addr, src_net, dst_net, proto, mode):
    """Lifetimes of the protect entries of this node the SA could belong to (selectors inside, proto and mode equal)."""
    out = []
    for conn in configs.read_conf(conf).values():
        if str(conn['my_addr']) != my_addr or str(conn['peer_addr']) != peer_addr:
            continue
        for e in conn['protect']:
            if (e['ipsec_proto'] == 'esp') != (proto == R.PROTO_ESP) or (e['mode'] == 'transport') != mode:
                continue
            if src_net.version == e['my_net'].version and src_net.subnet_of(e['my_net']) and dst_net.subnet_of(e['peer_net']):
                out.append(e['lifetime'])
    return out


def judge(w, tap, ctx, scenario, reach):
    V = lambda cls, sig, detail: w.violation(PROP, cls, sig, detail)
    # ---- 1. nothing the kernel would refuse or misread
    for n in w.nodes.values():
        for (no, text) in n.kernel.abi_problems:
            rec = n.kernel.requests[no - 1]
            if rec.get('injected'):
                continue
            return V('request_not_valid_for_the_kernel_abi', {'what': ' '.join(text.split()[:3])},
                     f'{n.name} netlink request #{no} (type {rec.get("type")}): {text}')
    # ---- 2. policies say what the configuration says (first incarnation)
    for n in w.nodes.values():
        if n.state != 'running':
            continue
        exp = sorted((e[:9] + e[10:]) for e in expected_policies(n.conf))
        got = sorted((g[:9] + g[10:]) for g in installed_policies(n.kernel, lambda p: True))
        reach['policies_compared'] = reach.get('policies_compared', 0) + len(got)
        if exp != got:
            missing = [e for e in exp if e not in got]
            extra = [g for g in got if g not in exp]
            return V('policy_fields_differ_from_configuration', {}, f'{n.name}: expected-but-absent {missing[:2]}; installed-but-unexpected {extra[:2]} '
                                                                    f'(dir, family, src, dst, sport, mask, dport, mask, proto, action, template)')
        for p in n.kernel.spd:
            for f in ('soft_byte_limit', 'hard_byte_limit', 'soft_packet_limit', 'hard_packet_limit'):
                if p['lft'][f] != INF:
                    return V('policy_lifetime_not_infinite', {'field': f}, f'{n.name}: policy {f}={p["lft"][f]}')
    # ---- 3. every negotiated CHILD_SA: the four NEWSA requests carry exactly the negotiated parameters
    idx = {n: newsa_index(node) for n, node in w.nodes.items()}
    seen_spis = {}
    for ch in tap.children:
        for k in ((ch['x_init'], ch['spi_init']), (ch['x_resp'], ch['spi_resp'])):
            seen_spis[k] = seen_spis.get(k, 0) + 1
    for ch in tap.children:
        q = quad(w, ch, idx)
        if q is None:
            continue
        if scenario.get('byz', {}).get('kind') == 'reuse_spi_request':
            # the Byzantine peer re-uses SPIs: (daddr, proto, SPI) no longer names one negotiation, and clauses 3 and 6, which attribute kernel
            # requests and events to negotiations by SPI, are left to the other batches
            reach['byz_run_children_not_attributed'] = reach.get('byz_run_children_not_attributed', 0) + 1
            continue
        tsi = ts_to_kernel(ch['tsi'][0]) if ch['tsi'] else None
        tsr = ts_to_kernel(ch['tsr'][0]) if ch['tsr'] else None
        if tsi is None or tsr is None:
            # selectors that are real ranges (a peer may negotiate them): the kernel is told the smallest network that holds the addresses
            # and never more ports than were negotiated
            reach['non_cidr_selectors'] = reach.get('non_cidr_selectors', 0) + 1
            from sim.childcheck import ts_cover, kernel_half_vs_cover
            ci, cr = ts_cover(ch['tsi'][0]), ts_cover(ch['tsr'][0])
            for who, rec, src, dst in (('initiator outbound', q[0], ci, cr), ('responder inbound', q[1], ci, cr), ('initiator inbound', q[2], cr, ci),
                                       ('responder outbound', q[3], cr, ci)):
                if rec is None:
                    continue
                sel = rec['decoded']['sa']['sel']
                nets = sel_nets(sel)
                if not nets:
                    continue
                bad = kernel_half_vs_cover(nets[0], sel['sport'], sel['sport_mask'], src) or kernel_half_vs_cover(nets[1], sel['dport'], sel['dport_mask'], dst)
                if bad:
                    return V('sa_selector_differs_from_negotiated', {'role': who.split()[1], 'field': ('src ' if bad == 'net' else 's') + bad, 'selectors': 'ranges'},
                             f'{who}: kernel selector {sel_str(sel)} for negotiated ranges TSi {ch["tsi"][0]["saddr"].hex()}-{ch["tsi"][0]["eaddr"].hex()} '
                             f'ports {ch["tsi"][0]["sport"]}-{ch["tsi"][0]["eport"]} / TSr {ch["tsr"][0]["saddr"].hex()}-{ch["tsr"][0]["eaddr"].hex()} ports '
                             f'{ch["tsr"][0]["sport"]}-{ch["tsr"][0]["eport"]}: the {bad} is not what they denote (smallest network holding the addresses; '
                             f'all ports only if all were negotiated, else a port of the range)')
            continue
        roles = (('initiator outbound', q[0], ch['x_init'], ch['x_init_addr'], ch['x_resp_addr'], tsi, tsr, ch['spi_resp']),
                 ('responder inbound', q[1], ch['x_resp'], ch['x_init_addr'], ch['x_resp_addr'], tsi, tsr, ch['spi_resp']),
                 ('initiator inbound', q[2], ch['x_init'], ch['x_resp_addr'], ch['x_init_addr'], tsr, tsi, ch['spi_init']),
                 ('responder outbound', q[3], ch['x_resp'], ch['x_resp_addr'], ch['x_init_addr'], tsr, tsi, ch['spi_init']))
        for who, rec, node_name, src_addr, dst_addr, ts_src, ts_dst, spi in roles:
            if rec is None:
                continue
            sa = rec['decoded']['sa']
            reach['newsa_compared'] = reach.get('newsa_compared', 0) + 1
            fam = K['AF_INET'] if ipaddress.ip_address(dst_addr).version == 4 else K['AF_INET6']
            tag = {'role': who.split()[1]}
            if sa['family'] != fam or sa['saddr_raw'] != _addr_raw(src_addr) or sa['id']['daddr_raw'] != _addr_raw(dst_addr):
                return V('sa_endpoint_addresses_wrong', tag, f'{node_name} {who}: family {sa["family"]} saddr {sa["saddr_raw"].hex()} daddr '
                                                             f'{sa["id"]["daddr_raw"].hex()}, expected {src_addr} -> {dst_addr}')
            if sa['id']['spi'] != spi:
                return V('sa_spi_wrong', tag, f'{node_name} {who}: SPI {sa["id"]["spi"].hex()} expected {spi.hex()}')
            sel = sa['sel']
            nets = sel_nets(sel)
            sfam = K['AF_INET'] if ts_src[0].version == 4 else K['AF_INET6']
            if ts_src[3] and ts_dst[3] and ts_src[3] != ts_dst[3]:
                continue          # (contradictory protocols: nothing a kernel selector could denote)
            want = (sfam, str(ts_src[0]), str(ts_dst[0]), ts_src[1], ts_src[2], ts_dst[1], ts_dst[2], ts_src[3] or ts_dst[3])      # one packet, one protocol
            got = (sel['family'], str(nets[0]) if nets else '?', str(nets[1]) if nets else '?', sel['sport'], sel['sport_mask'], sel['dport'],
                   sel['dport_mask'], sel['proto'])
            if got != want:
                fields = ('family', 'src net', 'dst net', 'sport', 'sport_mask', 'dport', 'dport_mask', 'proto')
                bad = [f for f, a, b in zip(fields, got, want) if a != b]
                return V('sa_selector_differs_from_negotiated', dict(tag, field=bad[0]), f'{node_name} {who}: kernel selector {sel_str(sel)} but the '
                                                                                        f'negotiated selectors denote {want}; differing: {bad}')
            if sel['saddr_raw'][4 if sfam == K['AF_INET'] else 16:].strip(b'\0') or sel['daddr_raw'][4 if sfam == K['AF_INET'] else 16:].strip(b'\0'):
                return V('sa_selector_address_garbage', tag, f'{node_name} {who}: selector address has octets beyond the family width')
            if sa['id']['proto'] != PROTO_NUM[ch['proto']] or sa['mode'] != (0 if ch['transport'] else 1):
                return V('sa_protocol_or_mode_wrong', tag, f'{node_name} {who}: ipsec proto {sa["id"]["proto"]} mode {sa["mode"]}, negotiated '
                                                           f'{"ESP" if ch["proto"] == 3 else "AH"} {"transport" if ch["transport"] else "tunnel"}')
            c, a = alg(rec, K['XFRMA_ALG_CRYPT']), alg(rec, K['XFRMA_ALG_AUTH'])
            if ch['proto'] == R.PROTO_ESP:
                if c is None or c[0] != 'cbc(aes)' or c[1] != ch['encr_bits'] or len(c[2]) * 8 != ch['encr_bits']:
                    return V('sa_encryption_algorithm_wrong', tag, f'{node_name} {who}: XFRMA_ALG_CRYPT {c and (c[0], c[1], len(c[2]))}, '
                                                                   f'negotiated AES-CBC {ch["encr_bits"]}')
            elif c is not None:
                return V('sa_encryption_algorithm_wrong', tag, f'{node_name} {who}: AH SA carries XFRMA_ALG_CRYPT {c[0]}')
            if a is None or a[0] != AUTH_NAME[ch['integ']] or a[1] != AUTH_KEYBITS[ch['integ']] or len(a[2]) * 8 != a[1]:
                return V('sa_integrity_algorithm_wrong', tag, f'{node_name} {who}: XFRMA_ALG_AUTH {a and (a[0], a[1], len(a[2]))}, negotiated '
                                                              f'{AUTH_NAME[ch["integ"]]} / {AUTH_KEYBITS[ch["integ"]]} bits')
            # key bytes: the octets in the attribute are the negotiated key of that direction, all of them (reference KEYMAT from the wiretap)
            km = ch.get('keymat')
            if km:
                d = 'i' if who in ('initiator outbound', 'responder inbound') else 'r'
                if ch['proto'] == R.PROTO_ESP and c is not None and bytes(c[2]) != km['e' + d]:
                    return V('sa_key_bytes_differ', dict(tag, key='encryption'), f'{node_name} {who}: XFRMA_ALG_CRYPT key {bytes(c[2]).hex()} is not the '
                                                                                 f'negotiated SK_e{d} {km["e" + d].hex()}')
                if bytes(a[2]) != km['a' + d]:
                    return V('sa_key_bytes_differ', dict(tag, key='integrity'), f'{node_name} {who}: XFRMA_ALG_AUTH key {bytes(a[2]).hex()} is not the '
                                                                                f'negotiated SK_a{d} {km["a" + d].hex()}')
                reach['key_bytes_compared'] = reach.get('key_bytes_compared', 0) + 1
            lft = sa['lft']
            for f in ('soft_byte_limit', 'hard_byte_limit', 'soft_packet_limit', 'hard_packet_limit'):
                if lft[f] != INF:
                    return V('sa_volume_limit_not_infinite', dict(tag, field=f), f'{node_name} {who}: {f}={lft[f]}')
            if lft['soft_use_expires_seconds'] or lft['hard_use_expires_seconds']:
                return V('sa_use_expiry_set', tag, f'{node_name} {who}: use-time expiry set')
            outbound = who.endswith('outbound')
            my_addr, peer_addr = (src_addr, dst_addr) if outbound else (dst_addr, src_addr)
            my_net, peer_net = (ts_src[0], ts_dst[0]) if outbound else (ts_dst[0], ts_src[0])
            lifes = entry_for(w.nodes[node_name].conf, my_addr, peer_addr, my_net, peer_net, ch['proto'], ch['transport'])
            soft, hard = lft['soft_add_expires_seconds'], lft['hard_add_expires_seconds']
            ok = any((L == -1 and soft == 0 and hard == 0) or (L >= 0 and L <= soft <= L + 5 and hard == soft + 10) for L in lifes)
            if lifes and not ok:
                return V('sa_lifetime_not_the_configured_one', tag, f'{node_name} {who}: soft={soft} hard={hard} for configured lifetime(s) {lifes} '
                                                                    f'(expected soft in [L, L+5], hard = soft + 10; L = -1 means no expiry)')
            if lifes:
                reach['lifetime.infinite' if soft == 0 else 'lifetime.finite'] = 1
            reach['proto.esp' if ch['proto'] == 3 else 'proto.ah'] = 1
            reach['mode.transport' if ch['transport'] else 'mode.tunnel'] = 1
            reach['family.4' if sfam == K['AF_INET'] else 'family.6'] = 1
            if sfam != fam:
                reach['family.mixed'] = 1
            if {ts_src[1], ts_dst[1]} & {1, 255, 256, 65535}:
                reach['port.sentinel'] = 1
    # ---- 4. DELSA requests name SAs by (daddr for the right family, proto, SPI) that were installed
    for n in w.nodes.values():
        for r in n.kernel.requests:
            d = r.get('decoded')
            if d and d.get('kind') == 'delsa' and not r.get('injected'):
                reach['delsa_checked'] = reach.get('delsa_checked', 0) + 1
                sid = d['id']
                want_fam = K['AF_INET'] if len(sid['daddr_raw'].rstrip(b'\0')) <= 4 and ipaddress.ip_address(n.addrs[0]).version == 4 else K['AF_INET6']
                if sid['family'] != want_fam:
                    return V('delsa_family_wrong', {}, f'{n.name}: DELSA family {sid["family"]} for daddr {sid["daddr_raw"].hex()}')
                if d.get('same_spi_other_daddr'):
                    return V('delsa_names_the_wrong_sa', {}, f'{n.name}: DELSA for (daddr {sid["daddr_raw"].hex()}, proto {sid["proto"]}, SPI '
                                                             f'{sid["spi"].hex()}) matches nothing, while an SA with that SPI and protocol is installed '
                                                             f'under daddr {d["same_spi_other_daddr"]}')
                if r['errno'] and r['errno'] != 3:
                    return V('delsa_refused', {'errno': r['errno']}, f'{n.name}: DELSA refused with errno {r["errno"]}')
    # ---- 5. ACQUIRE: the offer that follows carries the flow the kernel reported
    acq = {}
    for (t, node, flow, res) in ctx.get('packets', []):
        if res == 'acquire':
            acq.setdefault(node, []).append((t, flow))
    for m in tap.messages:
        if m['clear'] or m['h']['R'] or m['h']['exch'] not in (R.IKE_AUTH, R.CREATE_CHILD_SA) or m.get('rewritten'):
            continue          # (a request re-sealed by the Byzantine peer is not what the daemon made of its ACQUIRE)
        if any(p['type'] == R.P_NOTIFY and p['ntype'] == R.N_REKEY_SA for p in m['payloads']):
            continue
        tsi = next((p for p in m['payloads'] if p['type'] == R.P_TSi), None)
        tsr = next((p for p in m['payloads'] if p['type'] == R.P_TSr), None)
        if tsi is None or tsr is None or not tsi['selectors'] or not tsr['selectors']:
            continue
        a, b = tsi['selectors'][0], tsr['selectors'][0]
        cands = acq.get(m['sender'], [])
        match = None
        for (t, f) in cands:
            sa_, da_ = ipaddress.ip_address(f['saddr']).packed, ipaddress.ip_address(f['daddr']).packed
            sp = (f['sport'], f['sport']) if f['sport'] else (0, 65535)
            dp = (f['dport'], f['dport']) if f['dport'] else (0, 65535)
            if (a['saddr'], a['eaddr'], b['saddr'], b['eaddr']) == (sa_, sa_, da_, da_) and (a['sport'], a['eport']) == sp and \
                    (b['sport'], b['eport']) == dp and a['proto'] == f['proto'] == b['proto']:
                match = (t, f)
                break
        if match is None and cands:
            return V('acquire_flow_decoded_wrongly', {}, f'{m["sender"]}: the CHILD_SA offer at t={m["t"]:.2f} starts with selectors '
                                                         f'{a["saddr"].hex()}:{a["sport"]}-{a["eport"]}/{a["proto"]} -> {b["saddr"].hex()}:{b["sport"]}-{b["eport"]}, '
                                                         f'which is none of the flows the kernel reported in its ACQUIREs {[f for _, f in cands][:3]}')
        if match is not None:
            reach['acquire_decoded'] = reach.get('acquire_decoded', 0) + 1
    # ---- 6. EXPIRE: soft -> rekey of exactly that CHILD_SA, hard -> delete of exactly that CHILD_SA
    for (t, node, spi, hard) in (ctx.get('expires', []) if not scenario.get('byz') else []):
        after = [m for m in tap.messages if not m['clear'] and m['sender'] == node and not m['h']['R'] and t - 1e-9 <= m['t'] <= t + 0.0001]
        if not after:
            continue             # the daemon was busy: the event was queued (judged by C09), nothing to decode right now
        m = after[0]
        if hard:
            dels = [p for p in m['payloads'] if p['type'] == R.P_DELETE]
            if m['h']['exch'] == R.INFORMATIONAL and dels:
                reach['expire_hard_decoded'] = reach.get('expire_hard_decoded', 0) + 1
                if spi not in [s for d in dels for s in d['spis']] and ctx['spi_pairs'].get(spi) not in [s for d in dels for s in d['spis']]:
                    return V('expire_spi_decoded_wrongly', {'hard': True}, f'{node}: hard EXPIRE for SPI {spi.hex()} produced DELETE of '
                                                                           f'{[s.hex() for d in dels for s in d["spis"]]}')
        else:
            rk = [p for p in m['payloads'] if p['type'] == R.P_NOTIFY and p['ntype'] == R.N_REKEY_SA]
            if m['h']['exch'] == R.CREATE_CHILD_SA and rk:
                reach['expire_soft_decoded'] = reach.get('expire_soft_decoded', 0) + 1
                if rk[0]['spi'] not in (spi, ctx['spi_pairs'].get(spi)):
                    return V('expire_spi_decoded_wrongly', {'hard': False}, f'{node}: soft EXPIRE for SPI {spi.hex()} produced REKEY_SA of {rk[0]["spi"].hex()}')
            elif m['h']['exch'] == R.INFORMATIONAL and any(p['type'] == R.P_DELETE for p in m['payloads']):
                return V('expire_hard_flag_decoded_wrongly', {}, f'{node}: soft EXPIRE for SPI {spi.hex()} produced a DELETE')
    # ---- 7. injected kernel errors surface (the refused request is never treated as a success)
    for n in w.nodes.values():
        for r in n.kernel.requests:
            if r.get('injected') and r['type'] == K['XFRM_MSG_NEWSA']:
                reach['kernel_error_surfaced'] = reach.get('kernel_error_surfaced', 0) + 1
    return None


def run(scenario):
    ctx = {'expires': [], 'spi_pairs': {}, 'reach': {}}

    def setup(w, ctx):
        ctx['wire'] = WireLog(w)
        ctx['cov'] = workload.Coverage(w)
        ctx['tap'] = Wiretap(w)

        class ExpireLog:
            """Remember which EXPIRE events the kernel model emitted (time, node, SPI, hard) and the SPI pairs of CHILD_SAs."""
            def before_step(self, node, cause):
                if isinstance(cause, tuple) and cause[0] == 'kevent' and len(cause) >= 4 and cause[1] == 'expire':
                    if node.state == 'running' and all(sa.state.name == 'ESTABLISHED' for sa in node.ike_sas()):
                        ctx['expires'].append((w.now, node.name, bytes.fromhex(cause[2]), bool(cause[3])))
                for sa in node.ike_sas():
                    for c in sa.child_sas:
                        ctx['spi_pairs'][bytes(c.inbound_spi)] = bytes(c.outbound_spi)
                        ctx['spi_pairs'][bytes(c.outbound_spi)] = bytes(c.inbound_spi)
        w.monitors.append(ExpireLog())

        class BootRefusal:
            """A request of the start-up (flush, NEWPOLICY) that the kernel refused: the daemon must not carry on as if it had been done."""
            def __init__(self):
                self.mark = {}
                self.done = set()

            def before_step(self, node, cause):
                if (cause[0] if isinstance(cause, tuple) else cause) == 'start':
                    self.mark[node.name] = (node.incarnation, node.kernel.req_no)

            def after_step(self, node, cause):
                inc, first = self.mark.get(node.name, (None, 0))
                if inc != node.incarnation or (node.name, inc) in self.done:
                    return
                if node.state == 'running' and not node.exited and node.control is not None:
                    self.done.add((node.name, inc))
                    for r_ in node.kernel.requests:
                        if r_['no'] > first and r_['errno'] and r_['type'] in (K['XFRM_MSG_NEWPOLICY'], K['XFRM_MSG_FLUSHPOLICY'], K['XFRM_MSG_FLUSHSA']):
                            name = {K['XFRM_MSG_NEWPOLICY']: 'NEWPOLICY', K['XFRM_MSG_FLUSHPOLICY']: 'FLUSHPOLICY'}.get(r_['type'], 'FLUSHSA')
                            w.violation(PROP, 'kernel_error_treated_as_success', {'errno': r_['errno'], 'request': name},
                                        f'{node.name}: the kernel refused the {name} of the start-up (request {r_["no"] - first}) with errno '
                                        f'{r_["errno"]}, and the daemon went on into its event loop')
                            w.poisoned = True
                            return
                elif node.exited or node.state != 'running':
                    if any(r_['no'] > first and r_['errno'] for r_ in node.kernel.requests):
                        ctx['reach']['boot_refusal_surfaced'] = ctx['reach'].get('boot_refusal_surfaced', 0) + 1
                        self.done.add((node.name, inc))
        w.monitors.append(BootRefusal())

        class DelsaOfTracked:
            """'Says what was meant': the daemon removes an SA from the kernel when it has stopped (or is stopping) using it.  A DELSA the
            kernel executed for an SA that the daemon goes on tracking as part of a CHILD_SA removed something else than what was meant."""
            def __init__(self):
                self.idx = {}
                self.pairs = {}
                self.users = {}

            def before_step(self, node, cause):
                # the CHILD_SAs this endpoint tracked (both halves installed) before the step
                m = self.pairs.setdefault(node.name, {})
                users = self.users[node.name] = {}        # (daddr, SPI) -> how many tracked CHILD_SAs use that kernel SA
                for sa in node.ike_sas():
                    for c in sa.child_sas:
                        m[bytes(c.inbound_spi)] = bytes(c.outbound_spi)
                        m[bytes(c.outbound_spi)] = bytes(c.inbound_spi)
                        for k_ in ((_addr_raw(str(sa.peer_addr)), bytes(c.outbound_spi)), (_addr_raw(str(sa.my_addr)), bytes(c.inbound_spi))):
                            users[k_] = users.get(k_, 0) + 1

            def after_step(self, node, cause):
                reqs = node.kernel.requests
                i = self.idx.get(node.name, 0)
                self.idx[node.name] = len(reqs)
                if node.state != 'running' or node.exited or w.poisoned:
                    return
                # "kernel errors surface as errors": a NEWSA the kernel refused (any errno) is not treated as installed - after the step no
                # CHILD_SA is tracked that would use the refused SA
                for r_ in reqs[i:]:
                    d = r_.get('decoded')
                    if r_['type'] != K['XFRM_MSG_NEWSA'] or not r_['errno'] or not d or d.get('kind') != 'newsa':
                        continue
                    sid = d['sa']['id']
                    key = (sid['daddr_raw'], sid['proto'], sid['spi'])
                    ctx['reach']['refused_newsa_judged'] = ctx['reach'].get('refused_newsa_judged', 0) + 1
                    if key in node.kernel.sad:
                        continue
                    for sa in node.ike_sas():
                        if sa.state.name == 'DELETED':
                            continue
                        for c in sa.child_sas:
                            if (bytes(c.outbound_spi) == sid['spi'] and sid['daddr_raw'] == _addr_raw(str(sa.peer_addr))) or \
                                    (bytes(c.inbound_spi) == sid['spi'] and sid['daddr_raw'] == _addr_raw(str(sa.my_addr))):
                                w.violation(PROP, 'kernel_error_treated_as_success', {'errno': r_['errno']},
                                            f'{node.name}: the kernel refused XFRM_MSG_NEWSA for SPI {sid["spi"].hex()} with errno {r_["errno"]} at t={r_["t"]:.2f}, '
                                            f'yet after that step IKE_SA {sa.my_spi.hex()} ({sa.state.name}) tracks CHILD_SA '
                                            f'{bytes(c.inbound_spi).hex()}/{bytes(c.outbound_spi).hex()} as installed')
                                w.poisoned = True
                                return
                # removing a CHILD_SA means removing both of its SAs: whatever the kernel answers to the first DELSA, the second is sent
                dels = [r_['decoded']['id']['spi'] for r_ in reqs[i:] if r_.get('decoded') and r_['decoded'].get('kind') == 'delsa']
                for spi_ in (dels if not scenario.get('byz') else []):          # (a peer re-using SPIs makes the pairing ambiguous)
                    other = self.pairs.get(node.name, {}).get(bytes(spi_))
                    if other is not None:
                        ctx['reach']['delsa_pairs_checked'] = ctx['reach'].get('delsa_pairs_checked', 0) + 1
                        if other not in dels:
                            errs = [(r_['decoded']['id']['spi'].hex(), r_['errno']) for r_ in reqs[i:] if r_.get('decoded') and r_['decoded'].get('kind') == 'delsa']
                            w.violation(PROP, 'delsa_for_one_half_of_a_child_sa_only', {'errno': next((e for s_, e in errs if e), 0)},
                                        f'{node.name}: DELSA for SPI {bytes(spi_).hex()} of CHILD_SA {bytes(spi_).hex()}/{other.hex()} but none for {other.hex()} in the '
                                        f'same step (DELSA requests and kernel answers: {errs})')
                            w.poisoned = True
                            return
                for r_ in reqs[i:]:
                    d = r_.get('decoded')
                    if not d or d.get('kind') != 'delsa' or r_['errno'] or r_.get('injected'):
                        continue
                    spi = d['id']['spi']
                    # a peer that re-uses an SPI makes (daddr, proto, SPI) ambiguous: if a CHILD_SA that used this kernel SA was dropped in this
                    # very step, the DELSA says what was meant (thorough soak, seed 501016343: the old CHILD_SA hard-expired in the kernel, the
                    # peer re-used its SPI for a new one, then the old one was deleted by the daemon)
                    before = self.users.get(node.name, {}).get((d['id']['daddr_raw'], bytes(spi)), 0)
                    after = sum(1 for sa in node.ike_sas() if sa.state.name != 'DELETED' for c in sa.child_sas
                                if (bytes(c.outbound_spi) == spi and d['id']['daddr_raw'] == _addr_raw(str(sa.peer_addr)))
                                or (bytes(c.inbound_spi) == spi and d['id']['daddr_raw'] == _addr_raw(str(sa.my_addr))))
                    if after < before:
                        continue
                    for sa in node.ike_sas():
                        if sa.state.name in ('DELETED',):
                            continue
                        for c in sa.child_sas:
                            mine = bytes(c.outbound_spi) == spi and d['id']['daddr_raw'] == _addr_raw(str(sa.peer_addr))
                            mine = mine or (bytes(c.inbound_spi) == spi and d['id']['daddr_raw'] == _addr_raw(str(sa.my_addr)))
                            if mine:
                                w.violation(PROP, 'delsa_removed_an_sa_still_in_use', {'direction': 'outbound' if bytes(c.outbound_spi) == spi else 'inbound'},
                                            f'{node.name}: the kernel executed DELSA (daddr {d["id"]["daddr_raw"].hex()}, proto {d["id"]["proto"]}, SPI {spi.hex()}) at '
                                            f't={r_["t"]:.2f}, and after that step IKE_SA {sa.my_spi.hex()} ({sa.state.name}) still tracks the CHILD_SA '
                                            f'{bytes(c.inbound_spi).hex()}/{bytes(c.outbound_spi).hex()} that SA belongs to')
                                w.poisoned = True
                                return
        w.monitors.append(DelsaOfTracked())
        if scenario.get('byz'):
            from sim import byz
            from sim.interpose import Interposer
            ip = ctx['ip'] = Interposer(w, ctx['tap'])
            ctx['byz_reach'] = {}
            rule, verdict = byz.make(scenario['byz']['kind'], scenario['byz']['seed'], w, ip, ctx['tap'], ctx['byz_reach'])
            ip.rules.append(rule)

    def at_end(w, ctx):
        ctx['reach'].update(ctx.get('byz_reach', {}))
        judge(w, ctx['tap'], ctx, scenario, ctx['reach'])
    ctx['at_end'] = at_end
    w = execute(scenario, setup, ctx)
    reach = ctx.get('reach', {})
    tap = ctx['tap']
    nontrivial = reach.get('newsa_compared', 0) >= 4 and reach.get('policies_compared', 0) >= 6 and reach.get('acquire_decoded', 0) > 0
    st = workload.base_stats(w, ctx['cov'], {'reach': reach, 'nontrivial': nontrivial})
    import hashlib
    pols = sorted({(p['sel']['family'], p['sel']['prefixlen_s'], p['sel']['prefixlen_d'], bool(p['sel']['sport']), bool(p['sel']['dport']),
                    p['sel']['proto'], p['tmpls'][0]['mode'] if p['tmpls'] else None) for n in w.nodes.values() for p in n.kernel.spd})
    st['sig'] = hashlib.sha256(repr((pols, sorted({(c['proto'], c['encr_bits'], c['integ'], c['transport']) for c in tap.children}))).encode()).hexdigest()[:16]
    if scenario.get('seed', 0) % 47 == 0 or w.violations:
        st['sample'] = {'seed': scenario.get('seed'), 'meta': scenario.get('meta'), 'policies': [str(p) for p in pols][:8], 'reach': reach}
    res = {'violations': w.violations, 'stats': st, 'digest': w.hexdigest()}
    if w.violations:
        res['scenario'] = replayable(scenario, w)
    if scenario.get('keep_events'):
        res['trace'] = w.events[-200:] + [f'LOG {l}' for l in w.logs[-60:]]
    return res
